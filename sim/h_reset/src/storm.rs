//! Mode `storm` — many tiny concurrent rounds per scenario on a persistent set of threads.
//!
//! The windows this mode is for contain no user code (two adjacent atomic steps of one thread, e.g.
//! "mutex released" .. "HAS_WAITERS hint updated") and a whole operation of another thread has to
//! fit into them. One ordinary `mt` scenario offers one such chance per pair of thread creations;
//! here one scenario is 10-30 rounds executed by 2 (sometimes 3) threads that live as long as the
//! scenario, so a round costs a few channel hand-offs (under Miri this multiplies the number of races
//! per second of interpretation).
//!
//! Every round uses a fresh event and fresh wait futures and consists of *phases*: in a phase every
//! thread runs a (possibly empty) script; the threads line up immediately before a phase with a
//! Relaxed, bounded rendezvous (no happens-before edge added, a dead peer never hangs the harness)
//! and the first operations of a *race* phase are the racing ones (0-2 PRNG yields per side). At the
//! end of the round the threads hand their records and futures back over channels (the round's
//! quiescent point), the usual single-threaded drain is appended, and the round's history is judged
//! on its own by `judge` (extended linearizability checker, "latest waker invoked", lost wake-up,
//! waker accounting) exactly as an `mt` history is. A violation in any round fails the scenario.
//!
//! At least half of the rounds are the core races (shapes 1-6 below); the rest are short random
//! scripts like `mt`'s.
//!
//! Waker callbacks are a seam here too: they may yield (0-2 times), and one chosen callback of one
//! thread may hold that thread (bounded, Relaxed flag) until a peer has *started* its racing
//! operation - the clone callback of a poll sits right before the poll's first atomic step.

use std::cell::{Cell, RefCell};
use std::sync::Arc;
use std::sync::atomic::{AtomicU32, AtomicU64, Ordering};
use std::sync::mpsc;

use serde::{Deserialize, Serialize};
use simkit::{Ctx, Rng, Scenario, Violation};

use crate::waker::{CbKind, Hook, HookGuard, WakerCell};
use crate::{Ev, EvScenario, Kind, Op, Rec, Slot, Step, drain, exec_op, gen_op, judge, new_slots, yields};

const SLOTS: u8 = 2;

#[derive(Clone, Debug, Serialize, Deserialize)]
struct Phase {
    /// One script per thread of the round (may be empty).
    scripts: Vec<Vec<Step>>,
    /// The first operations of the scripts are the racing ones (overlap is probed for them).
    race: bool,
}

#[derive(Clone, Copy, Debug, Serialize, Deserialize)]
struct Hold {
    thread: u8,
    kind: CbKind,
    /// The n-th callback of that kind this thread runs in the round.
    nth: u16,
}

#[derive(Clone, Debug, Serialize, Deserialize)]
struct Round {
    kind: Kind,
    /// 0 = random short scripts; 1-6 = the core races (see `gen_core`).
    shape: u8,
    nthreads: u8,
    phases: Vec<Phase>,
    /// Non-zero: waker callbacks yield 0-2 times (PRNG seeded with this and the thread index).
    cb_seed: u64,
    hold: Option<Hold>,
}

#[derive(Clone, Debug, Serialize, Deserialize)]
pub struct StormScenario {
    rounds: Vec<Round>,
}

// ------------------------------------------------------------------------------------------------
// Generation
// ------------------------------------------------------------------------------------------------

fn small_yields(rng: &mut Rng) -> u8 {
    rng.below(3) as u8
}

fn st(rng: &mut Rng, op: Op) -> Step {
    Step { op, yields: small_yields(rng) }
}

fn phase(rng: &mut Rng, n: usize, race: bool, scripts: &[(usize, &[Op])]) -> Phase {
    let mut out: Vec<Vec<Step>> = vec![Vec::new(); n];
    for (t, ops) in scripts {
        for op in *ops {
            let s = st(rng, *op);
            out[*t].push(s);
        }
    }
    Phase { scripts: out, race }
}

const SHAPE_NAMES: [&str; 7] = [
    "random",
    "1:manual-cancel-last-vs-register",
    "2:auto-cancel-last-vs-register",
    "3:auto-cancel-vs-set",
    "4:auto-set-vs-try_wait",
    "5:manual-set-vs-reset+register",
    "6:first-poll-vs-set",
];

fn gen_core(rng: &mut Rng) -> Round {
    use Op::{Drop as D, Poll as P, Reset as R, Set as S, TryWait as T};
    let shape = 1 + rng.weighted(&[5, 4, 2, 2, 2, 2]) as u8;
    let manual = match shape {
        1 | 5 => true,
        2 | 3 | 4 => false,
        _ => rng.bool(),
    };
    let embedded = rng.bool();
    let kind = match (manual, embedded) {
        (true, false) => Kind::ManualBoxed,
        (true, true) => Kind::ManualEmbedded,
        (false, false) => Kind::AutoBoxed,
        (false, true) => Kind::AutoEmbedded,
    };
    let n = if rng.chance(1, 4) { 3 } else { 2 };
    // Which thread plays A / B (the third one, if any, does follow-up operations).
    let (a, b) = if rng.bool() { (0, 1) } else { (1, 0) };
    let other = if n == 3 { 2 } else { a };
    let late = *rng.pick(&[a, b, other]);
    let mut phases = Vec::new();
    let mut hold = None;
    match shape {
        1 | 2 => {
            // A cancels the last registered waiter while B registers a new one; then a set.
            phases.push(phase(rng, n, false, &[(a, &[P(0)])]));
            phases.push(phase(rng, n, true, &[(a, &[D(0)]), (b, &[P(0)])]));
            phases.push(phase(rng, n, false, &[(late, &[S])]));
            if rng.chance(2, 3) {
                // B enters its poll first and waits inside the clone callback (before the poll's
                // first atomic step) until A has started the cancellation.
                hold = Some(Hold { thread: b as u8, kind: CbKind::Clone, nth: 0 });
                phases[1].scripts[a][0].yields = rng.range(1, 2) as u8;
                phases[1].scripts[b][0].yields = 0;
            }
        }
        3 => {
            // A cancels W0 while B's set notifies it: forward / restore vs fast path.
            let second = rng.chance(1, 3);
            if second {
                phases.push(phase(rng, n, false, &[(a, &[P(0)]), (b, &[P(0)])]));
            } else {
                phases.push(phase(rng, n, false, &[(a, &[P(0)])]));
            }
            if rng.chance(1, 3) {
                phases.push(phase(rng, n, true, &[(a, &[D(0)]), (b, &[S, T])]));
            } else {
                phases.push(phase(rng, n, true, &[(a, &[D(0)]), (b, &[S])]));
            }
            phases.push(phase(rng, n, false, &[(late, &[T])]));
        }
        4 => {
            // A's set finds W0 registered; B's try_wait at the same moment: one consumer.
            let owner = *rng.pick(&[a, b, other]);
            phases.push(phase(rng, n, false, &[(owner, &[P(0)])]));
            match rng.below(3) {
                0 => phases.push(phase(rng, n, true, &[(a, &[S]), (b, &[T])])),
                1 => phases.push(phase(rng, n, true, &[(a, &[S]), (b, &[T, T])])),
                _ => phases.push(phase(rng, n, true, &[(a, &[S, S]), (b, &[T])])),
            }
            if rng.bool() {
                phases.push(phase(rng, n, false, &[(owner, &[P(0)])]));
            }
        }
        5 => {
            // A sets, B resets and registers, A sets again: the second set must release W1.
            if rng.bool() {
                let owner = *rng.pick(&[a, b]);
                phases.push(phase(rng, n, false, &[(owner, &[P(1)])]));
            }
            phases.push(phase(rng, n, true, &[(a, &[S]), (b, &[R, P(0)])]));
            let second = if rng.chance(2, 3) { a } else { late };
            phases.push(phase(rng, n, false, &[(second, &[S])]));
            if rng.bool() {
                hold = Some(Hold { thread: b as u8, kind: CbKind::Clone, nth: 0 });
            }
        }
        _ => {
            // First poll vs set: fetch_or(HAS_WAITERS) / re-check against the fast path.
            phases.push(phase(rng, n, true, &[(a, &[P(0)]), (b, &[S])]));
            match rng.below(3) {
                0 => {}
                1 => phases.push(phase(rng, n, false, &[(late, &[T])])),
                _ => phases.push(phase(rng, n, false, &[(a, &[P(0)])])),
            }
            if rng.bool() {
                hold = Some(Hold { thread: a as u8, kind: CbKind::Clone, nth: 0 });
            }
        }
    }
    let cb_seed = if rng.chance(1, 4) { rng.below(u64::MAX - 1) + 1 } else { 0 };
    Round { kind, shape, nthreads: n as u8, phases, cb_seed, hold }
}

fn gen_random(rng: &mut Rng) -> Round {
    let kind = *rng.pick(crate::MT_KINDS);
    let manual = kind.manual();
    let n = if rng.chance(1, 4) { 3 } else { 2 };
    let mut phases = Vec::new();
    if rng.chance(1, 3) {
        let t = rng.below(n as u64) as usize;
        let k = rng.below(2) as u8;
        phases.push(phase(rng, n, false, &[(t, &[Op::Poll(k)])]));
    }
    let mut scripts: Vec<Vec<Step>> = Vec::new();
    for _ in 0..n {
        let len = rng.range_usize(1, 3);
        scripts.push((0..len).map(|_| Step { op: gen_op(rng, manual, SLOTS), yields: rng.below(4) as u8 }).collect());
    }
    phases.push(Phase { scripts, race: true });
    let cb_seed = if rng.chance(1, 4) { rng.below(u64::MAX - 1) + 1 } else { 0 };
    Round { kind, shape: 0, nthreads: n as u8, phases, cb_seed, hold: None }
}

// ------------------------------------------------------------------------------------------------
// Persistent threads
// ------------------------------------------------------------------------------------------------

type Job = Box<dyn FnOnce() + Send>;

struct Pool {
    txs: Vec<mpsc::Sender<Job>>,
    joins: Vec<std::thread::JoinHandle<()>>,
}

impl Pool {
    fn new(n: usize) -> Self {
        let mut txs = Vec::new();
        let mut joins = Vec::new();
        for _ in 0..n {
            let (tx, rx) = mpsc::channel::<Job>();
            txs.push(tx);
            joins.push(std::thread::spawn(move || {
                while let Ok(job) = rx.recv() {
                    job();
                }
            }));
        }
        Self { txs, joins }
    }
}

impl Drop for Pool {
    fn drop(&mut self) {
        self.txs.clear();
        for j in self.joins.drain(..) {
            let _ = j.join();
        }
    }
}

struct RoundShared {
    stamp: AtomicU64,
    /// Rendezvous counter: every thread adds one per phase and waits (bounded) for all of them.
    meet: AtomicU32,
    /// `started[t]` = 1 + index of the latest race phase whose racing operation thread t is about
    /// to invoke.
    started: [AtomicU32; 3],
}

/// Relaxed, bounded n-party rendezvous: lines the threads up without adding a happens-before edge.
fn meet(c: &AtomicU32, target: u32) {
    c.fetch_add(1, Ordering::Relaxed);
    let mut spins = 0_u32;
    // Read with a Relaxed RMW: it returns the latest value in modification order (a plain Relaxed
    // load may be stale under Miri, and every extra yield lets the peer run ahead), and still
    // synchronises with nothing.
    while c.fetch_or(0, Ordering::Relaxed) < target && spins < 100_000 {
        std::thread::yield_now();
        spins += 1;
    }
}

struct HookData<'a> {
    rng: RefCell<Rng>,
    yield_cb: bool,
    hold: Option<Hold>,
    calls: [Cell<u16>; 3],
    me: usize,
    n: usize,
    phase: Cell<u32>,
    shared: &'a RoundShared,
    held: Cell<bool>,
}

unsafe fn storm_hook(data: *const (), kind: CbKind, _cell: &WakerCell) {
    // SAFETY: `data` is the HookData on the stack of the job that installed the hook; the hook is
    // thread-local and uninstalled before that frame ends.
    let d = unsafe { &*data.cast::<HookData<'_>>() };
    let nth = d.calls[kind.idx()].get();
    d.calls[kind.idx()].set(nth.wrapping_add(1));
    if d.yield_cb {
        let n = d.rng.borrow_mut().below(3) as u8;
        yields(n);
    }
    if let Some(h) = d.hold {
        if h.kind == kind && h.nth == nth {
            // Hold this thread here until a peer has started its racing operation of this phase.
            let want = d.phase.get() + 1;
            let started = || (0..d.n).any(|t| t != d.me && d.shared.started[t].fetch_or(0, Ordering::Relaxed) >= want);
            let mut spins = 0_u32;
            while !started() && spins < 400 {
                std::thread::yield_now();
                spins += 1;
            }
            if started() {
                d.held.set(true);
            }
        }
    }
}

struct WorkerOut<F> {
    recs: Vec<Rec>,
    slots: Vec<Slot<F>>,
    /// (phase, index into `recs`) of this thread's racing operations.
    raced: Vec<(usize, usize)>,
    held: bool,
}

fn worker<E: Ev>(ev: E, t: usize, round: &Round, shared: &RoundShared) -> WorkerOut<E::Fut> {
    let n = usize::from(round.nthreads);
    let mut recs = Vec::new();
    let mut raced = Vec::new();
    let mut slots = new_slots::<E::Fut>(usize::from(SLOTS));
    let data = HookData {
        rng: RefCell::new(Rng::new(round.cb_seed ^ (t as u64 + 1).wrapping_mul(0x9E37_79B9_7F4A_7C15))),
        yield_cb: round.cb_seed != 0,
        hold: round.hold.filter(|h| usize::from(h.thread) == t),
        calls: [Cell::new(0), Cell::new(0), Cell::new(0)],
        me: t,
        n,
        phase: Cell::new(0),
        shared,
        held: Cell::new(false),
    };
    let _guard = HookGuard::install(Some(Hook { data: (&raw const data).cast::<()>(), f: storm_hook }));
    for (pi, ph) in round.phases.iter().enumerate() {
        data.phase.set(pi as u32);
        // Start gate of the round / join of the previous phase / rendezvous right before the race.
        meet(&shared.meet, (n * (pi + 1)) as u32);
        let Some(script) = ph.scripts.get(t) else { continue };
        for (i, step) in script.iter().enumerate() {
            yields(step.yields);
            if ph.race && i == 0 {
                shared.started[t].store(pi as u32 + 1, Ordering::Relaxed);
            }
            let before = recs.len();
            exec_op(&ev, &mut slots, t as u8 * SLOTS, t, step.op, &shared.stamp, &mut recs);
            if ph.race && i == 0 && recs.len() > before {
                raced.push((pi, before));
            }
        }
    }
    drop(ev);
    WorkerOut { recs, slots, raced, held: data.held.get() }
}

struct RoundOut {
    recs: Vec<Rec>,
    overlapped: bool,
    held: bool,
}

fn run_round<E>(pool: &Pool, round: &Arc<Round>, ev: &E) -> RoundOut
where
    E: Ev + Send + 'static,
    E::Fut: Send + 'static,
{
    let n = usize::from(round.nthreads);
    let shared = Arc::new(RoundShared {
        stamp: AtomicU64::new(1),
        meet: AtomicU32::new(0),
        started: [AtomicU32::new(0), AtomicU32::new(0), AtomicU32::new(0)],
    });
    let mut dones = Vec::new();
    for t in 0..n {
        let (tx, rx) = mpsc::channel::<std::thread::Result<WorkerOut<E::Fut>>>();
        let ev = ev.clone();
        let round = Arc::clone(round);
        let shared = Arc::clone(&shared);
        let job: Job = Box::new(move || {
            let r = std::panic::catch_unwind(std::panic::AssertUnwindSafe(|| worker(ev, t, &round, &shared)));
            let _ = tx.send(r);
        });
        pool.txs[t].send(job).expect("persistent thread is alive");
        dones.push(rx);
    }
    // The round's quiescent point: every thread has handed its records and futures back.
    let mut outs = Vec::new();
    let mut panic = None;
    for rx in dones {
        match rx.recv() {
            Ok(Ok(o)) => outs.push(o),
            Ok(Err(p)) => panic = Some(p),
            Err(_) => panic!("a persistent thread vanished without a result"),
        }
    }
    if let Some(p) = panic {
        // A library panic continues on the calling thread (simkit reports it as `panic: ...`).
        drop(outs);
        std::panic::resume_unwind(p);
    }
    let mut recs = Vec::new();
    let mut all_slots = Vec::new();
    let mut raced: Vec<(usize, usize, u64, u64)> = Vec::new();
    let mut held = false;
    for (t, o) in outs.into_iter().enumerate() {
        for (pi, idx) in &o.raced {
            raced.push((*pi, t, o.recs[*idx].inv, o.recs[*idx].ret));
        }
        held |= o.held;
        recs.extend(o.recs);
        all_slots.push(o.slots);
    }
    let mut overlapped = false;
    for a in &raced {
        for b in &raced {
            if a.0 == b.0 && a.1 < b.1 && a.2 < b.3 && b.2 < a.3 {
                overlapped = true;
            }
        }
    }
    let mut views: Vec<&mut [Slot<E::Fut>]> = all_slots.iter_mut().map(Vec::as_mut_slice).collect();
    drain(ev, &mut views, SLOTS, n, &shared.stamp, &mut recs);
    RoundOut { recs, overlapped, held }
}

fn run_kind(pool: &Pool, round: &Arc<Round>) -> RoundOut {
    match round.kind {
        Kind::AutoBoxed => run_round(pool, round, &events::AutoResetEvent::boxed()),
        Kind::AutoEmbedded => {
            let place = Box::pin(events::EmbeddedAutoResetEvent::new());
            // SAFETY: the container outlives the handle, its copies and every wait future: the
            // threads have handed everything back and all futures are dropped inside run_round.
            let ev = unsafe { events::AutoResetEvent::embedded(place.as_ref()) };
            let r = run_round(pool, round, &ev);
            drop(place);
            r
        }
        Kind::ManualBoxed => run_round(pool, round, &events::ManualResetEvent::boxed()),
        Kind::ManualEmbedded => {
            let place = Box::pin(events::EmbeddedManualResetEvent::new());
            // SAFETY: as above.
            let ev = unsafe { events::ManualResetEvent::embedded(place.as_ref()) };
            let r = run_round(pool, round, &ev);
            drop(place);
            r
        }
        _ => unreachable!("checked by run()"),
    }
}

fn well_formed(r: &Round) -> bool {
    !r.kind.local()
        && (2..=3).contains(&r.nthreads)
        && r.shape <= 6
        && r.phases.len() <= 6
        && r.phases.iter().all(|p| {
            p.scripts.len() <= usize::from(r.nthreads)
                && p.scripts.iter().all(|s| s.len() <= 4 && s.iter().all(|x| x.op != Op::Reset || r.kind.manual()))
        })
}

impl Scenario for StormScenario {
    fn generate(rng: &mut Rng, _mode: &str) -> Self {
        let n = rng.range_usize(10, 30);
        let rounds = (0..n).map(|_| if rng.chance(3, 5) { gen_core(rng) } else { gen_random(rng) }).collect();
        Self { rounds }
    }

    fn run(&self, ctx: &mut Ctx) -> Result<bool, Violation> {
        if !self.rounds.iter().all(well_formed) {
            return Err(Violation::new("harness-bad-scenario", "storm round out of bounds"));
        }
        if self.rounds.is_empty() {
            return Ok(false);
        }
        let threads = self.rounds.iter().map(|r| usize::from(r.nthreads)).max().unwrap_or(2);
        let pool = Pool::new(threads);
        let mut nontrivial = false;
        for (i, round) in self.rounds.iter().enumerate() {
            let name = SHAPE_NAMES[usize::from(round.shape)];
            ctx.event(0x5700 | u64::from(round.shape), || format!("round {i}: shape {name}, {:?}, {} threads", round.kind, round.nthreads));
            let out = run_kind(&pool, &Arc::new(round.clone()));
            ctx.probe(&format!("storm:shape-{name}:executed"));
            if out.overlapped {
                ctx.probe(&format!("storm:shape-{name}:overlapped"));
                nontrivial = true;
            }
            if out.held {
                ctx.probe("storm:held-in-callback-until-peer-started");
            }
            ctx.probe("storm-rounds");
            // The round is judged like an `mt` history: everything the threads executed is searched,
            // the drain is the fixed tail.
            let sc = EvScenario {
                kind: round.kind,
                concurrent: true,
                slots: SLOTS,
                threads: vec![Vec::new(); usize::from(round.nthreads)],
                start_yields: Vec::new(),
                order: Vec::new(),
                reent: false,
                cb: Vec::new(),
                cb_seed: round.cb_seed,
                drop_under_lock: false,
            };
            if let Err(v) = judge(&sc, &out.recs, &[], ctx) {
                return Err(Violation::new(&v.class, format!("round {i} of {} (shape {name}): {}", self.rounds.len(), v.detail)));
            }
        }
        drop(pool);
        Ok(nontrivial)
    }

    fn shrink(&self) -> Vec<Self> {
        let mut out: Vec<Self> = simkit::shrink::remove_chunks(&self.rounds).into_iter().map(|rounds| Self { rounds }).collect();
        for (i, r) in self.rounds.iter().enumerate() {
            if r.hold.is_some() {
                let mut s = self.clone();
                s.rounds[i].hold = None;
                out.push(s);
            }
            if r.cb_seed != 0 {
                let mut s = self.clone();
                s.rounds[i].cb_seed = 0;
                out.push(s);
            }
            for (p, ph) in r.phases.iter().enumerate() {
                for (t, sc) in ph.scripts.iter().enumerate() {
                    for (k, step) in sc.iter().enumerate() {
                        if step.yields > 0 {
                            let mut s = self.clone();
                            s.rounds[i].phases[p].scripts[t][k].yields -= 1;
                            out.push(s);
                        }
                    }
                }
            }
        }
        out
    }

    fn size(&self) -> usize {
        self.rounds
            .iter()
            .map(|r| {
                let ops: usize = r.phases.iter().flat_map(|p| p.scripts.iter()).map(Vec::len).sum();
                let y: usize = r.phases.iter().flat_map(|p| p.scripts.iter()).flatten().map(|s| usize::from(s.yields)).sum();
                16 + 8 * ops + y + usize::from(r.hold.is_some()) * 2 + usize::from(r.cb_seed != 0)
            })
            .sum()
    }
}
