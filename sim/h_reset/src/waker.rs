//! Simulator-owned counting wakers. Every poll gets its own cell, so "the latest waker of a
//! waiter was invoked" is a statement about one cell.
//!
//! The vtable functions are *user code* from the library's point of view, and they are a scheduling
//! seam: every `clone` / `wake` / `wake_by_ref` / `drop` calls the hook installed for the calling
//! thread (if any). `reent` / `local-reent` install a hook that performs whole event operations
//! re-entrantly; `mt` installs one that yields a few times to widen the window the callback sits in.
//!
//! The cell is kept alive by the harness (every `Rec` of a poll owns its `Arc<WakerCell>` until the
//! verdict), not by the wakers: the vtable only counts. A library that released a waker twice is
//! therefore reported by the accounting oracle (`waker-over-released`) instead of corrupting the
//! harness's heap.

use std::cell::Cell;
use std::sync::Arc;
use std::sync::atomic::{AtomicBool, AtomicI32, AtomicU32, Ordering};
use std::task::{RawWaker, RawWakerVTable, Waker};

#[derive(Clone, Copy, Debug, PartialEq, Eq, serde::Serialize, serde::Deserialize)]
pub enum CbKind {
    /// `wake` and `wake_by_ref`.
    Wake,
    Clone,
    Drop,
}

impl CbKind {
    pub fn idx(self) -> usize {
        match self {
            CbKind::Wake => 0,
            CbKind::Clone => 1,
            CbKind::Drop => 2,
        }
    }
    pub fn name(self) -> &'static str {
        match self {
            CbKind::Wake => "wake",
            CbKind::Clone => "clone",
            CbKind::Drop => "drop",
        }
    }
}

#[derive(Default)]
pub struct WakerCell {
    pub clones: AtomicU32,
    pub drops: AtomicU32,
    pub wakes: AtomicU32,
    /// Wakers alive over this cell: +1 `new_waker` / clone, -1 wake (by value) / drop.
    pub live: AtomicI32,
    /// Set when `live` went negative: some waker was released twice.
    pub over: AtomicBool,
    /// The poll this cell was made for is executing (set and cleared by the harness).
    pub in_poll: AtomicBool,
}

impl WakerCell {
    /// Wakers over this cell that have been created and not yet released.
    pub fn alive(&self) -> i32 {
        self.live.load(Ordering::Relaxed)
    }
    pub fn over_released(&self) -> bool {
        self.over.load(Ordering::Relaxed)
    }
}

/// Per-thread callback hook. `f(data, kind, cell)` is called from inside the vtable function.
#[derive(Clone, Copy)]
pub struct Hook {
    pub data: *const (),
    pub f: unsafe fn(*const (), CbKind, &WakerCell),
}

thread_local! {
    static HOOK: Cell<Option<Hook>> = const { Cell::new(None) };
}

/// Installs `h` for the calling thread; returns the previous hook.
pub fn set_hook(h: Option<Hook>) -> Option<Hook> {
    HOOK.with(|c| c.replace(h))
}

/// Restores the previous hook when dropped (also on unwind: a library panic escaping a run must not
/// leave a dangling hook behind).
pub struct HookGuard(Option<Hook>);

impl HookGuard {
    pub fn install(h: Option<Hook>) -> Self {
        HookGuard(set_hook(h))
    }
}

impl Drop for HookGuard {
    fn drop(&mut self) {
        set_hook(self.0);
    }
}

fn fire(kind: CbKind, c: &WakerCell) {
    if let Some(h) = HOOK.with(Cell::get) {
        // SAFETY: whoever installed the hook keeps `data` valid until it uninstalls it.
        unsafe { (h.f)(h.data, kind, c) };
    }
}

fn release(c: &WakerCell) {
    if c.live.fetch_sub(1, Ordering::Relaxed) <= 0 {
        c.over.store(true, Ordering::Relaxed);
    }
}

static VTABLE: RawWakerVTable = RawWakerVTable::new(w_clone, w_wake, w_wake_by_ref, w_drop);

unsafe fn w_clone(p: *const ()) -> RawWaker {
    // SAFETY: p is Arc::as_ptr of a cell the harness keeps alive until the verdict.
    let c = unsafe { &*p.cast::<WakerCell>() };
    c.clones.fetch_add(1, Ordering::Relaxed);
    c.live.fetch_add(1, Ordering::Relaxed);
    fire(CbKind::Clone, c);
    RawWaker::new(p, &VTABLE)
}

unsafe fn w_wake(p: *const ()) {
    // SAFETY: as above.
    let c = unsafe { &*p.cast::<WakerCell>() };
    c.wakes.fetch_add(1, Ordering::Relaxed);
    fire(CbKind::Wake, c);
    release(c);
}

unsafe fn w_wake_by_ref(p: *const ()) {
    // SAFETY: as above.
    let c = unsafe { &*p.cast::<WakerCell>() };
    c.wakes.fetch_add(1, Ordering::Relaxed);
    fire(CbKind::Wake, c);
}

unsafe fn w_drop(p: *const ()) {
    // SAFETY: as above.
    let c = unsafe { &*p.cast::<WakerCell>() };
    c.drops.fetch_add(1, Ordering::Relaxed);
    fire(CbKind::Drop, c);
    release(c);
}

pub fn new_waker(c: &Arc<WakerCell>) -> Waker {
    c.live.fetch_add(1, Ordering::Relaxed);
    let p = Arc::as_ptr(c).cast::<()>();
    // SAFETY: the vtable functions uphold the RawWaker contract; the cell outlives every waker made
    // over it that is ever used (all futures are dropped before the records that own the cells).
    unsafe { Waker::from_raw(RawWaker::new(p, &VTABLE)) }
}

/// Drops the harness's own waker without running the callback hook (the hook stands for what the
/// *library* makes user code do).
pub fn drop_own(w: Waker) {
    let prev = set_hook(None);
    drop(w);
    set_hook(prev);
}
