//! Simulator-owned counting wakers. Every poll gets its own cell, so "the latest waker of a
//! waiter was invoked" is a statement about one cell.

use std::sync::Arc;
use std::sync::atomic::{AtomicU32, Ordering};
use std::task::{RawWaker, RawWakerVTable, Waker};

#[derive(Default)]
pub struct WakerCell {
    pub clones: AtomicU32,
    pub drops: AtomicU32,
    pub wakes: AtomicU32,
}

static VTABLE: RawWakerVTable = RawWakerVTable::new(w_clone, w_wake, w_wake_by_ref, w_drop);

unsafe fn w_clone(p: *const ()) -> RawWaker {
    // SAFETY: p came from Arc::into_raw of an Arc<WakerCell> that is still alive.
    let c = unsafe { &*p.cast::<WakerCell>() };
    c.clones.fetch_add(1, Ordering::Relaxed);
    // SAFETY: as above; the count is incremented for the new RawWaker.
    unsafe { Arc::increment_strong_count(p.cast::<WakerCell>()) };
    RawWaker::new(p, &VTABLE)
}

unsafe fn w_wake(p: *const ()) {
    // SAFETY: p came from Arc::into_raw; this consumes one reference.
    let c = unsafe { Arc::from_raw(p.cast::<WakerCell>()) };
    c.wakes.fetch_add(1, Ordering::Relaxed);
}

unsafe fn w_wake_by_ref(p: *const ()) {
    // SAFETY: p came from Arc::into_raw and is alive.
    let c = unsafe { &*p.cast::<WakerCell>() };
    c.wakes.fetch_add(1, Ordering::Relaxed);
}

unsafe fn w_drop(p: *const ()) {
    // SAFETY: p came from Arc::into_raw; this consumes one reference.
    let c = unsafe { Arc::from_raw(p.cast::<WakerCell>()) };
    c.drops.fetch_add(1, Ordering::Relaxed);
}

pub fn new_waker(c: &Arc<WakerCell>) -> Waker {
    let p = Arc::into_raw(Arc::clone(c)).cast::<()>();
    // SAFETY: the vtable functions uphold the RawWaker contract over an Arc<WakerCell>.
    unsafe { Waker::from_raw(RawWaker::new(p, &VTABLE)) }
}
