//! C08 — reset events (`events`) are linearizable; the awaiter list (`awaiter_set`) keeps its
//! contract on every operation history.
//!
//! Modes
//! * `mt`    — 2–3 real threads run scripts over one thread-safe `AutoResetEvent` /
//!             `ManualResetEvent` (boxed or embedded) concurrently behind a start gate. Meant for
//!             Miri (seeded scheduler, weak memory, data-race / UB / leak / deadlock oracle). The
//!             stamped invoke/response history (plus an appended single-threaded drain phase) must
//!             be linearizable w.r.t. the sequential specification in `spec`.
//! * `seq`   — the same kind of scripts, executed on one thread in a total order fixed by the
//!             scenario (op-granular interleaving, native bulk). The real results must be allowed
//!             by the specification along that order.
//! * `local` — `LocalAutoResetEvent` / `LocalManualResetEvent` (boxed, embedded): single-threaded
//!             operation histories against the same specification.
//! * `reent` / `local-reent` — one thread; the simulator-owned waker's `wake` / `clone` / `drop`
//!             callbacks perform whole operations on the same event (callback plan drawn by the
//!             scenario, depth <= 2): see `reent`. Nested operations are concurrent with the
//!             operation they run inside; the history is checked with the extended checker.
//!             In `mt` the same seam only yields (0-4 times per callback).
//! * `storm` — 10-30 tiny `mt`-like rounds per scenario on 2-3 persistent threads, each over a fresh
//!             event, lined up by a Relaxed rendezvous right before the racing operations and judged
//!             on its own (windows without user code need many aligned attempts): see `storm`.
//! * `known-reent-waker-drop-under-lock` — reproduces the known finding of that name.
//! * `aset`  — `awaiter_set::AwaiterSet` operation histories against a list model (native bulk and
//!             a Miri sample for the intrusive pointers).
//!
//! Stamps come from one global counter incremented with `Relaxed` ordering: they order harness
//! events without adding a happens-before edge that could mask a missing one in the library.

mod aset;
mod lin;
mod reent;
mod spec;
mod storm;
mod waker;

use std::future::Future;
use std::pin::Pin;
use std::sync::Arc;
use std::sync::atomic::{AtomicU64, Ordering};
use std::task::{Context, Poll};

use events::futures as evf;
use serde::{Deserialize, Serialize};
use simkit::lin::{HistOp, check_linearizable};
use simkit::{Ctx, Rng, Scenario, Violation, check, entry};

use crate::lin::{LOp, lin_ext};
use crate::spec::{MAXW, Res, S, SOp, step};
use crate::reent::{CbEntry, Note, NoteKind, run_reent};
use crate::waker::{CbKind, Hook, HookGuard, WakerCell, drop_own, new_waker};

/// Keys of known findings (DESIGN §6 / known_findings.json) whose trigger the ordinary modes must
/// not generate.
///
/// * `reent-waker-drop-under-lock` — `AwaiterSet::register` (waker replaced on re-poll) and
///   `AwaiterSet::unregister` (cancelled wait) drop the *stored* waker while the event still holds
///   its mutex (thread-safe events) / its `&mut AwaiterSet` out of the `UnsafeCell` (local events).
///   A waker whose `Drop` calls back into the event self-deadlocks on the mutex, or re-enters the
///   list code with an aliasing `&mut` and an awaiter that is half-way through the transition
///   (local events: the waker being dropped is handed out a second time -> double release). While
///   the key is listed the re-entrant modes do not run the actions planned for drop callbacks of
///   stored wakers (drop callbacks of the clone a Ready poll releases still run them); mode
///   `known-reent-waker-drop-under-lock` reproduces the defect on the local events.
// Fixed in /repo (2d71068): drop callbacks of stored wakers run their nested operations in the ordinary
// re-entrant modes; the directed mode stays as a regression job.
const AVOID_KNOWN: &[&str] = &[];
const KEY_DROP_UNDER_LOCK: &str = "reent-waker-drop-under-lock";

// ------------------------------------------------------------------------------------------------
// Events under test
// ------------------------------------------------------------------------------------------------

trait Ev: Clone {
    type Fut: Future<Output = ()>;
    fn set(&self);
    fn reset(&self);
    fn try_wait(&self) -> bool;
    fn wait(&self) -> Self::Fut;
}

macro_rules! ev_auto {
    ($ty:ty, $fut:ty) => {
        impl Ev for $ty {
            type Fut = $fut;
            fn set(&self) {
                <$ty>::set(self);
            }
            fn reset(&self) {
                unreachable!("auto-reset events have no reset()");
            }
            fn try_wait(&self) -> bool {
                <$ty>::try_wait(self)
            }
            fn wait(&self) -> $fut {
                <$ty>::wait(self)
            }
        }
    };
}
macro_rules! ev_manual {
    ($ty:ty, $fut:ty) => {
        impl Ev for $ty {
            type Fut = $fut;
            fn set(&self) {
                <$ty>::set(self);
            }
            fn reset(&self) {
                <$ty>::reset(self);
            }
            fn try_wait(&self) -> bool {
                <$ty>::try_wait(self)
            }
            fn wait(&self) -> $fut {
                <$ty>::wait(self)
            }
        }
    };
}
ev_auto!(events::AutoResetEvent, evf::AutoResetWaitFuture);
ev_auto!(events::EmbeddedAutoResetEventRef, evf::EmbeddedAutoResetWaitFuture);
ev_auto!(events::LocalAutoResetEvent, evf::LocalAutoResetWaitFuture);
ev_auto!(events::EmbeddedLocalAutoResetEventRef, evf::EmbeddedLocalAutoResetWaitFuture);
ev_manual!(events::ManualResetEvent, evf::ManualResetWaitFuture);
ev_manual!(events::EmbeddedManualResetEventRef, evf::EmbeddedManualResetWaitFuture);
ev_manual!(events::LocalManualResetEvent, evf::LocalManualResetWaitFuture);
ev_manual!(events::EmbeddedLocalManualResetEventRef, evf::EmbeddedLocalManualResetWaitFuture);

// ------------------------------------------------------------------------------------------------
// Scenario
// ------------------------------------------------------------------------------------------------

#[derive(Clone, Copy, Debug, Serialize, Deserialize, PartialEq, Eq)]
enum Kind {
    AutoBoxed,
    AutoEmbedded,
    ManualBoxed,
    ManualEmbedded,
    LocalAutoBoxed,
    LocalAutoEmbedded,
    LocalManualBoxed,
    LocalManualEmbedded,
}

impl Kind {
    fn manual(self) -> bool {
        matches!(
            self,
            Kind::ManualBoxed | Kind::ManualEmbedded | Kind::LocalManualBoxed | Kind::LocalManualEmbedded
        )
    }
    fn local(self) -> bool {
        matches!(
            self,
            Kind::LocalAutoBoxed | Kind::LocalAutoEmbedded | Kind::LocalManualBoxed | Kind::LocalManualEmbedded
        )
    }
    fn embedded(self) -> bool {
        matches!(
            self,
            Kind::AutoEmbedded | Kind::ManualEmbedded | Kind::LocalAutoEmbedded | Kind::LocalManualEmbedded
        )
    }
    fn code(self) -> u64 {
        self as u64
    }
}

#[derive(Clone, Copy, Debug, Serialize, Deserialize, PartialEq, Eq)]
enum Op {
    Set,
    Reset,
    TryWait,
    /// Poll the wait future in slot k of the executing thread (creating it if the slot is empty).
    /// Every poll uses a fresh waker, so a poll of a pending future is "re-poll with a new waker".
    Poll(u8),
    /// Drop the wait future in slot k (cancel if pending).
    Drop(u8),
}

#[derive(Clone, Copy, Debug, Serialize, Deserialize, PartialEq, Eq)]
struct Step {
    op: Op,
    /// `yield_now` calls before the operation (mt only): staggers so that operations overlap.
    yields: u8,
}

#[derive(Clone, Debug, Serialize, Deserialize)]
struct EvScenario {
    kind: Kind,
    /// Real concurrent threads (`mt`) or one thread executing `order` (`seq`, `local`).
    concurrent: bool,
    slots: u8,
    threads: Vec<Vec<Step>>,
    start_yields: Vec<u8>,
    /// seq: which simulated thread executes its next operation, in order. Entries naming an
    /// exhausted thread are skipped; operations left over at the end run in thread order.
    order: Vec<u8>,
    /// `reent` / `local-reent`: one thread, waker callbacks perform nested operations (`cb`).
    #[serde(default)]
    reent: bool,
    /// Callback plan (re-entrant modes).
    #[serde(default)]
    cb: Vec<CbEntry>,
    /// `mt`: non-zero = waker callbacks yield 0-4 times, drawn from a PRNG seeded with this and the
    /// thread index (no nested operations there).
    #[serde(default)]
    cb_seed: u64,
    /// Run the actions planned for drop callbacks of stored wakers too (`known-*` mode only).
    #[serde(default)]
    drop_under_lock: bool,
}

fn gen_op(rng: &mut Rng, manual: bool, slots: u8) -> Op {
    let w: &[u32] = if manual { &[4, 2, 1, 6, 2] } else { &[4, 0, 2, 6, 2] };
    match rng.weighted(w) {
        0 => Op::Set,
        1 => Op::Reset,
        2 => Op::TryWait,
        3 => Op::Poll(rng.below(u64::from(slots)) as u8),
        _ => Op::Drop(rng.below(u64::from(slots)) as u8),
    }
}

fn gen_yields(rng: &mut Rng) -> u8 {
    match rng.weighted(&[5, 3, 1]) {
        0 => 0,
        1 => rng.range(1, 3) as u8,
        _ => rng.range(4, 10) as u8,
    }
}

fn gen_events(rng: &mut Rng, kinds: &[Kind], concurrent: bool, max_ops: usize) -> EvScenario {
    let kind = *rng.pick(kinds);
    let manual = kind.manual();
    let (nthreads, slots) = if kind.local() {
        (1, 4_u8)
    } else {
        (if rng.chance(2, 3) { 2 } else { 3 }, 2_u8)
    };
    let mut threads: Vec<Vec<Step>> = vec![Vec::new(); nthreads];
    // Half of the multi-thread scenarios start from a directed shape that aims two operations at
    // the windows the property names; a random suffix follows.
    if !kind.local() && rng.bool() {
        let shape = rng.below(if manual { 5 } else { 6 });
        let (a, b): (Vec<Op>, Vec<Op>) = match (manual, shape) {
            // registration vs set: fast-path CAS against fetch_or(HAS_WAITERS) / re-check
            (_, 0) => (vec![Op::Poll(0)], vec![Op::Set]),
            // notified waiter cancelled while a second waiter exists or not
            (_, 1) => (vec![Op::Poll(0), Op::Drop(0)], vec![Op::Set]),
            // re-poll with a new waker racing the notification
            (_, 2) => (vec![Op::Poll(0), Op::Poll(0)], vec![Op::Set]),
            (false, 3) => (vec![Op::Poll(0), Op::Poll(1), Op::Drop(0)], vec![Op::Set, Op::TryWait]),
            // repeated fresh registrations against repeated fast-path sets (each try_wait makes the
            // event idle again, so the next set takes the CAS fast path while a poll is under way)
            (false, _) => (
                vec![Op::Poll(0), Op::Drop(0), Op::Poll(1), Op::Drop(1)],
                vec![Op::Set, Op::TryWait, Op::Set, Op::TryWait],
            ),
            (true, 3) => (vec![Op::Poll(0), Op::Reset, Op::Poll(0)], vec![Op::Set]),
            (true, _) => (vec![Op::Poll(0), Op::Poll(1)], vec![Op::Set, Op::Reset]),
        };
        for op in a {
            threads[0].push(Step { op, yields: gen_yields(rng) });
        }
        for op in b {
            threads[1].push(Step { op, yields: gen_yields(rng) });
        }
    }
    for t in &mut threads {
        let want = rng.range_usize(1, max_ops);
        while t.len() < want {
            t.push(Step { op: gen_op(rng, manual, slots), yields: gen_yields(rng) });
        }
        t.truncate(max_ops);
    }
    let start_yields = (0..nthreads)
        .map(|_| if rng.chance(2, 3) { rng.below(4) as u8 } else { rng.range(4, 20) as u8 })
        .collect();
    let mut order: Vec<u8> = Vec::new();
    for (t, s) in threads.iter().enumerate() {
        order.extend(std::iter::repeat_n(t as u8, s.len()));
    }
    rng.shuffle(&mut order);
    let cb_seed = if concurrent { rng.below(u64::MAX - 1) + 1 } else { 0 };
    EvScenario { kind, concurrent, slots, threads, start_yields, order, reent: false, cb: Vec::new(), cb_seed, drop_under_lock: false }
}

fn gen_nested_op(rng: &mut Rng, manual: bool, slots: u8) -> Op {
    let w: &[u32] = if manual { &[4, 4, 1, 5, 2] } else { &[4, 0, 2, 5, 2] };
    match rng.weighted(w) {
        0 => Op::Set,
        1 => Op::Reset,
        2 => Op::TryWait,
        3 => Op::Poll(rng.below(u64::from(slots)) as u8),
        _ => Op::Drop(rng.below(u64::from(slots)) as u8),
    }
}

/// Re-entrant modes: one top-level script plus a callback plan. About 40 % start from a directed
/// shape aimed at a window only a waker callback can reach; a random suffix and random plan entries
/// follow.
fn gen_reent(rng: &mut Rng, kinds: &[Kind]) -> EvScenario {
    let kind = *rng.pick(kinds);
    let manual = kind.manual();
    let slots = 4_u8;
    let mut script: Vec<Op> = Vec::new();
    let mut cb: Vec<CbEntry> = Vec::new();
    if rng.chance(2, 5) {
        use CbKind::{Clone as C, Drop as D, Wake as W};
        use Op::{Drop as Dr, Poll as P, Reset as R, Set as S, TryWait as T};
        let shape = rng.below(8);
        let (sc, plan): (Vec<Op>, Vec<(CbKind, u16, Vec<Op>)>) = match (manual, shape) {
            // waiter of the drain re-polled / a new waiter registered after a nested reset
            (true, 0) => (vec![P(0), P(1), S], vec![(W, 0, vec![R, P(1)])]),
            (true, 1) => (vec![P(0), S, S], vec![(W, 0, vec![R, P(1)])]),
            (true, 2) => (vec![P(0), P(1), S], vec![(W, 1, vec![R, P(0)])]),
            (true, 3) => (vec![P(0), P(1), S], vec![(W, 0, vec![R, S])]),
            (true, 4) => (vec![P(0), P(1), P(2), S], vec![(W, 0, vec![R, P(3), S]), (W, 1, vec![R, P(0)])]),
            (true, 5) => (vec![P(0), P(1), S, R], vec![(W, 0, vec![Dr(1), R, P(1)])]),
            (true, 6) => (vec![P(0), S, P(1)], vec![(C, 1, vec![R, P(2)]), (D, 0, vec![R])]),
            (true, _) => (vec![P(0), P(1), S, R, S], vec![(W, 0, vec![R, P(2), P(1)]), (W, 2, vec![T])]),
            // auto: nested operations between notify_one and the return of set / of a forwarding drop
            (false, 0) => (vec![P(0), P(1), S], vec![(W, 0, vec![S])]),
            (false, 1) => (vec![P(0), P(1), S, Dr(0)], vec![(W, 1, vec![S, P(2)])]),
            (false, 2) => (vec![P(0), S], vec![(W, 0, vec![Dr(0), T])]),
            (false, 3) => (vec![P(0), S, P(0)], vec![(C, 1, vec![S]), (D, 0, vec![S, T])]),
            (false, 4) => (vec![P(0), P(1), S, S], vec![(W, 0, vec![P(0), P(2)]), (W, 1, vec![Dr(2), S])]),
            (false, 5) => (vec![P(0), P(1), P(2), S, Dr(0), Dr(1)], vec![(W, 1, vec![Dr(2)]), (W, 0, vec![T, S])]),
            (false, 6) => (vec![S, P(0), P(1)], vec![(D, 0, vec![S, P(2)]), (C, 1, vec![S])]),
            (false, _) => (vec![P(0), S, S], vec![(W, 0, vec![P(1), S, P(0)])]),
        };
        script = sc;
        cb = plan.into_iter().map(|(kind, index, actions)| CbEntry { kind, index, actions }).collect();
    }
    let want = rng.range_usize(3, 8);
    while script.len() < want {
        script.push(gen_op(rng, manual, slots));
    }
    let extra = rng.range_usize(if cb.is_empty() { 1 } else { 0 }, 4);
    for _ in 0..extra {
        let kind = match rng.weighted(&[5, 3, 2]) {
            0 => CbKind::Wake,
            1 => CbKind::Clone,
            _ => CbKind::Drop,
        };
        let index = match kind {
            CbKind::Wake => rng.below(4),
            CbKind::Clone => rng.below(8),
            CbKind::Drop => rng.below(5),
        } as u16;
        if cb.iter().any(|e| e.kind == kind && e.index == index) {
            continue;
        }
        let n = rng.range_usize(1, 3);
        let actions = (0..n).map(|_| gen_nested_op(rng, manual, slots)).collect();
        cb.push(CbEntry { kind, index, actions });
    }
    let order = vec![0; script.len()];
    EvScenario {
        kind,
        concurrent: false,
        slots,
        threads: vec![script.into_iter().map(|op| Step { op, yields: 0 }).collect()],
        start_yields: vec![0],
        order,
        reent: true,
        cb,
        cb_seed: 0,
        drop_under_lock: false,
    }
}

/// Deterministic reproduction of `reent-waker-drop-under-lock` on a local event: the waker stored
/// by the first poll is dropped by the second poll (replaced inside `AwaiterSet::register`) or by
/// the cancellation (`AwaiterSet::unregister`); its drop callback calls `set()`. On the thread-safe
/// events the same scenario self-deadlocks on the event's mutex (not generated: a hang).
fn gen_known_drop_under_lock(rng: &mut Rng) -> EvScenario {
    let kind = *rng.pick(LOCAL_KINDS);
    // (The cancellation path - Poll(0), Poll(1), Drop(0) - re-enters with an aliasing `&mut` too, but
    // `unregister` has already unlinked the awaiter and taken the waker: no native symptom.)
    let script = vec![Op::Poll(0), Op::Poll(0)];
    let order = vec![0; script.len()];
    EvScenario {
        kind,
        concurrent: false,
        slots: 4,
        threads: vec![script.into_iter().map(|op| Step { op, yields: 0 }).collect()],
        start_yields: vec![0],
        order,
        reent: true,
        // Drop callback #0 is the first drop the library performs: the stored waker of slot 0.
        cb: vec![CbEntry { kind: CbKind::Drop, index: 0, actions: vec![Op::Set] }],
        cb_seed: 0,
        drop_under_lock: true,
    }
}

// ------------------------------------------------------------------------------------------------
// Execution
// ------------------------------------------------------------------------------------------------

/// One waiter slot. The future lives *in place* inside a pre-allocated slot array that is never
/// resized, so (a) it is pinned and (b) the relative address order of all waiters of a run is their
/// index order — `awaiter_set`'s debug-build `pick_one` chooses by pointer order, and nothing a
/// native run logs may depend on where the allocator happens to put things.
struct Slot<F> {
    cell: std::mem::MaybeUninit<F>,
    live: bool,
    /// The future returned `Ready`; it is kept alive (its drop may still have an effect) but is not
    /// polled again (polling a completed future is outside the `Future` contract).
    completed: bool,
}

impl<F> Slot<F> {
    fn put(&mut self, f: F) {
        assert!(!self.live);
        self.cell.write(f);
        self.live = true;
        self.completed = false;
    }
    fn pinned(&mut self) -> Pin<&mut F> {
        assert!(self.live);
        // SAFETY: initialised (live); the slot array is never resized or moved element-wise while
        // a future is live, and the future is dropped in place: the pinning contract holds.
        unsafe { Pin::new_unchecked(self.cell.assume_init_mut()) }
    }
    fn drop_future(&mut self) {
        if self.live {
            self.live = false;
            self.completed = false;
            // SAFETY: initialised (was live) and not used again.
            unsafe { self.cell.assume_init_drop() };
        }
    }
}

impl<F> Drop for Slot<F> {
    fn drop(&mut self) {
        self.drop_future();
    }
}

fn new_slots<F>(n: usize) -> Vec<Slot<F>> {
    (0..n).map(|_| Slot { cell: std::mem::MaybeUninit::uninit(), live: false, completed: false }).collect()
}

/// One executed operation of the recorded history.
struct Rec {
    thread: usize,
    inv: u64,
    ret: u64,
    /// Operation with `Poll`/`Drop` slot numbers already mapped to global waiter ids.
    op: Op,
    res: Res,
    /// The waker handed to this poll.
    cell: Option<Arc<WakerCell>>,
    /// Re-entrant modes: nesting depth (0 = top level), the callback kind it ran in, and the record
    /// index of the operation it ran inside.
    depth: u8,
    via: Option<CbKind>,
    parent: Option<usize>,
}

impl Rec {
    fn top(thread: usize, inv: u64, ret: u64, op: Op, res: Res, cell: Option<Arc<WakerCell>>) -> Self {
        Rec { thread, inv, ret, op, res, cell, depth: 0, via: None, parent: None }
    }
}

fn tick(stamp: &AtomicU64) -> u64 {
    stamp.fetch_add(1, Ordering::Relaxed)
}

fn yields(n: u8) {
    for _ in 0..n {
        std::thread::yield_now();
    }
}

/// Executes one operation on behalf of simulated thread `thread` (whose waiter slots are `slots`,
/// global ids `base..`). Operations on slots in the wrong state are skipped, not recorded.
fn exec_op<E: Ev>(
    ev: &E,
    slots: &mut [Slot<E::Fut>],
    base: u8,
    thread: usize,
    op: Op,
    stamp: &AtomicU64,
    out: &mut Vec<Rec>,
) {
    match op {
        Op::Set => {
            let inv = tick(stamp);
            ev.set();
            let ret = tick(stamp);
            out.push(Rec::top(thread, inv, ret, op, Res::Unit, None));
        }
        Op::Reset => {
            let inv = tick(stamp);
            ev.reset();
            let ret = tick(stamp);
            out.push(Rec::top(thread, inv, ret, op, Res::Unit, None));
        }
        Op::TryWait => {
            let inv = tick(stamp);
            let r = ev.try_wait();
            let ret = tick(stamp);
            out.push(Rec::top(thread, inv, ret, op, Res::Bool(r), None));
        }
        Op::Poll(k) => {
            let Some(slot) = slots.get_mut(k as usize) else { return };
            if slot.completed {
                return;
            }
            let cell = Arc::new(WakerCell::default());
            let waker = new_waker(&cell);
            let mut cx = Context::from_waker(&waker);
            let inv = tick(stamp);
            if !slot.live {
                slot.put(ev.wait());
            }
            let r = slot.pinned().poll(&mut cx);
            let ret = tick(stamp);
            drop_own(waker);
            let res = match r {
                Poll::Ready(()) => {
                    slot.completed = true;
                    Res::Ready
                }
                Poll::Pending => Res::Pending,
            };
            out.push(Rec::top(thread, inv, ret, Op::Poll(base + k), res, Some(cell)));
        }
        Op::Drop(k) => {
            let Some(slot) = slots.get_mut(k as usize) else { return };
            if !slot.live {
                return;
            }
            let inv = tick(stamp);
            slot.drop_future();
            let ret = tick(stamp);
            out.push(Rec::top(thread, inv, ret, Op::Drop(base + k), Res::Unit, None));
        }
    }
}

/// Single-threaded drain phase appended to every history: poll every live, not yet completed
/// waiter once; `try_wait`; drop every future; `try_wait` again.
fn drain<E: Ev>(ev: &E, all_slots: &mut [&mut [Slot<E::Fut>]], slots_per: u8, thread: usize, stamp: &AtomicU64, out: &mut Vec<Rec>) {
    for (t, slots) in all_slots.iter_mut().enumerate() {
        let base = t as u8 * slots_per;
        for k in 0..slots_per {
            if slots[k as usize].live && !slots[k as usize].completed {
                exec_op(ev, slots, base, thread, Op::Poll(k), stamp, out);
            }
        }
    }
    exec_op::<E>(ev, &mut [], 0, thread, Op::TryWait, stamp, out);
    for (t, slots) in all_slots.iter_mut().enumerate() {
        let base = t as u8 * slots_per;
        for k in 0..slots_per {
            exec_op(ev, slots, base, thread, Op::Drop(k), stamp, out);
        }
    }
    exec_op::<E>(ev, &mut [], 0, thread, Op::TryWait, stamp, out);
}

struct Shared {
    /// Start gate: scripts begin only once every thread of the run exists (thread creation is far
    /// longer than an event operation). A blocking barrier rather than a spin on a flag: under
    /// Miri's random preemption, spinning threads would steal most of the steps of the thread that
    /// is still spawning the others.
    gate: std::sync::Barrier,
    stamp: AtomicU64,
}

fn run_mt<E>(sc: &EvScenario, ev: &E) -> Vec<Rec>
where
    E: Ev + Send + 'static,
    E::Fut: Send + 'static,
{
    let shared = Arc::new(Shared { gate: std::sync::Barrier::new(sc.threads.len() + 1), stamp: AtomicU64::new(1) });
    let mut handles = Vec::new();
    for (t, script) in sc.threads.iter().enumerate() {
        let shared = Arc::clone(&shared);
        let script = script.clone();
        let ev = ev.clone();
        let slots_per = sc.slots;
        let start = sc.start_yields.get(t).copied().unwrap_or(0);
        let cb_seed = sc.cb_seed;
        handles.push(std::thread::spawn(move || {
            let mut recs = Vec::new();
            let mut slots = new_slots::<E::Fut>(usize::from(slots_per));
            // Light version of the callback seam: every waker callback this thread runs (clone in
            // its polls, wake of other threads' waiters in its set / forwarding drop, drop of
            // replaced / cancelled wakers - the latter inside the library's critical section)
            // yields 0-4 times.
            let yield_rng = std::cell::RefCell::new(Rng::new(cb_seed ^ (t as u64 + 1).wrapping_mul(0x9E37_79B9_7F4A_7C15)));
            let _guard = HookGuard::install(
                (cb_seed != 0).then(|| Hook { data: (&raw const yield_rng).cast::<()>(), f: yield_hook }),
            );
            shared.gate.wait();
            yields(start);
            for step in script {
                yields(step.yields);
                exec_op(&ev, &mut slots, t as u8 * slots_per, t, step.op, &shared.stamp, &mut recs);
            }
            drop(ev);
            (recs, slots)
        }));
    }
    shared.gate.wait();
    let mut recs = Vec::new();
    let mut all_slots = Vec::new();
    for h in handles {
        let (r, s) = h.join().expect("script thread");
        recs.extend(r);
        all_slots.push(s);
    }
    let mut views: Vec<&mut [Slot<E::Fut>]> = all_slots.iter_mut().map(Vec::as_mut_slice).collect();
    drain(ev, &mut views, sc.slots, sc.threads.len(), &shared.stamp, &mut recs);
    recs
}

unsafe fn yield_hook(data: *const (), _kind: CbKind, _cell: &WakerCell) {
    // SAFETY: `data` is the RefCell<Rng> on the stack of the script thread that installed the hook;
    // the hook is thread-local and uninstalled before that frame ends.
    let rng = unsafe { &*data.cast::<std::cell::RefCell<Rng>>() };
    let n = rng.borrow_mut().below(5) as u8;
    yields(n);
}

fn run_seq<E: Ev>(sc: &EvScenario, ev: &E) -> Vec<Rec> {
    let stamp = AtomicU64::new(1);
    let n = sc.threads.len();
    let per = usize::from(sc.slots);
    // One slot array for all simulated threads (see `Slot`).
    let mut all_slots: Vec<Slot<E::Fut>> = new_slots(n * per);
    let mut next = vec![0_usize; n];
    let mut recs = Vec::new();
    let mut run_next = |t: usize, all_slots: &mut Vec<Slot<E::Fut>>, recs: &mut Vec<Rec>| {
        if let Some(step) = sc.threads[t].get(next[t]) {
            next[t] += 1;
            exec_op(ev, &mut all_slots[t * per..(t + 1) * per], t as u8 * sc.slots, t, step.op, &stamp, recs);
        }
    };
    for &t in &sc.order {
        if (t as usize) < n {
            run_next(t as usize, &mut all_slots, &mut recs);
        }
    }
    for t in 0..n {
        for _ in 0..sc.threads[t].len() {
            run_next(t, &mut all_slots, &mut recs);
        }
    }
    let mut views: Vec<&mut [Slot<E::Fut>]> = all_slots.chunks_mut(per.max(1)).collect();
    drain(ev, &mut views, sc.slots, n, &stamp, &mut recs);
    recs
}

// ------------------------------------------------------------------------------------------------
// Oracles
// ------------------------------------------------------------------------------------------------

fn fmt_history(recs: &[&Rec], woken: &[bool]) -> String {
    let mut s = String::new();
    for (i, r) in recs.iter().enumerate() {
        use std::fmt::Write as _;
        let _ = write!(
            s,
            "[{}t{} {}..{} {:?} -> {:?}{}] ",
            match (r.depth, r.via) {
                (0, _) | (_, None) => String::new(),
                (d, Some(v)) => format!("{}{}: ", ">".repeat(usize::from(d)), v.name()),
            },
            r.thread,
            r.inv,
            r.ret,
            r.op,
            r.res,
            if r.cell.is_some() { if woken[i] { " woken" } else { " not-woken" } } else { "" }
        );
    }
    s
}

/// Checks the recorded history and emits the event log, probes and the non-triviality verdict.
fn judge(sc: &EvScenario, recs: &[Rec], notes: &[Note], ctx: &mut Ctx) -> Result<bool, Violation> {
    let manual = sc.kind.manual();
    let nthreads = sc.threads.len();
    check!(
        usize::from(sc.slots) * nthreads <= MAXW,
        "harness-scenario-too-large",
        "{} waiters exceed the specification's capacity",
        usize::from(sc.slots) * nthreads
    );

    // Event log in stamp order: the harness-level interleaving (results included, never addresses).
    let mut evs: Vec<(u64, u64, usize, bool)> = Vec::new();
    for (i, r) in recs.iter().enumerate() {
        evs.push((r.inv, 0, i, true));
        evs.push((r.ret, 0, i, false));
    }
    for (i, n) in notes.iter().enumerate() {
        evs.push((n.at, 1, i, false));
    }
    evs.sort_unstable();
    ctx.event(sc.kind.code() ^ 0xC08, || format!("cfg: {:?} threads={} concurrent={} reent={}", sc.kind, nthreads, sc.concurrent, sc.reent));
    for (_, tag, i, is_inv) in &evs {
        if *tag == 1 {
            let n = &notes[*i];
            ctx.event(0xEE00 | (n.what as u64) << 4 | n.via.idx() as u64, || format!("{:?} in {} callback: {:?}", n.what, n.via.name(), n.op));
            ctx.probe(match n.what {
                NoteKind::SkippedBusy => "nested-op-skipped-busy",
                NoteKind::SuppressedKnown => "drop-callback-of-stored-waker:actions-suppressed(known)",
            });
            continue;
        }
        let r = &recs[*i];
        let opcode = match r.op {
            Op::Set => 1,
            Op::Reset => 2,
            Op::TryWait => 3,
            Op::Poll(w) => 16 + u64::from(w),
            Op::Drop(w) => 32 + u64::from(w),
        };
        let rescode = match r.res {
            Res::Unit => 0,
            Res::Bool(false) => 1,
            Res::Bool(true) => 2,
            Res::Ready => 3,
            Res::Pending => 4,
        };
        let nest = u64::from(r.depth) << 24 | r.via.map_or(0, |v| v.idx() as u64 + 1) << 28;
        let code = nest | (r.thread as u64) << 16 | opcode << 8 | if *is_inv { 0xFF } else { rescode };
        ctx.event(code, || {
            let pad = "  ".repeat(usize::from(r.depth));
            let via = r.via.map_or(String::new(), |v| format!(" [in {} callback]", v.name()));
            if *is_inv {
                format!("{pad}t{}: {:?} invoked{via}", r.thread, r.op)
            } else {
                format!("{pad}t{}: {:?} -> {:?}", r.thread, r.op, r.res)
            }
        });
    }

    // Quiescence: every thread joined, every future dropped. Which wakers were invoked?
    let order_by_inv: Vec<&Rec> = {
        let mut v: Vec<&Rec> = recs.iter().collect();
        v.sort_by_key(|r| r.inv);
        v
    };
    let woken: Vec<bool> = order_by_inv
        .iter()
        .map(|r| r.cell.as_ref().is_some_and(|c| c.wakes.load(Ordering::Relaxed) > 0))
        .collect();
    for (i, r) in order_by_inv.iter().enumerate() {
        if let Some(c) = &r.cell {
            ctx.event(u64::from(woken[i]), || format!("q: waker of t{} {:?}@{} woken={}", r.thread, r.op, r.inv, woken[i]));
            // Waker accounting: the library dropped (or consumed by wake) every clone it took.
            check!(
                !c.over_released(),
                "waker-over-released",
                "{:?}: a waker made for {:?}@{} was released more often than it was created/cloned (clones {}, drops {}, wakes {}): {}",
                sc.kind,
                r.op,
                r.inv,
                c.clones.load(Ordering::Relaxed),
                c.drops.load(Ordering::Relaxed),
                c.wakes.load(Ordering::Relaxed),
                fmt_history(&order_by_inv, &woken)
            );
            let alive = c.alive();
            check!(
                alive == 0,
                "waker-leaked",
                "{alive} clone(s) of the waker of {:?}@{} still alive after every future was dropped (clones {}, drops {}, wakes {})",
                r.op,
                r.inv,
                c.clones.load(Ordering::Relaxed),
                c.drops.load(Ordering::Relaxed),
                c.wakes.load(Ordering::Relaxed)
            );
        }
    }

    // Build the specification-level history. Operations of the concurrent phase are searched
    // (`conc`); everything executed by one thread after a join (the drain phase; in `seq` / `local`
    // the whole run) is a fixed sequence (`tail`). A thread-safe manual `set` of the concurrent
    // phase is three steps sharing the call's interval (flag / mark waiters / release): see `spec`.
    let mut conc: Vec<LOp> = Vec::new();
    let mut tail: Vec<(SOp, Res)> = Vec::new();
    let mut tail_stamps: Vec<(u64, u64)> = Vec::new();
    let mut last_of_thread: Vec<Option<usize>> = vec![None; nthreads + 1];
    let mut set_id = 0_u8;
    let mut split_sets = false;
    let mut ever_pending = [false; MAXW];
    // Re-entrant modes: `recs` is in invocation order and `parent` links a nested operation to the
    // operation it ran inside. Everything up to the response of the last operation that had
    // nested operations inside is searched (a nested operation is concurrent with its ancestors:
    // plain interval order, no program-order predecessor); what follows is a fixed sequence. A
    // manual `set` with nested operations inside is three steps (both the thread-safe and the local
    // event open the gate first and release the waiters one by one, waking in between).
    let has_inner: Vec<bool> = if sc.reent {
        let mut v = vec![false; recs.len()];
        for r in recs {
            if let Some(p) = r.parent {
                v[p] = true;
            }
        }
        v
    } else {
        Vec::new()
    };
    let reent_cut = recs.iter().enumerate().filter(|(i, _)| sc.reent && has_inner[*i]).map(|(_, r)| r.ret).max().unwrap_or(0);
    for (i, r) in order_by_inv.iter().enumerate() {
        let concurrent_phase = if sc.reent { r.inv <= reent_cut } else { sc.concurrent && r.thread < nthreads };
        let split_this = if sc.reent { has_inner[i] } else { true };
        let reent = sc.reent;
        let mut push = |op: SOp, res: Res, weak: bool| {
            if !concurrent_phase {
                tail.push((op, res));
                tail_stamps.push((r.inv, r.ret));
                return;
            }
            if reent {
                let prev = match op {
                    SOp::SetMark(_) | SOp::SetDone(_) => Some(conc.len() - 1),
                    _ => None,
                };
                conc.push(LOp { thread: 0, inv: r.inv, ret: r.ret, inv_eff: r.inv, prev, op, res });
                return;
            }
            let prev = last_of_thread[r.thread];
            // A plain atomic load (manual try_wait, manual poll's IS_SET fast path) may return a
            // value that is stale w.r.t. operations of other threads that completed earlier in
            // stamp order but do not happen-before it (C11 coherence; Miri emulates this). Such an
            // operation may take effect anywhere after this thread's previous operation did.
            let inv_eff = if weak { prev.map_or(0, |p| conc[p].inv_eff) } else { r.inv };
            conc.push(LOp { thread: r.thread, inv: r.inv, ret: r.ret, inv_eff, prev, op, res });
            last_of_thread[r.thread] = Some(conc.len() - 1);
        };
        match r.op {
            Op::Set if manual && concurrent_phase && split_this => {
                let id = set_id;
                set_id += 1;
                split_sets = true;
                check!(id < 16, "harness-scenario-too-large", "more than 16 set calls");
                push(SOp::SetFlag(id), Res::Unit, false);
                push(SOp::SetMark(id), Res::Unit, false);
                push(SOp::SetDone(id), Res::Unit, false);
            }
            Op::Set => push(SOp::Set, Res::Unit, false),
            Op::Reset => push(SOp::Reset, Res::Unit, false),
            Op::TryWait => push(SOp::TryWait, r.res, manual),
            Op::Poll(w) => {
                if r.res == Res::Pending {
                    ever_pending[usize::from(w)] = true;
                }
                push(SOp::Poll { w, woken: woken[i] }, r.res, manual && r.res == Res::Ready);
            }
            Op::Drop(w) => {
                // Dropping a wait future that never returned Pending (never registered) performs
                // no access to shared state at all (`drop_wait` returns after reading the future's
                // own awaiter): nothing orders it against other threads' operations, so it must not
                // pin the stale-load operations that follow it in program order to its stamp.
                let never_registered = !std::mem::replace(&mut ever_pending[usize::from(w)], false);
                push(SOp::Drop { w }, Res::Unit, never_registered);
            }
        }
    }

    let init = S::default();
    let any_weak = conc.iter().any(|l| l.inv_eff != l.inv);
    let strong: Vec<LOp> = conc.iter().map(|l| LOp { inv_eff: l.inv, ..l.clone() }).collect();
    let strict_step = |s: &S, op: &SOp, out: &mut spec::Succ| step(manual, true, s, op, out);
    let lenient_step = |s: &S, op: &SOp, out: &mut spec::Succ| step(manual, false, s, op, out);
    let mut result = lin_ext(init, &strong, &tail, &strict_step);
    ctx.steps += 1;

    // Native runs cross-check the extended checker against simkit's reference checker whenever
    // the history needs none of the extensions.
    check!(conc.len() < 64, "harness-scenario-too-large", "{} searched operations", conc.len());
    let cross_check = if sc.reent { cfg!(debug_assertions) && !conc.is_empty() } else { sc.concurrent };
    if cfg!(not(miri)) && cross_check && !split_sets && conc.len() + tail.len() <= 64 {
        let mut h: Vec<HistOp<SOp, Res>> = conc
            .iter()
            .map(|l| HistOp { thread: l.thread, invoke: l.inv, ret: Some(l.ret), op: l.op.clone(), result: Some(l.res) })
            .collect();
        for (k, (op, res)) in tail.iter().enumerate() {
            h.push(HistOp { thread: nthreads, invoke: tail_stamps[k].0, ret: Some(tail_stamps[k].1), op: op.clone(), result: Some(*res) });
        }
        let reference = check_linearizable(init, &h, |s, op| spec::step_vec(manual, true, s, op));
        check!(
            reference.order.is_some() == result.is_ok(),
            "harness-checker-disagreement",
            "simkit::lin says linearizable={}, the extended checker says {}: {}",
            reference.order.is_some(),
            result.is_ok(),
            fmt_history(&order_by_inv, &woken)
        );
    }

    if result.is_err() && any_weak {
        result = lin_ext(init, &conc, &tail, &strict_step);
        if result.is_ok() {
            ctx.probe("manual:stale-load-needed-to-explain");
        }
    }
    let witness = match result {
        Ok(w) => w,
        Err(depth) => {
            let hist = fmt_history(&order_by_inv, &woken);
            let at = if sc.concurrent || sc.reent { String::new() } else { format!(" (first operation the specification rejects: #{depth} in execution order)") };
            // Would the history be explained if released waiters did not have to be woken?
            if lin_ext(init, &conc, &tail, &lenient_step).is_ok() {
                return Err(Violation::new(
                    "lost-wakeup",
                    format!("{:?}: the history is only explained by releasing a waiter whose latest waker was never invoked{at}: {hist}", sc.kind),
                ));
            }
            let class = match (sc.concurrent || sc.reent, manual) {
                (true, false) => "not-linearizable:auto",
                (true, true) => "not-linearizable:manual",
                (false, false) => "spec-mismatch:auto",
                (false, true) => "spec-mismatch:manual",
            };
            return Err(Violation::new(class, format!("{:?}: no sequential order of the specification explains the history{at}: {hist}", sc.kind)));
        }
    };
    let seq_ops: Vec<(&SOp, Res)> = witness
        .order
        .iter()
        .map(|&i| (&conc[i].op, conc[i].res))
        .chain(tail.iter().map(|(op, res)| (op, *res)))
        .collect();
    let states = &witness.states;
    ctx.steps += witness.visited;
    if sc.concurrent {
        ctx.probe_n("lin:search-nodes", witness.visited);
    }

    // Probes from the witness linearization.
    let mut sets = 0;
    let mut registrations = 0;
    for (pos, (op, res)) in seq_ops.iter().enumerate() {
        let pre = &states[pos];
        let any_waiting = pre.w.iter().any(|c| spec::is_waiting(*c));
        match (*op, *res) {
            (SOp::Set, _) if !manual => {
                sets += 1;
                ctx.probe(if any_waiting {
                    "auto:set-released-waiter(fast-path-CAS-lost)"
                } else if pre.flag {
                    "auto:set-coalesced"
                } else {
                    "auto:set-stored-signal"
                });
            }
            (SOp::Set, _) => {
                sets += 1;
                ctx.probe(if any_waiting { "manual:set-released-waiters" } else { "manual:set-no-waiters" });
            }
            (SOp::SetFlag(_), _) => sets += 1,
            (SOp::SetMark(_), _) if any_waiting => ctx.probe("manual:set-released-waiters"),
            (SOp::Drop { w }, _) => {
                let c = pre.w[*w as usize];
                if !manual && c == spec::W_NOTIFIED {
                    ctx.probe(if any_waiting { "auto:cancel-notified-forwarded" } else { "auto:cancel-notified-restored" });
                } else if spec::is_waiting(c) || c >= spec::W_MARK {
                    ctx.probe("cancel-waiting");
                }
            }
            (SOp::Poll { w, .. }, res) => {
                let c = pre.w[*w as usize];
                if res == Res::Pending {
                    registrations += 1;
                    if spec::is_waiting(c) {
                        ctx.probe("repoll-with-new-waker");
                    } else if c >= spec::W_MARK {
                        ctx.probe("manual:repoll-pending-during-drain");
                    }
                } else if c == spec::W_NOTIFIED {
                    ctx.probe(if !manual && pre.flag { "auto:poll-notified-and-signaled" } else { "poll-released-ready" });
                } else if c >= spec::W_MARK && !pre.flag {
                    ctx.probe("manual:poll-ready-during-drain");
                }
            }
            _ => {}
        }
    }

    if sc.reent {
        let ev_kind = if manual { "manual" } else { "auto" };
        let mut nested = 0;
        for r in recs {
            let Some(via) = r.via else { continue };
            nested += 1;
            let opn = match r.op {
                Op::Set => "set",
                Op::Reset => "reset",
                Op::TryWait => "try_wait",
                Op::Poll(_) => "poll",
                Op::Drop(_) => "drop",
            };
            ctx.probe(&format!("cb:{}:{}:{}{}", via.name(), opn, if sc.kind.local() { "local-" } else { "" }, ev_kind));
            if r.depth >= 2 {
                ctx.probe("nested-depth-2");
            }
            // Ancestors of this nested operation.
            let mut inside_set = false;
            let mut a = r.parent;
            while let Some(p) = a {
                inside_set |= recs[p].op == Op::Set;
                a = recs[p].parent;
            }
            if inside_set && r.op == Op::Set {
                ctx.probe("nested-set-inside-set");
            }
            if inside_set && r.op == Op::Reset && manual {
                ctx.probe("nested-reset-inside-set-drain");
            }
            if let Some(p) = r.parent {
                if matches!(recs[p].op, Op::Drop(_)) && via == CbKind::Wake {
                    ctx.probe("auto:nested-op-inside-forwarding-drop");
                }
            }
        }
        if nested > 0 {
            ctx.probe("nested-op-executed");
        }
        ctx.probe_n("lin:search-nodes", witness.visited);
        return Ok(nested >= 1 && sets >= 1);
    }
    if !sc.concurrent {
        return Ok(sets >= 1 && registrations >= 1);
    }

    // mt: overlap in stamp order.
    let crecs: Vec<&Rec> = recs.iter().filter(|r| r.thread < nthreads).collect();
    let mut overlapped = 0;
    let mut set_overlapped = false;
    for a in &crecs {
        for b in &crecs {
            if a.thread < b.thread && a.inv < b.ret && b.inv < a.ret {
                overlapped += 1;
                let poll_vs_set = |x: &Rec, y: &Rec| matches!(x.op, Op::Poll(_)) && y.op == Op::Set;
                if a.op == Op::Set || b.op == Op::Set {
                    set_overlapped = true;
                }
                if poll_vs_set(a, b) || poll_vs_set(b, a) {
                    let p = if matches!(a.op, Op::Poll(_)) { a } else { b };
                    ctx.probe(match (manual, p.res) {
                        (false, Res::Ready) => "auto:poll-ready-overlapping-set(superset of HAS_WAITERS re-check hit)",
                        (false, _) => "auto:poll-pending-overlapping-set",
                        (true, Res::Ready) => "manual:set-racing-registration(poll ready)",
                        (true, _) => "manual:set-racing-registration(poll pending)",
                    });
                }
            }
        }
    }
    if overlapped > 0 {
        ctx.probe("ops-overlapped");
    }
    let has_set = crecs.iter().any(|r| r.op == Op::Set);
    let _ = set_overlapped;
    Ok(overlapped >= 1 && has_set)
}

fn run_single<E: Ev>(sc: &EvScenario, ev: &E) -> (Vec<Rec>, Vec<Note>) {
    if !sc.reent {
        return (run_seq(sc, ev), Vec::new());
    }
    let script: Vec<Op> = sc.threads.first().map(|t| t.iter().map(|s| s.op).collect()).unwrap_or_default();
    let avoid = AVOID_KNOWN.contains(&KEY_DROP_UNDER_LOCK) && !sc.drop_under_lock;
    let out = run_reent(ev, sc.kind.manual(), usize::from(sc.slots), &script, &sc.cb, avoid);
    (out.recs, out.notes)
}

fn run_events(sc: &EvScenario, ctx: &mut Ctx) -> Result<bool, Violation> {
    let (recs, notes) = match sc.kind {
        Kind::AutoBoxed => {
            let ev = events::AutoResetEvent::boxed();
            if sc.concurrent { (run_mt(sc, &ev), Vec::new()) } else { run_single(sc, &ev) }
        }
        Kind::AutoEmbedded => {
            let place = Box::pin(events::EmbeddedAutoResetEvent::new());
            // SAFETY: the container outlives the handle, its copies and every wait future: all
            // threads are joined and all futures dropped inside run_mt / run_seq.
            let ev = unsafe { events::AutoResetEvent::embedded(place.as_ref()) };
            let r = if sc.concurrent { (run_mt(sc, &ev), Vec::new()) } else { run_single(sc, &ev) };
            drop(place);
            r
        }
        Kind::ManualBoxed => {
            let ev = events::ManualResetEvent::boxed();
            if sc.concurrent { (run_mt(sc, &ev), Vec::new()) } else { run_single(sc, &ev) }
        }
        Kind::ManualEmbedded => {
            let place = Box::pin(events::EmbeddedManualResetEvent::new());
            // SAFETY: as above.
            let ev = unsafe { events::ManualResetEvent::embedded(place.as_ref()) };
            let r = if sc.concurrent { (run_mt(sc, &ev), Vec::new()) } else { run_single(sc, &ev) };
            drop(place);
            r
        }
        Kind::LocalAutoBoxed => run_single(sc, &events::LocalAutoResetEvent::boxed()),
        Kind::LocalAutoEmbedded => {
            let place = Box::pin(events::EmbeddedLocalAutoResetEvent::new());
            // SAFETY: as above (single thread).
            let ev = unsafe { events::LocalAutoResetEvent::embedded(place.as_ref()) };
            let r = run_single(sc, &ev);
            drop(place);
            r
        }
        Kind::LocalManualBoxed => run_single(sc, &events::LocalManualResetEvent::boxed()),
        Kind::LocalManualEmbedded => {
            let place = Box::pin(events::EmbeddedLocalManualResetEvent::new());
            // SAFETY: as above (single thread).
            let ev = unsafe { events::LocalManualResetEvent::embedded(place.as_ref()) };
            let r = run_single(sc, &ev);
            drop(place);
            r
        }
    };
    ctx.probe(match sc.kind {
        Kind::AutoBoxed => "kind:auto-boxed",
        Kind::AutoEmbedded => "kind:auto-embedded",
        Kind::ManualBoxed => "kind:manual-boxed",
        Kind::ManualEmbedded => "kind:manual-embedded",
        Kind::LocalAutoBoxed => "kind:local-auto-boxed",
        Kind::LocalAutoEmbedded => "kind:local-auto-embedded",
        Kind::LocalManualBoxed => "kind:local-manual-boxed",
        Kind::LocalManualEmbedded => "kind:local-manual-embedded",
    });
    judge(sc, &recs, &notes, ctx)
}

const MT_KINDS: &[Kind] = &[Kind::AutoBoxed, Kind::AutoEmbedded, Kind::ManualBoxed, Kind::ManualEmbedded];
const LOCAL_KINDS: &[Kind] =
    &[Kind::LocalAutoBoxed, Kind::LocalAutoEmbedded, Kind::LocalManualBoxed, Kind::LocalManualEmbedded];

impl Scenario for EvScenario {
    fn generate(rng: &mut Rng, mode: &str) -> Self {
        let _ = AVOID_KNOWN;
        match mode {
            "mt" => gen_events(rng, MT_KINDS, true, 4),
            "seq" => gen_events(rng, MT_KINDS, false, 8),
            "reent" => gen_reent(rng, MT_KINDS),
            "local-reent" => gen_reent(rng, LOCAL_KINDS),
            "known-reent-waker-drop-under-lock" => gen_known_drop_under_lock(rng),
            "local" => gen_events(rng, LOCAL_KINDS, false, 30),
            other => panic!("unknown mode {other}"),
        }
    }

    fn run(&self, ctx: &mut Ctx) -> Result<bool, Violation> {
        if self.reent && (self.concurrent || self.threads.len() > 1) {
            return Err(Violation::new("harness-bad-scenario", "re-entrant modes run on one thread"));
        }
        if self.kind.local() && (self.concurrent || self.threads.len() != 1) {
            return Err(Violation::new("harness-bad-scenario", "local events run on one thread"));
        }
        if self.threads.is_empty() {
            return Ok(false);
        }
        run_events(self, ctx)
    }

    fn shrink(&self) -> Vec<Self> {
        let mut out = Vec::new();
        if self.threads.len() > 1 {
            for t in (0..self.threads.len()).rev() {
                let mut s = self.clone();
                s.threads.remove(t);
                if (t as usize) < s.start_yields.len() {
                    s.start_yields.remove(t);
                }
                // Renumber the seq order.
                s.order = s
                    .order
                    .iter()
                    .filter(|&&x| x as usize != t)
                    .map(|&x| if x as usize > t { x - 1 } else { x })
                    .collect();
                out.push(s);
            }
        }
        for t in 0..self.threads.len() {
            for r in simkit::shrink::remove_chunks(&self.threads[t]) {
                let mut s = self.clone();
                s.threads[t] = r;
                out.push(s);
            }
        }
        for i in 0..self.cb.len() {
            let mut s = self.clone();
            s.cb.remove(i);
            out.push(s);
        }
        for i in 0..self.cb.len() {
            for j in 0..self.cb[i].actions.len() {
                if self.cb[i].actions.len() > 1 {
                    let mut s = self.clone();
                    s.cb[i].actions.remove(j);
                    out.push(s);
                }
            }
        }
        if self.kind.embedded() {
            let mut s = self.clone();
            s.kind = match self.kind {
                Kind::AutoEmbedded => Kind::AutoBoxed,
                Kind::ManualEmbedded => Kind::ManualBoxed,
                Kind::LocalAutoEmbedded => Kind::LocalAutoBoxed,
                _ => Kind::LocalManualBoxed,
            };
            out.push(s);
        }
        for t in 0..self.threads.len() {
            for i in 0..self.threads[t].len() {
                if self.threads[t][i].yields > 0 {
                    let mut s = self.clone();
                    s.threads[t][i].yields -= 1;
                    out.push(s);
                }
            }
        }
        for t in 0..self.start_yields.len() {
            if self.start_yields[t] > 0 {
                let mut s = self.clone();
                s.start_yields[t] -= 1;
                out.push(s);
            }
        }
        out
    }

    fn size(&self) -> usize {
        let ops: usize = self.threads.iter().map(Vec::len).sum();
        let y: usize = self.threads.iter().flatten().map(|s| usize::from(s.yields)).sum::<usize>()
            + self.start_yields.iter().map(|y| usize::from(*y)).sum::<usize>();
        let cb: usize = self.cb.iter().map(|e| 8 + 16 * e.actions.len()).sum();
        ops * 16 + self.threads.len() * 8 + y + cb + if self.kind.embedded() { 3 } else { 0 }
    }
}

fn main() {
    simkit::cli_main(
        "h_reset",
        vec![
            entry::<EvScenario>("C08", "mt", "2-3 real threads on one thread-safe auto/manual reset event (boxed, embedded); linearizability of the stamped history"),
            entry::<EvScenario>("C08", "seq", "the same scripts in an op-granular total order on one thread; sequential specification"),
            entry::<EvScenario>("C08", "local", "LocalAutoResetEvent / LocalManualResetEvent (boxed, embedded) single-threaded histories"),
            entry::<EvScenario>("C08", "reent", "thread-safe events on one thread; waker callbacks (wake / clone / drop) perform nested set / reset / try_wait / poll / drop on the same event (depth <= 2); linearizability with nested operations concurrent to their outer operation"),
            entry::<EvScenario>("C08", "local-reent", "the same for LocalAutoResetEvent / LocalManualResetEvent (re-entrancy is their only form of interleaving)"),
            entry::<EvScenario>("C08", "known-reent-waker-drop-under-lock", "known finding: a stored waker is dropped inside the event's critical section; a re-entrant Drop re-enters the waiter list (local events: waker released twice)"),
            entry::<storm::StormScenario>("C08", "storm", "10-30 tiny concurrent rounds per scenario on 2-3 persistent threads (fresh thread-safe event per round, rendezvous right before the racing operations); at least half are the core two-operation races; every round judged on its own like an mt history"),
            entry::<aset::AsetScenario>("C08", "aset", "awaiter_set::AwaiterSet operation histories against a list model"),
        ],
    )
}
