//! Re-entrant single-thread executor (`reent`, `local-reent`): waker callbacks are an interleaving
//! seam. The events invoke wakers outside their critical section (`set()` wakes the waiters it
//! released, an auto-reset `drop_wait` forwards a notification and wakes) and call `clone` / `drop`
//! of user wakers while polling. A waker is user code and may call back into the same event on the
//! same thread. Such a nested call is a complete operation inside the outer call's interval, i.e.
//! concurrent with it for linearizability, and it lands in windows (middle of a manual `set()`
//! drain, between two wake-ups) that thread preemption reaches only rarely. For the `Local*` events
//! it is the only form of interleaving there is.
//!
//! Everything is decided by the scenario: the *callback plan* maps (callback kind, invocation index
//! of that kind within the run) to a list of 1-3 operations. Nested operations fire callbacks too
//! (depth <= 2). A nested `Poll`/`Drop` of a slot whose future an outer frame is using is skipped
//! (safe code could not do it: the future is mutably borrowed) and the skip is logged.

use std::cell::{Cell, RefCell, UnsafeCell};
use std::future::Future;
use std::sync::Arc;
use std::sync::atomic::{AtomicU64, Ordering};
use std::task::{Context, Poll};

use serde::{Deserialize, Serialize};

use crate::spec::Res;
use crate::waker::{CbKind, Hook, HookGuard, WakerCell, drop_own, new_waker};
use crate::{Ev, Op, Rec, Slot, new_slots, tick};

#[derive(Clone, Debug, Serialize, Deserialize, PartialEq, Eq)]
pub struct CbEntry {
    pub kind: CbKind,
    /// 0-based invocation count of this callback kind within the run.
    pub index: u16,
    pub actions: Vec<Op>,
}

/// Harness-level happenings that are not operations (logged in stamp order).
pub struct Note {
    pub at: u64,
    pub what: NoteKind,
    pub via: CbKind,
    pub op: Option<Op>,
}

#[derive(Clone, Copy, PartialEq, Eq, Debug)]
pub enum NoteKind {
    /// Nested Poll/Drop skipped: an outer frame holds that slot's future.
    SkippedBusy,
    /// Drop callback of a *stored* waker: the library runs it inside its critical section
    /// (known finding `reent-waker-drop-under-lock`); the planned actions were not run.
    SuppressedKnown,
}

pub struct ReOut {
    pub recs: Vec<Rec>,
    pub notes: Vec<Note>,
}

struct Re<'a, E: Ev> {
    ev: &'a E,
    manual: bool,
    /// Each slot in its own `UnsafeCell`: an outer frame holds `&mut` to the one slot it marked
    /// busy, nested frames touch only other slots.
    slots: Vec<UnsafeCell<Slot<E::Fut>>>,
    busy: Vec<Cell<bool>>,
    stamp: AtomicU64,
    recs: RefCell<Vec<Rec>>,
    notes: RefCell<Vec<Note>>,
    plan: &'a [CbEntry],
    counts: [Cell<u32>; 3],
    depth: Cell<u8>,
    /// Record index of the innermost operation in progress.
    cur: Cell<Option<usize>>,
    /// Do not run the actions planned for drop callbacks of stored wakers.
    avoid_drop_under_lock: bool,
}

pub const MAX_DEPTH: u8 = 2;

impl<E: Ev> Re<'_, E> {
    fn begin(&self, op: Op, via: Option<CbKind>) -> usize {
        let inv = tick(&self.stamp);
        let mut recs = self.recs.borrow_mut();
        recs.push(Rec {
            thread: 0,
            inv,
            ret: u64::MAX,
            op,
            res: Res::Unit,
            cell: None,
            depth: self.depth.get(),
            via,
            parent: self.cur.get(),
        });
        let id = recs.len() - 1;
        self.cur.set(Some(id));
        id
    }

    fn end(&self, id: usize, res: Res, cell: Option<Arc<WakerCell>>) {
        let ret = tick(&self.stamp);
        let mut recs = self.recs.borrow_mut();
        let r = &mut recs[id];
        r.ret = ret;
        r.res = res;
        r.cell = cell;
        self.cur.set(r.parent);
    }

    fn note(&self, what: NoteKind, via: CbKind, op: Option<Op>) {
        let at = tick(&self.stamp);
        self.notes.borrow_mut().push(Note { at, what, via, op });
    }

    /// Executes one operation; may be entered re-entrantly from a waker callback.
    fn exec(&self, op: Op, via: Option<CbKind>) {
        match op {
            Op::Set => {
                let id = self.begin(op, via);
                self.ev.set();
                self.end(id, Res::Unit, None);
            }
            Op::Reset => {
                if !self.manual {
                    return;
                }
                let id = self.begin(op, via);
                self.ev.reset();
                self.end(id, Res::Unit, None);
            }
            Op::TryWait => {
                let id = self.begin(op, via);
                let r = self.ev.try_wait();
                self.end(id, Res::Bool(r), None);
            }
            Op::Poll(k) => {
                let ki = usize::from(k);
                if ki >= self.slots.len() {
                    return;
                }
                if self.busy[ki].get() {
                    if let Some(v) = via {
                        self.note(NoteKind::SkippedBusy, v, Some(op));
                    }
                    return;
                }
                self.busy[ki].set(true);
                // SAFETY: the slot is marked busy for as long as this reference lives; every other
                // frame checks the flag before touching the slot, and all frames are on this thread.
                let slot = unsafe { &mut *self.slots[ki].get() };
                if slot.completed {
                    self.busy[ki].set(false);
                    return;
                }
                let cell = Arc::new(WakerCell::default());
                let waker = new_waker(&cell);
                let mut cx = Context::from_waker(&waker);
                cell.in_poll.store(true, Ordering::Relaxed);
                let id = self.begin(op, via);
                if !slot.live {
                    slot.put(self.ev.wait());
                }
                let r = slot.pinned().poll(&mut cx);
                let res = match r {
                    Poll::Ready(()) => {
                        slot.completed = true;
                        Res::Ready
                    }
                    Poll::Pending => Res::Pending,
                };
                cell.in_poll.store(false, Ordering::Relaxed);
                self.end(id, res, Some(Arc::clone(&cell)));
                self.busy[ki].set(false);
                drop_own(waker);
            }
            Op::Drop(k) => {
                let ki = usize::from(k);
                if ki >= self.slots.len() {
                    return;
                }
                if self.busy[ki].get() {
                    if let Some(v) = via {
                        self.note(NoteKind::SkippedBusy, v, Some(op));
                    }
                    return;
                }
                self.busy[ki].set(true);
                // SAFETY: as for Poll.
                let slot = unsafe { &mut *self.slots[ki].get() };
                if !slot.live {
                    self.busy[ki].set(false);
                    return;
                }
                let id = self.begin(op, via);
                slot.drop_future();
                self.end(id, Res::Unit, None);
                self.busy[ki].set(false);
            }
        }
    }

    fn callback(&self, kind: CbKind, cell: &WakerCell) {
        let k = self.counts[kind.idx()].get();
        self.counts[kind.idx()].set(k + 1);
        if self.depth.get() >= MAX_DEPTH {
            return;
        }
        let Some(entry) = self.plan.iter().find(|e| e.kind == kind && u32::from(e.index) == k) else { return };
        if kind == CbKind::Drop && self.avoid_drop_under_lock && !cell.in_poll.load(Ordering::Relaxed) {
            // The waker was stored by an earlier Pending poll: the library drops it while it
            // holds its lock / its `&mut` to the waiter list.
            self.note(NoteKind::SuppressedKnown, kind, None);
            return;
        }
        self.depth.set(self.depth.get() + 1);
        for op in &entry.actions {
            self.exec(*op, Some(kind));
        }
        self.depth.set(self.depth.get() - 1);
    }
}

unsafe fn hook_fn<E: Ev>(data: *const (), kind: CbKind, cell: &WakerCell) {
    // SAFETY: `data` is the `Re` of the run in progress on this thread (see `run_reent`); it is
    // only ever used through shared references.
    let re = unsafe { &*data.cast::<Re<'_, E>>() };
    re.callback(kind, cell);
}

/// Runs the top-level script, then the drain phase (poll every live waiter, `try_wait`, drop every
/// future, `try_wait`), all with the callback plan active.
pub fn run_reent<E: Ev>(ev: &E, manual: bool, nslots: usize, script: &[Op], plan: &[CbEntry], avoid_drop_under_lock: bool) -> ReOut
where
    E::Fut: Future<Output = ()>,
{
    let re = Re {
        ev,
        manual,
        slots: new_slots::<E::Fut>(nslots).into_iter().map(UnsafeCell::new).collect(),
        busy: (0..nslots).map(|_| Cell::new(false)).collect(),
        stamp: AtomicU64::new(1),
        recs: RefCell::new(Vec::new()),
        notes: RefCell::new(Vec::new()),
        plan,
        counts: [Cell::new(0), Cell::new(0), Cell::new(0)],
        depth: Cell::new(0),
        cur: Cell::new(None),
        avoid_drop_under_lock,
    };
    {
        let _guard = HookGuard::install(Some(Hook { data: (&raw const re).cast::<()>(), f: hook_fn::<E> }));
        for op in script {
            re.exec(*op, None);
        }
        for k in 0..nslots {
            // SAFETY: top level, no frame in progress: no slot is borrowed.
            let (live, completed) = unsafe { ((*re.slots[k].get()).live, (*re.slots[k].get()).completed) };
            if live && !completed {
                re.exec(Op::Poll(k as u8), None);
            }
        }
        re.exec(Op::TryWait, None);
        // Two passes: a callback fired by a drop may have created a new future in an earlier slot.
        for _ in 0..2 {
            for k in 0..nslots {
                re.exec(Op::Drop(k as u8), None);
            }
        }
        re.exec(Op::TryWait, None);
    }
    let Re { recs, notes, slots, .. } = re;
    drop(slots);
    ReOut { recs: recs.into_inner(), notes: notes.into_inner() }
}
