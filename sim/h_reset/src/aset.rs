//! `awaiter_set::AwaiterSet` operation histories against a list model (mode `aset`).
//!
//! All awaiters of a run live in one pre-allocated arena, so their relative address order is the
//! index order: the debug-build `pick_one` (which chooses head or tail by pointer order) behaves
//! identically in every process. The model nevertheless only requires what the crate documents:
//! `notify_one` removes *some* registered awaiter and returns *its latest* waker;
//! `notify_one_prior_generation` only an awaiter registered before the last `advance_generation`.

use std::pin::Pin;
use std::sync::Arc;
use std::sync::atomic::Ordering;

use awaiter_set::{Awaiter, AwaiterSet};
use serde::{Deserialize, Serialize};
use simkit::{Ctx, Rng, Scenario, Violation, check};

use crate::waker::{WakerCell, new_waker};

#[derive(Clone, Copy, Debug, Serialize, Deserialize, PartialEq, Eq)]
pub enum AOp {
    /// Register awaiter i (or replace its waker if it is already registered) with a fresh waker.
    Register(u8),
    Unregister(u8),
    NotifyOne,
    Advance,
    NotifyPrior,
    /// `take_notification` on awaiter i.
    Take(u8),
}

#[derive(Clone, Debug, Serialize, Deserialize)]
pub struct AsetScenario {
    n: u8,
    ops: Vec<AOp>,
}

#[derive(Clone, Copy, PartialEq, Eq, Debug)]
enum Life {
    Idle,
    Waiting,
    Notified,
}

struct Arena {
    base: *mut Awaiter,
    n: usize,
}

impl Arena {
    fn new(n: usize) -> Self {
        let b: Box<[Awaiter]> = (0..n).map(|_| Awaiter::new()).collect();
        let base = Box::into_raw(b).cast::<Awaiter>();
        Self { base, n }
    }
    fn shared(&self, i: usize) -> &Awaiter {
        assert!(i < self.n);
        // SAFETY: in bounds of the arena allocation, which lives until drop; Awaiter's public API
        // is &self-only.
        unsafe { &*self.base.add(i) }
    }
    /// # Safety
    /// No other reference to awaiter `i` may be live (the set only holds raw pointers).
    unsafe fn pinned(&self, i: usize) -> Pin<&mut Awaiter> {
        assert!(i < self.n);
        // SAFETY: in bounds; the arena never moves; exclusivity per the contract above.
        unsafe { Pin::new_unchecked(&mut *self.base.add(i)) }
    }
}

impl Drop for Arena {
    fn drop(&mut self) {
        // SAFETY: base/n came from Box::into_raw of a boxed slice of exactly n awaiters.
        drop(unsafe { Box::from_raw(std::ptr::slice_from_raw_parts_mut(self.base, self.n)) });
    }
}

struct Model {
    /// Registered awaiters, head first.
    list: Vec<usize>,
    life: Vec<Life>,
    generation_of: Vec<u64>,
    generation: u64,
    /// Index into `cells` of the waker currently stored for the awaiter.
    waker_of: Vec<Option<usize>>,
}

fn identify_woken(cells: &[Arc<WakerCell>], seen_wakes: &mut [u32]) -> Vec<usize> {
    let mut v = Vec::new();
    for (i, c) in cells.iter().enumerate() {
        let w = c.wakes.load(Ordering::Relaxed);
        if w != seen_wakes[i] {
            seen_wakes[i] = w;
            v.push(i);
        }
    }
    v
}

impl Scenario for AsetScenario {
    fn generate(rng: &mut Rng, _mode: &str) -> Self {
        let n = rng.range(1, 6) as u8;
        let len = if cfg!(miri) { rng.range_usize(1, 24) } else { rng.range_usize(1, 48) };
        // Swarm: per-run weights so that some runs are registration-heavy (long lists), some
        // notification-heavy, some generation-heavy.
        let w: Vec<u32> = (0..6).map(|_| rng.range(0, 6) as u32).collect();
        let w = if w.iter().all(|x| *x == 0) { vec![1; 6] } else { w };
        let w = [w[0] + 2, w[1], w[2], w[3], w[4], w[5]];
        let ops = (0..len)
            .map(|_| match rng.weighted(&w) {
                0 => AOp::Register(rng.below(u64::from(n)) as u8),
                1 => AOp::Unregister(rng.below(u64::from(n)) as u8),
                2 => AOp::NotifyOne,
                3 => AOp::Advance,
                4 => AOp::NotifyPrior,
                _ => AOp::Take(rng.below(u64::from(n)) as u8),
            })
            .collect();
        Self { n, ops }
    }

    fn run(&self, ctx: &mut Ctx) -> Result<bool, Violation> {
        let n = usize::from(self.n).clamp(1, 8);
        let arena = Arena::new(n);
        let mut set = AwaiterSet::new();
        let mut m = Model {
            list: Vec::new(),
            life: vec![Life::Idle; n],
            generation_of: vec![0; n],
            generation: 1,
            waker_of: vec![None; n],
        };
        let mut cells: Vec<Arc<WakerCell>> = Vec::new();
        let mut seen_wakes: Vec<u32> = Vec::new();
        let mut notified_any = false;
        let mut max_len = 0;

        let r = self.run_ops(ctx, n, &arena, &mut set, &mut m, &mut cells, &mut seen_wakes, &mut notified_any, &mut max_len);

        // Whatever happened, leave no registered awaiter behind before the arena is freed.
        if r.is_err() {
            for i in 0..n {
                if arena.shared(i).is_registered() && !arena.shared(i).is_notified() {
                    // SAFETY: the awaiter is registered with `set`; no other reference is live.
                    unsafe { set.unregister(arena.pinned(i)) };
                }
            }
            return r.map(|()| false);
        }
        Ok(notified_any && max_len >= 2)
    }

    fn shrink(&self) -> Vec<Self> {
        let mut out: Vec<Self> = simkit::shrink::remove_chunks(&self.ops)
            .into_iter()
            .map(|ops| Self { n: self.n, ops })
            .collect();
        if self.n > 1 {
            let n = self.n - 1;
            out.push(Self {
                n,
                ops: self
                    .ops
                    .iter()
                    .filter(|o| !matches!(o, AOp::Register(i) | AOp::Unregister(i) | AOp::Take(i) if *i >= n))
                    .copied()
                    .collect(),
            });
        }
        out
    }

    fn size(&self) -> usize {
        self.ops.len() * 4 + usize::from(self.n)
    }
}

impl AsetScenario {
    #[allow(clippy::too_many_arguments)]
    fn run_ops(
        &self,
        ctx: &mut Ctx,
        n: usize,
        arena: &Arena,
        set: &mut AwaiterSet,
        m: &mut Model,
        cells: &mut Vec<Arc<WakerCell>>,
        seen_wakes: &mut Vec<u32>,
        notified_any: &mut bool,
        max_len: &mut usize,
    ) -> Result<(), Violation> {
        let pos_of = |m: &Model, j: usize| -> &'static str {
            if m.list.first() == Some(&j) {
                "head"
            } else if m.list.last() == Some(&j) {
                "tail"
            } else {
                "middle"
            }
        };
        for (k, op) in self.ops.iter().enumerate() {
            match *op {
                AOp::Register(i) => {
                    let i = usize::from(i);
                    if i >= n || m.life[i] == Life::Notified {
                        continue; // contract: a notified awaiter must consume the notification first
                    }
                    let cell = Arc::new(WakerCell::default());
                    let waker = new_waker(&cell);
                    cells.push(Arc::clone(&cell));
                    seen_wakes.push(0);
                    // SAFETY: awaiter i stays pinned in the arena and is unregistered / notified
                    // before the arena is freed; no other reference to it is live.
                    unsafe { set.register(arena.pinned(i), waker) };
                    if m.life[i] == Life::Waiting {
                        // Waker replaced: the previous one must have been dropped, not woken.
                        let old = m.waker_of[i].expect("waiting awaiter has a waker");
                        check!(
                            cells[old].alive() == 0 && cells[old].wakes.load(Ordering::Relaxed) == seen_wakes[old],
                            "aset-replaced-waker-not-dropped",
                            "op {k}: re-register of awaiter {i} left the previous waker alive or woke it"
                        );
                        ctx.probe("aset:re-register");
                    } else {
                        m.list.push(i);
                        m.generation_of[i] = m.generation;
                        m.life[i] = Life::Waiting;
                    }
                    m.waker_of[i] = Some(cells.len() - 1);
                    ctx.event(0x100 + i as u64, || format!("register({i})"));
                }
                AOp::Unregister(i) => {
                    let i = usize::from(i);
                    if i >= n || m.life[i] == Life::Idle {
                        continue; // contract: must be registered or notified
                    }
                    // SAFETY: awaiter i is registered with (or was notified by) this set.
                    unsafe { set.unregister(arena.pinned(i)) };
                    if m.life[i] == Life::Waiting {
                        ctx.probe(match pos_of(m, i) {
                            "head" if m.list.len() == 1 => "aset:unregister-only",
                            "head" => "aset:unregister-head",
                            "tail" => "aset:unregister-tail",
                            _ => "aset:unregister-middle",
                        });
                        m.list.retain(|x| *x != i);
                        m.life[i] = Life::Idle;
                        let old = m.waker_of[i].take().expect("waiting awaiter has a waker");
                        check!(
                            cells[old].alive() == 0,
                            "aset-unregister-kept-waker",
                            "op {k}: unregister({i}) did not drop the stored waker"
                        );
                    } else {
                        ctx.probe("aset:unregister-notified-noop");
                    }
                    ctx.event(0x200 + i as u64, || format!("unregister({i})"));
                }
                AOp::NotifyOne | AOp::NotifyPrior => {
                    let prior = *op == AOp::NotifyPrior;
                    let eligible: Vec<usize> = m
                        .list
                        .iter()
                        .copied()
                        .filter(|j| !prior || m.generation_of[*j] < m.generation)
                        .collect();
                    let got = if prior { set.notify_one_prior_generation() } else { set.notify_one() };
                    let name = if prior { "notify_one_prior_generation" } else { "notify_one" };
                    match got {
                        None => {
                            check!(
                                eligible.is_empty(),
                                "aset-notify-none-but-eligible",
                                "op {k}: {name} returned None although awaiters {eligible:?} are eligible (list {:?}, generation {})",
                                m.list,
                                m.generation
                            );
                            if prior && !m.list.is_empty() {
                                ctx.probe("aset:prior-skips-current-generation");
                            }
                            ctx.event(0x300 + u64::from(prior), || format!("{name} -> None"));
                        }
                        Some(w) => {
                            w.wake();
                            let woken = identify_woken(cells, seen_wakes);
                            check!(woken.len() == 1, "aset-notify-wrong-waker", "op {k}: {name} returned a waker that woke cells {woken:?}");
                            let cell = woken[0];
                            let j = (0..n).find(|j| m.waker_of[*j] == Some(cell));
                            check!(
                                j.is_some_and(|j| m.life[j] == Life::Waiting),
                                "aset-notify-stale-waker",
                                "op {k}: {name} returned waker #{cell}, which is not the latest waker of any registered awaiter"
                            );
                            let j = j.expect("checked");
                            check!(
                                eligible.contains(&j),
                                "aset-notify-ineligible",
                                "op {k}: {name} picked awaiter {j} (generation {}, set generation {}), eligible {eligible:?}",
                                m.generation_of[j],
                                m.generation
                            );
                            ctx.probe(match pos_of(m, j) {
                                "head" => "aset:notify-picked-head",
                                "tail" => "aset:notify-picked-tail",
                                _ => "aset:notify-picked-middle",
                            });
                            m.list.retain(|x| *x != j);
                            m.life[j] = Life::Notified;
                            m.waker_of[j] = None;
                            *notified_any = true;
                            ctx.event(0x400 + (j as u64) * 2 + u64::from(prior), || format!("{name} -> awaiter {j}"));
                        }
                    }
                }
                AOp::Advance => {
                    set.advance_generation();
                    m.generation += 1;
                    ctx.event(0x500, || "advance_generation".into());
                }
                AOp::Take(i) => {
                    let i = usize::from(i);
                    if i >= n {
                        continue;
                    }
                    let got = arena.shared(i).take_notification();
                    check!(
                        got == (m.life[i] == Life::Notified),
                        "aset-take-notification-mismatch",
                        "op {k}: take_notification({i}) = {got}, model says {:?}",
                        m.life[i]
                    );
                    if got {
                        m.life[i] = Life::Idle;
                    }
                    ctx.event(0x600 + (i as u64) * 2 + u64::from(got), || format!("take_notification({i}) -> {got}"));
                }
            }
            *max_len = (*max_len).max(m.list.len());
            // After every operation: the observable state equals the model.
            check!(
                set.is_empty() == m.list.is_empty(),
                "aset-is-empty-mismatch",
                "after op {k} ({op:?}): is_empty() = {}, model list {:?}",
                set.is_empty(),
                m.list
            );
            for i in 0..n {
                let a = arena.shared(i);
                check!(
                    a.is_registered() == (m.life[i] != Life::Idle) && a.is_notified() == (m.life[i] == Life::Notified),
                    "aset-lifecycle-mismatch",
                    "after op {k} ({op:?}): awaiter {i} is_registered={} is_notified={}, model {:?}",
                    a.is_registered(),
                    a.is_notified(),
                    m.life[i]
                );
            }
        }

        // Final drain: the list must hand out exactly the awaiters the model still holds, each once,
        // each with its latest waker (a broken link shows up here at the latest).
        let mut drained = Vec::new();
        for _ in 0..=n {
            let Some(w) = set.notify_one() else { break };
            w.wake();
            let woken = identify_woken(cells, seen_wakes);
            check!(woken.len() == 1, "aset-notify-wrong-waker", "final drain: a returned waker woke cells {woken:?}");
            let j = (0..n).find(|j| m.waker_of[*j] == Some(woken[0]));
            check!(
                j.is_some_and(|j| m.life[j] == Life::Waiting && !drained.contains(&j)),
                "aset-drain-mismatch",
                "final drain returned waker #{} which is not the latest waker of a still-registered awaiter (model list {:?}, drained {drained:?})",
                woken[0],
                m.list
            );
            let j = j.expect("checked");
            drained.push(j);
            m.life[j] = Life::Notified;
            m.waker_of[j] = None;
        }
        let mut want = m.list.clone();
        want.sort_unstable();
        let mut have = drained.clone();
        have.sort_unstable();
        check!(
            want == have && set.is_empty(),
            "aset-drain-mismatch",
            "final drain handed out awaiters {drained:?}, the model list was {:?}; is_empty() = {}",
            m.list,
            set.is_empty()
        );
        ctx.event(drained.len() as u64, || format!("final drain: {drained:?}"));
        for i in 0..n {
            let a = arena.shared(i);
            check!(
                a.is_registered() == (m.life[i] != Life::Idle),
                "aset-lifecycle-mismatch",
                "after the final drain awaiter {i} is_registered={}, model {:?}",
                a.is_registered(),
                m.life[i]
            );
            let _ = a.take_notification();
        }
        for (i, c) in cells.iter().enumerate() {
            check!(
                c.alive() == 0,
                "waker-leaked",
                "waker #{i}: {} reference(s) still alive at the end",
                c.alive()
            );
        }
        Ok(())
    }
}
