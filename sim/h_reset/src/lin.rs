//! Extension of `simkit::lin` (Wing–Gong search with memoisation, nondeterministic specification)
//! needed for these histories:
//!
//! * an explicit program-order predecessor per operation (`prev`), used to sequence the three steps
//!   of a thread-safe manual `set` that share one interval;
//! * an *effective* invocation stamp (`inv_eff`), which may lie before the recorded one for
//!   operations whose result comes from a plain atomic load: such a load may legally return a value
//!   that is stale w.r.t. operations of other threads that completed earlier in stamp order but do
//!   not happen-before it. Program order is kept through `prev`;
//! * the single-threaded drain phase (`tail`) is not searched but replayed from every final state
//!   the search reaches, and the specification states along the witness are returned (probes);
//! * no allocation per step and a cheap hasher: the checker itself is interpreted under Miri.
//!
//! With `inv_eff == inv` everywhere and no sub-steps the rule is exactly `simkit::lin`'s; native
//! runs cross-check the two (see `judge`).

use std::collections::HashSet;
use std::hash::{BuildHasherDefault, Hasher};

use crate::spec::{Res, S, SOp, Succ};

#[derive(Clone, Debug)]
pub struct LOp {
    pub thread: usize,
    pub inv: u64,
    pub ret: u64,
    pub inv_eff: u64,
    pub prev: Option<usize>,
    pub op: SOp,
    pub res: Res,
}

#[derive(Default)]
pub struct MixHasher(u64);

impl Hasher for MixHasher {
    fn finish(&self) -> u64 {
        self.0
    }
    fn write(&mut self, bytes: &[u8]) {
        for b in bytes {
            self.write_u64(u64::from(*b));
        }
    }
    fn write_u64(&mut self, x: u64) {
        self.0 = (self.0 ^ x).wrapping_mul(0x9E37_79B9_7F4A_7C15).rotate_left(29);
    }
    fn write_u128(&mut self, x: u128) {
        self.write_u64(x as u64);
        self.write_u64((x >> 64) as u64);
    }
    fn write_usize(&mut self, x: usize) {
        self.write_u64(x as u64);
    }
}

type Memo<K> = HashSet<K, BuildHasherDefault<MixHasher>>;
pub type StepFn<'a> = &'a dyn Fn(&S, &SOp, &mut Succ);

pub struct Witness {
    /// Search nodes expanded.
    pub visited: u64,
    /// Indexes into `conc` in linearization order.
    pub order: Vec<usize>,
    /// Specification state before each operation of `order` followed by `tail`, plus the final one.
    pub states: Vec<S>,
}

struct Search<'a> {
    conc: &'a [LOp],
    tail: &'a [(SOp, Res)],
    step: StepFn<'a>,
    full: u64,
    seen: Memo<(u64, u128)>,
    tail_failed: Memo<(usize, u128)>,
    order: Vec<usize>,
    path: Vec<S>,
    pub deepest_tail: usize,
    pub visited: u64,
}

impl Search<'_> {
    fn tail_go(&mut self, k: usize) -> bool {
        if k == self.tail.len() {
            return true;
        }
        self.deepest_tail = self.deepest_tail.max(k);
        let cur = *self.path.last().expect("path never empty");
        if self.tail_failed.contains(&(k, cur.packed())) {
            return false;
        }
        let mut succ = Succ::new();
        (self.step)(&cur, &self.tail[k].0, &mut succ);
        for j in 0..succ.n {
            let (next, res) = succ.items[j];
            if res != self.tail[k].1 {
                continue;
            }
            self.path.push(next);
            if self.tail_go(k + 1) {
                return true;
            }
            self.path.pop();
        }
        self.tail_failed.insert((k, cur.packed()));
        false
    }

    fn dfs(&mut self, done: u64) -> bool {
        if done == self.full {
            return self.tail_go(0);
        }
        let state = *self.path.last().expect("path never empty");
        if !self.seen.insert((done, state.packed())) {
            return false;
        }
        self.visited += 1;
        let n = self.conc.len();
        let mut min_ret = u64::MAX;
        for i in 0..n {
            if done & (1 << i) == 0 {
                min_ret = min_ret.min(self.conc[i].ret);
            }
        }
        let mut succ = Succ::new();
        for i in 0..n {
            let h = &self.conc[i];
            if done & (1 << i) != 0 || h.inv_eff > min_ret {
                continue;
            }
            if let Some(p) = h.prev {
                if done & (1 << p) == 0 {
                    continue;
                }
            }
            (self.step)(&state, &h.op, &mut succ);
            for j in 0..succ.n {
                let (next, res) = succ.items[j];
                if res != h.res {
                    continue;
                }
                self.order.push(i);
                self.path.push(next);
                if self.dfs(done | (1 << i)) {
                    return true;
                }
                self.path.pop();
                self.order.pop();
            }
        }
        false
    }
}

/// `Err(k)`: not linearizable; `k` = deepest index of `tail` any candidate linearization reached
/// (meaningful when `conc` is empty: the first operation the specification rejects).
pub fn lin_ext(init: S, conc: &[LOp], tail: &[(SOp, Res)], step: StepFn<'_>) -> Result<Witness, usize> {
    assert!(conc.len() < 64, "history too long for the checker");
    let mut s = Search {
        conc,
        tail,
        step,
        full: (1_u64 << conc.len()) - 1,
        seen: Memo::default(),
        tail_failed: Memo::default(),
        order: Vec::new(),
        path: vec![init],
        deepest_tail: 0,
        visited: 0,
    };
    if s.dfs(0) { Ok(Witness { visited: s.visited, order: s.order, states: s.path }) } else { Err(s.deepest_tail) }
}
