//! Nondeterministic sequential specification of the reset events (DESIGN §5 C08). It states what
//! the property states and nothing else.
//!
//! State: one flag (auto: a stored signal; manual: the gate is open) and one code per waiter.
//!
//! Auto-reset
//! * `set`: if some waiter is waiting, *one of them* (any) is notified and nothing is stored;
//!   otherwise one signal is stored (a second one coalesces).
//! * `try_wait`: returns and consumes the stored signal.
//! * `poll`: Ready if the waiter holds a notification (consumed) or a signal is stored (consumed;
//!   which of the two when both exist is not specified); otherwise the waiter is waiting (with the
//!   waker of this poll) and the result is Pending.
//! * `drop`: a waiting waiter just leaves; a waiter that holds a notification passes it on: to one
//!   waiting waiter (any) if there is one, else it is stored as the signal.
//!
//! Manual-reset
//! * `set`: opens the gate and releases every waiter that is waiting. For the thread-safe event a
//!   concurrent history sees `set` as three steps inside the call's interval — `SetFlag` (gate
//!   open), `SetMark` (the waiters waiting at this instant are the ones this call releases) and
//!   `SetDone` (all of them released) — because the property promises release of "every wait that is
//!   registered when set returns", not atomicity of the flag with the drain: between `SetMark` and
//!   `SetDone` a marked waiter's poll may still say Pending (it is then re-registered with the new
//!   waker, and that waker is the one that must be invoked).
//! * `reset` closes the gate; `try_wait` reads it; `poll` is Ready when the gate is open or the
//!   waiter was released, else the waiter is waiting; `drop` has no visible effect.
//!
//! Wake-up obligation ("a waiter that must be released has its latest waker invoked"): every `Poll`
//! carries `woken` — whether the waker handed to *that* poll had been invoked by quiescence. In
//! strict mode a transition that notifies / releases a waiter is only allowed when the waker of its
//! latest Pending poll was invoked. (If a history is explained only without that requirement, the
//! verdict is `lost-wakeup` instead of `not-linearizable`.)

pub const MAXW: usize = 8;

pub const W_IDLE: u8 = 0;
/// Waiting; +1 if the waker of the latest Pending poll was invoked by quiescence.
pub const W_WAIT: u8 = 1;
/// Auto: holds a notification. Manual: released.
pub const W_NOTIFIED: u8 = 3;
/// Manual, thread-safe: `W_MARK + 2 * set_id + woken` — marked for release by in-flight set `set_id`.
pub const W_MARK: u8 = 0x20;

pub fn is_waiting(c: u8) -> bool {
    c == W_WAIT || c == W_WAIT + 1
}

#[derive(Clone, Copy, PartialEq, Eq, Hash, Debug, Default)]
pub struct S {
    pub flag: bool,
    pub w: [u8; MAXW],
}

#[derive(Clone, PartialEq, Eq, Hash, Debug)]
pub enum SOp {
    Set,
    SetFlag(u8),
    SetMark(u8),
    SetDone(u8),
    Reset,
    TryWait,
    Poll { w: u8, woken: bool },
    Drop { w: u8 },
}

#[derive(Clone, Copy, PartialEq, Eq, Debug)]
pub enum Res {
    Unit,
    Bool(bool),
    Ready,
    Pending,
}

/// Successors of one specification step (no allocation: the checker runs interpreted under Miri).
pub struct Succ {
    pub n: usize,
    pub items: [(S, Res); MAXW + 1],
}

impl Succ {
    pub fn new() -> Self {
        Self { n: 0, items: [(S { flag: false, w: [0; MAXW] }, Res::Unit); MAXW + 1] }
    }
    fn push(&mut self, x: (S, Res)) {
        self.items[self.n] = x;
        self.n += 1;
    }
    pub fn as_slice(&self) -> &[(S, Res)] {
        &self.items[..self.n]
    }
}

impl S {
    pub fn packed(&self) -> u128 {
        let mut x = u128::from(self.flag);
        for c in self.w {
            x = (x << 8) | u128::from(c);
        }
        x
    }
}

/// Auto: hands one signal to a waiting waiter (any) or stores it.
fn auto_signal(s: &S, strict: bool, out: &mut Succ) {
    let mut any = false;
    for i in 0..MAXW {
        if is_waiting(s.w[i]) {
            any = true;
            if s.w[i] == W_WAIT + 1 || !strict {
                let mut n = s.clone();
                n.w[i] = W_NOTIFIED;
                out.push((n, Res::Unit));
            }
        }
    }
    if !any {
        let mut n = s.clone();
        n.flag = true;
        out.push((n, Res::Unit));
    }
}

pub fn step_vec(manual: bool, strict: bool, s: &S, op: &SOp) -> Vec<(S, Res)> {
    let mut out = Succ::new();
    step(manual, strict, s, op, &mut out);
    out.as_slice().to_vec()
}

pub fn step(manual: bool, strict: bool, s: &S, op: &SOp, out: &mut Succ) {
    out.n = 0;
    if manual {
        match op {
            SOp::Set => {
                let mut n = s.clone();
                n.flag = true;
                for c in &mut n.w {
                    if is_waiting(*c) {
                        if *c == W_WAIT && strict {
                            return;
                        }
                        *c = W_NOTIFIED;
                    }
                }
                out.push((n, Res::Unit));
            }
            SOp::SetFlag(_) => {
                let mut n = s.clone();
                n.flag = true;
                out.push((n, Res::Unit));
            }
            SOp::SetMark(id) => {
                let mut n = s.clone();
                for c in &mut n.w {
                    if is_waiting(*c) {
                        *c = W_MARK + 2 * id + (*c - W_WAIT);
                    }
                }
                out.push((n, Res::Unit));
            }
            SOp::SetDone(id) => {
                let mut n = s.clone();
                for c in &mut n.w {
                    if *c >= W_MARK && (*c - W_MARK) / 2 == *id {
                        if (*c - W_MARK) % 2 == 0 && strict {
                            return;
                        }
                        *c = W_NOTIFIED;
                    }
                }
                out.push((n, Res::Unit));
            }
            SOp::Reset => {
                let mut n = s.clone();
                n.flag = false;
                out.push((n, Res::Unit));
            }
            SOp::TryWait => out.push((*s, Res::Bool(s.flag))),
            SOp::Poll { w, woken } => {
                let i = *w as usize;
                let c = s.w[i];
                if s.flag || c == W_NOTIFIED {
                    let mut n = s.clone();
                    n.w[i] = W_IDLE;
                    out.push((n, Res::Ready));
                } else if c >= W_MARK {
                    if (c - W_MARK) % 2 == 1 || !strict {
                        let mut n = s.clone();
                        n.w[i] = W_IDLE;
                        out.push((n, Res::Ready));
                    }
                    let mut n = s.clone();
                    n.w[i] = ((c - W_MARK) / 2) * 2 + W_MARK + u8::from(*woken);
                    out.push((n, Res::Pending));
                } else {
                    let mut n = s.clone();
                    n.w[i] = W_WAIT + u8::from(*woken);
                    out.push((n, Res::Pending));
                }
            }
            SOp::Drop { w } => {
                let mut n = s.clone();
                n.w[*w as usize] = W_IDLE;
                out.push((n, Res::Unit));
            }
        }
    } else {
        match op {
            SOp::Set => auto_signal(s, strict, out),
            SOp::TryWait => {
                let mut n = s.clone();
                n.flag = false;
                out.push((n, Res::Bool(s.flag)));
            }
            SOp::Poll { w, woken } => {
                let i = *w as usize;
                let c = s.w[i];
                if c == W_NOTIFIED {
                    let mut n = s.clone();
                    n.w[i] = W_IDLE;
                    out.push((n, Res::Ready));
                }
                if s.flag {
                    // The stored signal is consumed; a notification the waiter may hold stays with
                    // it (and is passed on when the completed future is dropped).
                    let mut n = s.clone();
                    n.flag = false;
                    out.push((n, Res::Ready));
                }
                if c != W_NOTIFIED && !s.flag {
                    let mut n = s.clone();
                    n.w[i] = W_WAIT + u8::from(*woken);
                    out.push((n, Res::Pending));
                }
            }
            SOp::Drop { w } => {
                let i = *w as usize;
                let mut n = s.clone();
                n.w[i] = W_IDLE;
                if s.w[i] == W_NOTIFIED {
                    auto_signal(&n, strict, out);
                } else {
                    out.push((n, Res::Unit));
                }
            }
            SOp::Reset | SOp::SetFlag(_) | SOp::SetMark(_) | SOp::SetDone(_) => {
                unreachable!("manual-only operation in an auto-reset history")
            }
        }
    }
}
