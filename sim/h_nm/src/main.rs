//! Harness for property C16 (packages `nm` / `nm_impl`): metrics reports account for every
//! observation exactly once.
//!
//! Modes
//! * `strict` — native, operation-granular coordinator: long generated histories of build /
//!   observe (all public variants) / batch / push / report / spawn / thread exit over several
//!   event names and threads; every report is quiescent and must equal the reference aggregation.
//! * `tiny`   — the same engine with small limits, meant for Miri (UB oracle over the unsafe
//!   bucket indexing incl. the ≥ 63-bucket drain path, dev and release).
//! * `conc`   — free-running threads behind a start gate with reports taken concurrently
//!   (Miri's seeded scheduler; also runnable natively with real parallelism, non-deterministic).
//!
//! No hook in /repo is used. Registries are process-global: each run uses fresh event names
//! derived from a per-process counter that is never logged or hashed, and oracles only look at the
//! run's own names. Nothing depends on `HashMap` iteration order (entries are looked up by name;
//! the report itself is sorted by name).

mod conc;
mod draw;
mod hist;
mod model;
mod sut;

use simkit::entry;

/// Keys of known defects whose triggers ordinary modes must not generate. None for C16.
#[allow(dead_code)]
const AVOID_KNOWN: &[&str] = &[];

fn main() {
    simkit::cli_main(
        "h_nm",
        vec![
            entry::<hist::Strict>("C16", "strict", "coordinator histories: quiescent reports equal the reference aggregation"),
            entry::<hist::Strict>("C16", "tiny", "small coordinator histories (for Miri: UB oracle on the bucket copy paths)"),
            entry::<conc::Conc>("C16", "conc", "free-running threads; reports concurrent with observe / push / thread exit"),
        ],
    )
}
