//! Mode `conc`: 1–3 free-running threads behind a start gate, each executing a tiny script and
//! then exiting, while the driver's thread (and sometimes a worker) takes reports. Under Miri the
//! interpreter's seeded scheduler decides every preemption inside `Report::collect`, `observe`,
//! `push` and the thread-local registry's teardown.
//!
//! What each thread publishes is fully determined by its own script (a push instance publishes
//! what it had observed at its last push), so the *final* quiescent report must equal the model on
//! every schedule. Reports taken while others run are checked per counter (count, each configured
//! bucket, and the sum when all magnitudes of the event are non-negative):
//!   * upper bound: no more than what every thread can have published through operations that
//!     *started* before the report ended (a relaxed global stamp per operation start) — a thread
//!     whose bag is seen both in the live map and in the archive breaks this;
//!   * lower bound: at least what the reporting thread itself has published, plus the full share
//!     of every thread the reporter has joined, plus what a thread had published at a point the
//!     reporter has synchronised with (`WaitFor`: release store / acquire load of the worker's
//!     progress, the only happens-before edge the harness adds) — a thread that is momentarily in
//!     neither the live map nor the archive breaks this;
//!   * monotone: successive reports of one thread never go down — a thread that is momentarily in
//!     neither the live map nor the archive breaks this.
//! The synthetic overflow bucket is `count - sum(buckets)` of fields read at different instants
//! (documented as possibly torn), so it is only compared in the final report.

use std::cell::RefCell;
use std::collections::{BTreeMap, BTreeSet};
use std::sync::Arc;
use std::sync::atomic::{AtomicBool, AtomicU64, AtomicUsize, Ordering};

use serde::{Deserialize, Serialize};
use simkit::{Ctx, Rng, Scenario, Violation, check};

use crate::draw;
use crate::model::{Agg, EventDef, How, Kind, Seen, compare_exact};
use crate::sut::{self, Shared};

#[derive(Clone, Debug, Serialize, Deserialize, PartialEq)]
pub enum WOp {
    Build { ev: usize, kind: Kind },
    Observe { ev: usize, how: How, m: i64, n: u64 },
    Push { p: u8 },
    Report,
    Yield(u8),
    /// Spin (yielding, at most `spins` times) until `n` reports have completed anywhere in the run:
    /// keeps a thread (and its live bags) around while reporters cycle, so that its exit lands in
    /// the middle of their reports rather than before the first one ends. Bounded, so it can never
    /// deadlock with the driver's `WaitFor`.
    AwaitReports { n: u8, spins: u16 },
}

#[derive(Clone, Debug, Serialize, Deserialize, PartialEq)]
pub enum MOp {
    Report,
    Yield(u8),
    Join(usize),
    /// Spin (yielding) until worker `w` has completed `done` of its ops; `done` beyond the script
    /// length means "the worker's closure is returning" (thread-local teardown follows). Aligns a
    /// report with a chosen point of another thread's life; the oracle does not depend on it.
    WaitFor { w: usize, done: usize },
}

#[derive(Clone, Debug, Serialize, Deserialize)]
pub struct ConcScenario {
    pub events: Vec<EventDef>,
    pub workers: Vec<Vec<WOp>>,
    pub main: Vec<MOp>,
}

fn gen_worker(rng: &mut Rng, events: &[EventDef], shared_ev: usize, w: usize) -> Vec<WOp> {
    let n_ev = events.len();
    let mut ops = Vec::new();
    let mut built: BTreeMap<usize, Kind> = BTreeMap::new();
    let kind_of = |rng: &mut Rng| match rng.weighted(&[4, 4, 1, 1]) {
        0 => Kind::Pull,
        1 => Kind::Push(0),
        2 => Kind::Push(1),
        _ => Kind::Push(2),
    };
    // First op: build either the event everybody shares or "its own" one.
    let first = if rng.chance(1, 2) { shared_ev } else { (shared_ev + 1 + w) % n_ev };
    let k = kind_of(rng);
    built.insert(first, k);
    ops.push(WOp::Build { ev: first, kind: k });
    let len = rng.range_usize(2, 8);
    while ops.len() < len {
        match rng.weighted(&[2, 7, 3, 1, 2]) {
            0 => {
                let ev = rng.below_usize(n_ev);
                if built.contains_key(&ev) {
                    continue;
                }
                let k = kind_of(rng);
                built.insert(ev, k);
                ops.push(WOp::Build { ev, kind: k });
            }
            1 => {
                let evs: Vec<usize> = built.keys().copied().collect();
                let ev = *rng.pick(&evs);
                let b = &events[ev].buckets;
                let m = if rng.chance(1, 5) { draw::magnitude(rng, b) } else { draw::magnitude(rng, b).max(0) };
                let how = match rng.weighted(&[6, 3, 1, 1]) {
                    0 => How::Observe,
                    1 => How::Batch,
                    2 => How::Once,
                    _ => How::BatchOnce,
                };
                ops.push(WOp::Observe { ev, how, m, n: rng.range(0, 3) });
            }
            2 => {
                let ps: Vec<u8> = built.values().filter_map(|k| if let Kind::Push(p) = k { Some(*p) } else { None }).collect();
                if ps.is_empty() {
                    if rng.chance(1, 4) {
                        ops.push(WOp::Push { p: rng.below(3) as u8 });
                    }
                    continue;
                }
                ops.push(WOp::Push { p: *rng.pick(&ps) });
            }
            3 => ops.push(WOp::Report),
            _ => ops.push(WOp::Yield(rng.range(1, 3) as u8)),
        }
    }
    if rng.chance(1, 2) {
        ops.push(WOp::AwaitReports { n: rng.range(1, 3) as u8, spins: rng.range(200, 3000) as u16 });
        if rng.chance(1, 3) {
            let evs: Vec<usize> = built.keys().copied().collect();
            let ev = *rng.pick(&evs);
            ops.push(WOp::Observe { ev, how: How::Observe, m: draw::magnitude(rng, &events[ev].buckets).max(0), n: 1 });
        }
    }
    // Most threads that own push instances push before they exit (otherwise there is little to see).
    let ps: Vec<u8> = built.values().filter_map(|k| if let Kind::Push(p) = k { Some(*p) } else { None }).collect();
    if !ps.is_empty() && rng.chance(3, 4) {
        ops.push(WOp::Push { p: *rng.pick(&ps) });
        if rng.chance(1, 3) {
            ops.push(WOp::Yield(rng.range(1, 2) as u8));
        }
    }
    ops
}

fn generate(rng: &mut Rng) -> ConcScenario {
    let n_events = rng.range_usize(1, 3);
    let events: Vec<EventDef> = (0..n_events).map(|_| draw::event_def(rng, true, false)).collect();
    let n_workers = 1 + rng.weighted(&[2, 5, 3]);
    let shared_ev = rng.below_usize(n_events);
    let mut workers: Vec<Vec<WOp>> = (0..n_workers).map(|w| gen_worker(rng, &events, shared_ev, w)).collect();
    // A second reporter, out of phase with the driver's: an exiting thread that has to wait for
    // one report to release the registry gives the other report time to queue up right behind it.
    if rng.chance(2, 5) {
        let mut script = Vec::new();
        for _ in 0..rng.range_usize(3, 6) {
            if rng.chance(1, 3) {
                script.push(WOp::Yield(rng.range(1, 5) as u8));
            }
            script.push(WOp::Report);
        }
        workers.push(script);
    }
    let mut main = Vec::new();
    // Directed prefix (most runs): a report once a chosen worker has made its observations, then
    // reports aimed at that worker's exit, a PRNG-chosen number of yields after it announced it.
    if rng.chance(3, 4) {
        let w = rng.below_usize(n_workers);
        let len = workers[w].len();
        let last_data = workers[w]
            .iter()
            .rposition(|op| matches!(op, WOp::Observe { .. } | WOp::Push { .. }))
            .map_or(len, |i| i + 1);
        if rng.chance(1, 3) {
            main.push(MOp::Report);
        }
        main.push(MOp::WaitFor { w, done: last_data });
        main.push(MOp::Report);
        main.push(MOp::WaitFor { w, done: len + 1 });
        if rng.chance(1, 3) {
            // Back-to-back reports: each one that finds the exiting thread inside its archive step
            // queues on the registry lock and runs the moment that step releases it.
            for _ in 0..rng.range_usize(3, 5) {
                main.push(MOp::Report);
            }
        } else {
            for _ in 0..rng.range_usize(1, 3) {
                let j = match rng.weighted(&[2, 4, 3, 3]) {
                    0 => 0,
                    1 => rng.range(1, 6),
                    2 => rng.range(7, 40),
                    _ => rng.range(41, 250),
                };
                if j > 0 {
                    main.push(MOp::Yield(j as u8));
                }
                main.push(MOp::Report);
            }
        }
    }
    let n_reports = rng.range_usize(1, 4);
    let mut joins: Vec<usize> = (0..n_workers).collect();
    rng.shuffle(&mut joins);
    joins.truncate(rng.below_usize(n_workers + 1));
    for _ in 0..n_reports {
        if rng.chance(2, 3) {
            main.push(MOp::Yield(rng.range(1, 4) as u8));
        }
        main.push(MOp::Report);
        if !joins.is_empty() && rng.chance(1, 4) {
            main.push(MOp::Join(joins.pop().expect("non-empty")));
        }
    }
    ConcScenario { events, workers, main }
}

/// Published state of one worker after each of its ops (index k = after op k; index 0 of the
/// returned vector = before any op), and which ops are well-formed.
struct WorkerModel {
    valid: Vec<bool>,
    /// `states[k]`: published aggregate per event after the first `k` ops.
    states: Vec<BTreeMap<usize, Agg>>,
}

fn simulate(script: &[WOp], events: &[EventDef]) -> WorkerModel {
    struct I {
        kind: Kind,
        local: Agg,
        published: Agg,
    }
    let mut inst: BTreeMap<usize, I> = BTreeMap::new();
    let mut valid = Vec::with_capacity(script.len());
    let mut states = vec![BTreeMap::new()];
    for op in script {
        let ok = match op {
            WOp::Build { ev, kind } => {
                if *ev < events.len() && !inst.contains_key(ev) {
                    let nb = events[*ev].buckets.len();
                    inst.insert(*ev, I { kind: *kind, local: Agg::new(nb), published: Agg::new(nb) });
                    true
                } else {
                    false
                }
            }
            WOp::Observe { ev, how, m, n } => match inst.get_mut(ev) {
                Some(i) => match how.effective(*m, *n) {
                    (Some(me), ne) => {
                        i.local.observe(&events[*ev].buckets, me, ne);
                        if i.kind == Kind::Pull {
                            i.published = i.local.clone();
                        }
                        true
                    }
                    (None, _) => false,
                },
                None => false,
            },
            WOp::Push { p } => {
                for i in inst.values_mut() {
                    if i.kind == Kind::Push((*p).min(2)) {
                        i.published = i.local.clone();
                    }
                }
                true
            }
            WOp::Report | WOp::Yield(_) | WOp::AwaitReports { .. } => true,
        };
        valid.push(ok);
        states.push(inst.iter().map(|(e, i)| (*e, i.published.clone())).collect());
    }
    WorkerModel { valid, states }
}

struct Rep {
    s0: u64,
    s1: u64,
    seen: Result<Vec<Seen>, String>,
}

#[derive(Default)]
struct WorkerLog {
    starts: Vec<u64>,
    /// `(op index, report)`
    reports: Vec<(usize, Rep)>,
}

/// Progress of one worker as seen by the driver's `WaitFor`: number of completed ops; set to
/// `usize::MAX` when the worker's closure returns or unwinds (so a waiter can never spin forever).
struct Progress(Arc<AtomicUsize>);

impl Drop for Progress {
    fn drop(&mut self) {
        self.0.store(usize::MAX, Ordering::Release);
    }
}

struct Sentinel {
    clock: Arc<AtomicU64>,
    slot: Arc<AtomicU64>,
}

impl Drop for Sentinel {
    fn drop(&mut self) {
        self.slot.store(self.clock.fetch_add(1, Ordering::Relaxed) + 1, Ordering::Relaxed);
    }
}

thread_local! {
    // Two thread-local sentinels, one registered before nm's thread-local registry exists and one
    // after: whatever order the platform runs thread-local destructors in, the registry's
    // teardown (archiving) lies between the two stamps.
    static SENT_A: RefCell<Option<Sentinel>> = const { RefCell::new(None) };
    static SENT_B: RefCell<Option<Sentinel>> = const { RefCell::new(None) };
}

fn tick(clock: &AtomicU64) -> u64 {
    clock.fetch_add(1, Ordering::Relaxed) + 1
}

fn yield_some(k: u8) {
    for _ in 0..k {
        std::thread::yield_now();
    }
}

fn timed_report(sh: &Shared, clock: &AtomicU64, reports_done: &AtomicU64) -> Rep {
    let s0 = tick(clock);
    let seen = sut::collect(sh);
    let s1 = tick(clock);
    reports_done.fetch_add(1, Ordering::Relaxed);
    Rep { s0, s1, seen }
}

/// The counters that must be monotone while others run: count, (sum), each configured bucket.
fn counters(def: &EventDef, sum_ok: bool, count: u64, sum: i64, buckets: &[u64]) -> Vec<u128> {
    let mut v = Vec::with_capacity(2 + def.buckets.len());
    v.push(u128::from(count));
    if sum_ok {
        v.push(sum as u128);
    }
    for b in buckets.iter().take(def.buckets.len()) {
        v.push(u128::from(*b));
    }
    v
}

fn counter_name(sum_ok: bool, i: usize) -> String {
    match (i, sum_ok) {
        (0, _) => "count".to_owned(),
        (1, true) => "sum".to_owned(),
        (i, true) => format!("bucket {}", i - 2),
        (i, false) => format!("bucket {}", i - 1),
    }
}

fn seen_counters(def: &EventDef, sum_ok: bool, s: &Seen) -> Vec<u128> {
    match &s.hist {
        Some(h) => counters(def, sum_ok, s.count, s.sum, &h.1),
        None => counters(def, sum_ok, s.count, s.sum, &[]),
    }
}

fn agg_counters(def: &EventDef, sum_ok: bool, a: &Agg) -> Vec<u128> {
    counters(def, sum_ok, a.count, a.sum, &a.buckets)
}

fn hash_wop(op: &WOp) -> u64 {
    match op {
        WOp::Build { ev, kind } => simkit::mix(1, simkit::mix(*ev as u64, match kind { Kind::Pull => 0, Kind::Push(p) => 1 + u64::from(*p) })),
        WOp::Observe { ev, how, m, n } => simkit::mix(simkit::mix(2, *ev as u64), simkit::mix(how.code(), simkit::mix(*m as u64, *n))),
        WOp::Push { p } => simkit::mix(3, u64::from(*p)),
        WOp::Report => 4,
        WOp::Yield(y) => simkit::mix(5, u64::from(*y)),
        WOp::AwaitReports { n, spins } => simkit::mix(6, simkit::mix(u64::from(*n), u64::from(*spins))),
    }
}

fn run(sc: &ConcScenario, ctx: &mut Ctx) -> Result<bool, Violation> {
    let n_ev = sc.events.len();
    let nw = sc.workers.len();
    let sh = Arc::new(Shared::new(sc.events.iter().map(|e| e.buckets.clone())));
    let models: Vec<WorkerModel> = sc.workers.iter().map(|w| simulate(w, &sc.events)).collect();

    // Sums are compared as monotone counters only where they are monotone by construction.
    let sum_ok: Vec<bool> = (0..n_ev)
        .map(|ev| {
            let mut total: i64 = 0;
            for w in &sc.workers {
                for op in w {
                    if let WOp::Observe { ev: e, how, m, n } = op {
                        if *e == ev {
                            let (me, ne) = how.effective(*m, *n);
                            let Some(me) = me else { return false };
                            if me < 0 {
                                return false;
                            }
                            let Some(inc) = me.checked_mul(ne as i64) else { return false };
                            let Some(t) = total.checked_add(inc) else { return false };
                            total = t;
                        }
                    }
                }
            }
            true
        })
        .collect();

    let mut h = simkit::mix(n_ev as u64, nw as u64);
    for e in &sc.events {
        for b in &e.buckets {
            h = simkit::mix(h, *b as u64);
        }
        h = simkit::mix(h, 0xB);
    }
    for w in &sc.workers {
        h = simkit::mix(h, 0xA);
        for op in w {
            h = simkit::mix(h, hash_wop(op));
        }
    }
    for op in &sc.main {
        h = simkit::mix(h, match op {
            MOp::Report => 1,
            MOp::Yield(y) => simkit::mix(2, u64::from(*y)),
            MOp::Join(w) => simkit::mix(3, *w as u64),
            MOp::WaitFor { w, done } => simkit::mix(4, simkit::mix(*w as u64, *done as u64)),
        });
    }
    ctx.event(h, || format!("config: events {:?}, {} worker(s), main {:?}", sc.events, nw, sc.main));

    let clock = Arc::new(AtomicU64::new(0));
    let gate = Arc::new(AtomicBool::new(false));
    let reports_done = Arc::new(AtomicU64::new(0));
    let teardown: Vec<(Arc<AtomicU64>, Arc<AtomicU64>)> =
        (0..nw).map(|_| (Arc::new(AtomicU64::new(0)), Arc::new(AtomicU64::new(0)))).collect();

    let progress: Vec<Arc<AtomicUsize>> = (0..nw).map(|_| Arc::new(AtomicUsize::new(0))).collect();
    let mut handles: Vec<Option<std::thread::JoinHandle<WorkerLog>>> = Vec::new();
    for (w, script) in sc.workers.iter().enumerate() {
        let prog = Progress(Arc::clone(&progress[w]));
        let script = script.clone();
        let valid = models[w].valid.clone();
        let sh = Arc::clone(&sh);
        let clock = Arc::clone(&clock);
        let gate = Arc::clone(&gate);
        let reports_done = Arc::clone(&reports_done);
        let (ta, tb) = (Arc::clone(&teardown[w].0), Arc::clone(&teardown[w].1));
        let h = std::thread::Builder::new()
            .name(format!("conc-{w}"))
            .spawn(move || {
                SENT_A.with_borrow_mut(|s| *s = Some(Sentinel { clock: Arc::clone(&clock), slot: ta }));
                while !gate.load(Ordering::Acquire) {
                    std::thread::yield_now();
                }
                let mut log = WorkerLog::default();
                for (k, op) in script.iter().enumerate() {
                    prog.0.store(k, Ordering::Release);
                    log.starts.push(tick(&clock));
                    if !valid[k] {
                        continue;
                    }
                    match op {
                        WOp::Build { ev, kind } => {
                            sut::build(&sh, *ev, *kind);
                        }
                        WOp::Observe { ev, how, m, n } => {
                            sut::observe(*ev, *how, *m, *n, 0);
                        }
                        WOp::Push { p } => sut::push((*p).min(2)),
                        WOp::Report => log.reports.push((k, timed_report(&sh, &clock, &reports_done))),
                        WOp::Yield(y) => yield_some(*y),
                        WOp::AwaitReports { n, spins } => {
                            let mut left = *spins;
                            while left > 0 && reports_done.load(Ordering::Relaxed) < u64::from(*n) {
                                std::thread::yield_now();
                                left -= 1;
                            }
                        }
                    }
                }
                prog.0.store(script.len(), Ordering::Release);
                SENT_B.with_borrow_mut(|s| *s = Some(Sentinel { clock: Arc::clone(&clock), slot: tb }));
                drop(prog); // announces "returning" (also on unwind)
                log
            })
            .expect("spawn worker");
        handles.push(Some(h));
    }

    let mut logs: Vec<Option<WorkerLog>> = (0..nw).map(|_| None).collect();
    let mut join_stamp: Vec<Option<u64>> = vec![None; nw];
    let join = |w: usize, handles: &mut Vec<Option<std::thread::JoinHandle<WorkerLog>>>, logs: &mut Vec<Option<WorkerLog>>| -> Result<(), Violation> {
        if let Some(h) = handles[w].take() {
            match h.join() {
                Ok(l) => logs[w] = Some(l),
                Err(p) => {
                    let v = simkit::panic_violation(&p);
                    return Err(Violation::new(&v.class, format!("worker {w}: {}", v.detail)));
                }
            }
        }
        Ok(())
    };

    gate.store(true, Ordering::Release);
    let mut main_reports: Vec<Rep> = Vec::new();
    let mut joined_before: Vec<Vec<usize>> = Vec::new();
    // Per main report: how many ops of each worker are known (through a completed `WaitFor`, an
    // acquire load of the worker's release-stored progress) to have completed before it started.
    let mut known_done: Vec<usize> = vec![0; nw];
    let mut known_before: Vec<Vec<usize>> = Vec::new();
    let mut failure: Option<Violation> = None;
    for op in &sc.main {
        match op {
            MOp::Report => {
                joined_before.push((0..nw).filter(|w| join_stamp[*w].is_some()).collect());
                known_before.push(known_done.clone());
                main_reports.push(timed_report(&sh, &clock, &reports_done));
            }
            MOp::Yield(y) => yield_some(*y),
            MOp::WaitFor { w, done } => {
                if *w < nw {
                    let seen = loop {
                        let p = progress[*w].load(Ordering::Acquire);
                        if p >= *done {
                            break p;
                        }
                        std::thread::yield_now();
                    };
                    known_done[*w] = known_done[*w].max(seen.min(sc.workers[*w].len()));
                    ctx.probe("report-aligned-with-worker");
                }
            }
            MOp::Join(w) => {
                if *w < nw && join_stamp[*w].is_none() {
                    if let Err(v) = join(*w, &mut handles, &mut logs) {
                        failure.get_or_insert(v);
                    }
                    join_stamp[*w] = Some(tick(&clock));
                }
            }
        }
    }
    for w in 0..nw {
        if let Err(v) = join(w, &mut handles, &mut logs) {
            failure.get_or_insert(v);
        }
    }
    if let Some(v) = failure {
        return Err(v);
    }
    let logs: Vec<WorkerLog> = logs.into_iter().map(|l| l.expect("joined")).collect();
    let final_seen = sut::collect(&sh).map_err(|m| Violation::new("report-malformed", format!("final: {m}")))?;

    // ---- final, quiescent: equality with the model -------------------------------------------
    let mut final_want: BTreeMap<usize, Agg> = BTreeMap::new();
    for m in &models {
        for (ev, a) in m.states.last().expect("non-empty") {
            final_want.entry(*ev).or_insert_with(|| Agg::new(sc.events[*ev].buckets.len())).add(a);
        }
    }
    let mut hf = 9_u64;
    for s in &final_seen {
        hf = simkit::mix(hf, simkit::mix(s.ev as u64, simkit::mix(s.count, s.sum as u64)));
    }
    ctx.event(hf, || format!("final report: {:?}", final_seen.iter().map(|s| (s.ev, s.count, s.sum, s.hist.as_ref().map(|h| h.1.clone()))).collect::<Vec<_>>()));
    let names: BTreeSet<usize> = final_seen.iter().map(|s| s.ev).collect();
    check!(names.len() == final_seen.len(), "report-duplicate-event", "final report lists an event twice");
    for ev in final_want.keys() {
        check!(names.contains(ev), "report-missing-event", "final report: event {ev} was built but is missing");
    }
    for s in &final_seen {
        let Some(want) = final_want.get(&s.ev) else {
            return Err(Violation::new("report-phantom-event", format!("final report: event {} was never built", s.ev)));
        };
        if let Err((class, detail)) = compare_exact(&sc.events[s.ev], want, s, "final report (all threads joined)") {
            return Err(Violation::new(class, detail));
        }
    }

    // ---- reports taken while others ran -------------------------------------------------------
    // (reporter, Some(op index) for workers, report, workers joined by the reporter before it)
    let mut all: Vec<(Option<usize>, usize, &Rep, Vec<usize>, Vec<usize>)> = Vec::new();
    for (k, r) in main_reports.iter().enumerate() {
        all.push((None, k, r, joined_before[k].clone(), known_before[k].clone()));
    }
    for (w, l) in logs.iter().enumerate() {
        for (k, r) in &l.reports {
            all.push((Some(w), *k, r, Vec::new(), vec![0; nw]));
        }
    }
    let mut nontrivial = false;
    let mut prev: BTreeMap<(Option<usize>, usize), Vec<u128>> = BTreeMap::new();
    for (reporter, k, rep, joined, known) in &all {
        let at = match reporter {
            None => format!("main report #{k}"),
            Some(w) => format!("worker {w} op {k} (report)"),
        };
        let seen = rep.seen.as_ref().map_err(|m| Violation::new("report-malformed", format!("{at}: {m}")))?;
        let mut hr = simkit::mix(10, reporter.map_or(99, |w| w as u64));
        for s in seen {
            hr = simkit::mix(hr, simkit::mix(s.ev as u64, simkit::mix(s.count, s.sum as u64)));
            if let Some((_, c)) = &s.hist {
                for x in c {
                    hr = simkit::mix(hr, *x);
                }
            }
        }
        ctx.event(hr, || format!("{at}: {:?}", seen.iter().map(|s| (s.ev, s.count, s.sum, s.hist.as_ref().map(|h| h.1.clone()))).collect::<Vec<_>>()));

        // Probes: did this report overlap somebody else's activity / teardown?
        for (w, l) in logs.iter().enumerate() {
            if *reporter == Some(w) {
                continue;
            }
            if l.starts.iter().any(|s| *s > rep.s0 && *s < rep.s1) {
                ctx.probe("report-overlapped-worker-ops");
                nontrivial = true;
            }
            let a = teardown[w].0.load(Ordering::Relaxed);
            let b = teardown[w].1.load(Ordering::Relaxed);
            let (lo, hi) = (a.min(b), a.max(b));
            if lo != 0 && lo < rep.s1 && hi > rep.s0 {
                ctx.probe("report-raced-thread-exit");
                nontrivial = true;
            }
            if lo != 0 && hi < rep.s0 && join_stamp[w].is_none_or(|j| j > rep.s1) {
                ctx.probe("report-after-unjoined-exit");
            }
        }
        if reporter.is_some() {
            ctx.probe("report-by-worker");
        }

        let seen_names: BTreeSet<usize> = seen.iter().map(|s| s.ev).collect();
        check!(seen_names.len() == seen.len(), "report-duplicate-event", "{at}: an event is listed twice");
        for ev in 0..n_ev {
            let def = &sc.events[ev];
            // Bounds per worker.
            let mut upper = Agg::new(def.buckets.len());
            let mut lower = Agg::new(def.buckets.len());
            let mut may_exist = false;
            let mut must_exist = false;
            for (w, m) in models.iter().enumerate() {
                let started = logs[w].starts.iter().filter(|s| **s < rep.s1).count();
                let up_state = if *reporter == Some(w) { &m.states[*k] } else { &m.states[started] };
                if let Some(a) = up_state.get(&ev) {
                    upper.add(a);
                    may_exist = true;
                }
                let low_state = if *reporter == Some(w) {
                    Some(&m.states[*k])
                } else if joined.contains(&w) {
                    m.states.last()
                } else if known[w] > 0 {
                    Some(&m.states[known[w]])
                } else {
                    None
                };
                if let Some(a) = low_state.and_then(|s| s.get(&ev)) {
                    lower.add(a);
                    must_exist = true;
                }
            }
            let got = seen.iter().find(|s| s.ev == ev);
            let Some(got) = got else {
                check!(!must_exist, "report-missing-event", "{at}: event {ev} was built by the reporter or by a thread it joined / synchronised with, but is missing");
                continue;
            };
            check!(may_exist, "report-phantom-event", "{at}: event {ev} listed before any thread started building it");
            let g = seen_counters(def, sum_ok[ev], got);
            let up = agg_counters(def, sum_ok[ev], &upper);
            let lo = agg_counters(def, sum_ok[ev], &lower);
            let fin = agg_counters(def, sum_ok[ev], final_want.get(&ev).expect("built"));
            check!(g.len() == up.len(), "histogram-presence", "{at}: event {ev}: {} counters reported, {} configured", g.len(), up.len());
            let mut partial = false;
            for i in 0..g.len() {
                check!(
                    g[i] <= fin[i],
                    "concurrent-report-exceeds-final",
                    "{at}: event {ev} {}: report says {} but the final total is {}",
                    counter_name(sum_ok[ev], i), g[i], fin[i]
                );
                check!(
                    g[i] <= up[i],
                    "concurrent-report-overcount",
                    "{at}: event {ev} {}: report says {} but operations started before the report ended can have published at most {} (stamps {}..{})",
                    counter_name(sum_ok[ev], i), g[i], up[i], rep.s0, rep.s1
                );
                check!(
                    g[i] >= lo[i],
                    "concurrent-report-undercount",
                    "{at}: event {ev} {}: report says {} but what the reporter itself, the threads it joined and the threads it synchronised with had published before is {}",
                    counter_name(sum_ok[ev], i), g[i], lo[i]
                );
                if g[i] > lo[i] && g[i] < fin[i] {
                    partial = true;
                }
            }
            if partial {
                ctx.probe("report-saw-partial-total");
            }
            if let Some(p) = prev.get(&(*reporter, ev)) {
                for i in 0..g.len() {
                    check!(
                        g[i] >= p[i],
                        "concurrent-report-not-monotone",
                        "{at}: event {ev} {}: {} after an earlier report of the same thread said {}",
                        counter_name(sum_ok[ev], i), g[i], p[i]
                    );
                }
            }
            prev.insert((*reporter, ev), g);
        }
    }
    Ok(nontrivial)
}

fn shrink(sc: &ConcScenario) -> Vec<ConcScenario> {
    let mut out = Vec::new();
    if sc.workers.len() > 1 {
        for w in 0..sc.workers.len() {
            let mut s = sc.clone();
            s.workers.remove(w);
            s.main.retain(|m| !matches!(m, MOp::Join(x) | MOp::WaitFor { w: x, .. } if *x == w));
            for m in &mut s.main {
                if let MOp::Join(x) | MOp::WaitFor { w: x, .. } = m {
                    if *x > w {
                        *x -= 1;
                    }
                }
            }
            out.push(s);
        }
    }
    for w in 0..sc.workers.len() {
        for ops in simkit::shrink::remove_chunks(&sc.workers[w]) {
            let mut s = sc.clone();
            s.workers[w] = ops;
            out.push(s);
        }
    }
    for ops in simkit::shrink::remove_chunks(&sc.main) {
        let mut s = sc.clone();
        s.main = ops;
        out.push(s);
    }
    for (k, e) in sc.events.iter().enumerate() {
        let n = e.buckets.len();
        if n > 0 {
            let mut s = sc.clone();
            s.events[k].buckets = e.buckets[n.div_ceil(2)..].to_vec();
            out.push(s);
            let mut s = sc.clone();
            s.events[k].buckets = e.buckets[..n - 1].to_vec();
            out.push(s);
        }
    }
    out
}

fn size(sc: &ConcScenario) -> usize {
    sc.workers.iter().map(|w| 2 + w.len() * 2).sum::<usize>() + sc.main.len() * 2 + sc.events.iter().map(|e| e.buckets.len()).sum::<usize>()
}

#[derive(Clone, Debug, Serialize, Deserialize)]
#[serde(transparent)]
pub struct Conc(pub ConcScenario);

impl Scenario for Conc {
    fn generate(rng: &mut Rng, _mode: &str) -> Self {
        Conc(generate(rng))
    }
    fn run(&self, ctx: &mut Ctx) -> Result<bool, Violation> {
        run(&self.0, ctx)
    }
    fn shrink(&self) -> Vec<Self> {
        shrink(&self.0).into_iter().map(Conc).collect()
    }
    fn size(&self) -> usize {
        size(&self.0)
    }
}
