//! Reference aggregation: what a report must contain, stated from the property text alone.
//!
//! An observation of magnitude `m` with batch size `n` adds `n` to the count, `m * n` to the sum
//! (two's-complement wrapping: the crate documents wrapping arithmetic for sums, see
//! `ObservationBag::insert`), and `n` to the first bucket whose inclusive upper bound is `>= m`,
//! or to the implicit overflow bucket when no bound is large enough.

use serde::{Deserialize, Serialize};

/// Totals of one event (or of one thread's share of it).
#[derive(Clone, Debug, PartialEq, Eq, Default)]
pub struct Agg {
    pub count: u64,
    pub sum: i64,
    /// One entry per configured bucket (without the overflow bucket).
    pub buckets: Vec<u64>,
    /// Observations beyond the last configured bound. Zero-length bucket sets have no histogram
    /// at all; the field is still maintained (it then equals `count`) but not compared.
    pub overflow: u64,
}

impl Agg {
    pub fn new(n_buckets: usize) -> Self {
        Self {
            count: 0,
            sum: 0,
            buckets: vec![0; n_buckets],
            overflow: 0,
        }
    }

    /// Index of the bucket that takes magnitude `m`; `None` = overflow bucket.
    pub fn bucket_of(bounds: &[i64], m: i64) -> Option<usize> {
        bounds.iter().position(|b| *b >= m)
    }

    pub fn observe(&mut self, bounds: &[i64], m: i64, n: u64) -> Option<usize> {
        self.count = self.count.wrapping_add(n);
        self.sum = self.sum.wrapping_add(m.wrapping_mul(n as i64));
        let idx = Self::bucket_of(bounds, m);
        match idx {
            Some(i) => self.buckets[i] = self.buckets[i].wrapping_add(n),
            None => self.overflow = self.overflow.wrapping_add(n),
        }
        idx
    }

    /// Counts only (used for events whose magnitudes come from a clock).
    pub fn observe_count_only(&mut self, n: u64) {
        self.count = self.count.wrapping_add(n);
    }

    pub fn add(&mut self, other: &Agg) {
        self.count = self.count.wrapping_add(other.count);
        self.sum = self.sum.wrapping_add(other.sum);
        for (a, b) in self.buckets.iter_mut().zip(&other.buckets) {
            *a = a.wrapping_add(*b);
        }
        self.overflow = self.overflow.wrapping_add(other.overflow);
    }
}

/// Publishing model of one event instance (one event name on one thread).
#[derive(Clone, Copy, Debug, Serialize, Deserialize, PartialEq, Eq)]
pub enum Kind {
    /// Observations are visible to reports immediately.
    Pull,
    /// Observations reach reports when pusher `p` of the owning thread is pushed. Pushers 0 and 1
    /// are plain `MetricsPusher` values owned by the thread (builder `.pusher(&p)`), pusher 2 is a
    /// `thread_local!` static (builder `.pusher_local(&KEY)`).
    Push(u8),
}

/// How an observation is made through the public API. All variants are documented as thin
/// wrappers over `batch(n).observe(m)`; `effective` states what each must amount to.
#[derive(Clone, Copy, Debug, Serialize, Deserialize, PartialEq, Eq)]
pub enum How {
    /// `event.observe(m)` with an `i64`.
    Observe,
    /// `event.observe(m as i32)`: `AsPrimitive<i64>` of an `i32` is sign extension.
    ObserveI32,
    /// `event.observe(m as u64)`: `AsPrimitive<i64>` of a `u64` is the two's-complement cast.
    ObserveU64,
    /// `event.observe_once()`: magnitude 1.
    Once,
    /// `event.observe_millis(Duration)`; sub-millisecond part is ignored.
    Millis,
    /// `event.batch(n).observe(m)`.
    Batch,
    /// `event.batch(n).observe_once()`.
    BatchOnce,
    /// `event.batch(n).observe_millis(Duration)`.
    BatchMillis,
    /// `Observe::observe(&event, m)` through the trait (generic call).
    TraitObserve,
    /// `Observe::observe(&event.batch(n), m)` through the trait.
    TraitBatch,
    /// `event.observe_duration_millis(|| ())`: magnitude read from a clock (timed events only).
    Duration,
    /// `event.batch(n).observe_duration_millis(|| ())` (timed events only).
    BatchDuration,
}

impl How {
    /// `(magnitude, batch size)` the call must be equivalent to; magnitude `None` = clock value.
    pub fn effective(self, m: i64, n: u64) -> (Option<i64>, u64) {
        match self {
            How::Observe | How::ObserveU64 | How::TraitObserve => (Some(m), 1),
            How::ObserveI32 => (Some(i64::from(m as i32)), 1),
            How::Once => (Some(1), 1),
            How::Millis => (Some(m & i64::MAX), 1),
            How::Batch | How::TraitBatch => (Some(m), n),
            How::BatchOnce => (Some(1), n),
            How::BatchMillis => (Some(m & i64::MAX), n),
            How::Duration => (None, 1),
            How::BatchDuration => (None, n),
        }
    }

    pub fn code(self) -> u64 {
        match self {
            How::Observe => 0,
            How::ObserveI32 => 1,
            How::ObserveU64 => 2,
            How::Once => 3,
            How::Millis => 4,
            How::Batch => 5,
            How::BatchOnce => 6,
            How::BatchMillis => 7,
            How::TraitObserve => 8,
            How::TraitBatch => 9,
            How::Duration => 10,
            How::BatchDuration => 11,
        }
    }

    pub fn is_simple(self) -> bool {
        matches!(self, How::Observe | How::Duration)
    }
}

/// Static description of one event name of a scenario.
#[derive(Clone, Debug, Serialize, Deserialize, PartialEq, Eq)]
pub struct EventDef {
    /// Inclusive upper bounds, strictly ascending, never containing `i64::MAX`. Empty = no histogram.
    pub buckets: Vec<i64>,
    /// Observed only through the `*_duration_millis` variants: magnitudes come from a clock, so
    /// only the count (and internal consistency of the histogram) is compared.
    #[serde(default)]
    pub timed: bool,
}

/// What one report said about one of the scenario's own event names.
#[derive(Clone, Debug, PartialEq, Eq)]
pub struct Seen {
    pub ev: usize,
    pub count: u64,
    pub sum: i64,
    pub mean: i64,
    /// `(magnitudes, counts)` as iterated by `Histogram::magnitudes()` / `counts()`, i.e.
    /// including the synthetic `i64::MAX` bucket at the end.
    pub hist: Option<(Vec<i64>, Vec<u64>)>,
}

/// Mean as documented: `sum / count` rounded towards zero, 0 without observations (and 0 when the
/// count does not fit the magnitude type).
pub fn expected_mean(count: u64, sum: i64) -> i64 {
    match i64::try_from(count) {
        Ok(c) if c != 0 => sum / c,
        _ => 0,
    }
}

/// Compares a quiescent report entry with the model. `Err((class, detail))`.
pub fn compare_exact(def: &EventDef, want: &Agg, got: &Seen, at: &str) -> Result<(), (&'static str, String)> {
    let ev = got.ev;
    if got.count != want.count {
        return Err((
            "count-mismatch",
            format!("{at}: event {ev}: report count {} but the logged observations give {}", got.count, want.count),
        ));
    }
    if !def.timed && got.sum != want.sum {
        return Err((
            "sum-mismatch",
            format!("{at}: event {ev}: report sum {} but the logged observations give {}", got.sum, want.sum),
        ));
    }
    if !def.timed {
        let mean = expected_mean(want.count, want.sum);
        if got.mean != mean {
            return Err((
                "mean-mismatch",
                format!("{at}: event {ev}: report mean {} but sum/count = {mean}", got.mean),
            ));
        }
    }
    match (&got.hist, def.buckets.is_empty()) {
        (None, true) => {}
        (Some(_), true) => {
            return Err(("histogram-presence", format!("{at}: event {ev} has no buckets but the report has a histogram")));
        }
        (None, false) => {
            return Err(("histogram-presence", format!("{at}: event {ev} has buckets but the report has no histogram")));
        }
        (Some((mags, counts)), false) => {
            let mut want_mags = def.buckets.clone();
            want_mags.push(i64::MAX);
            if *mags != want_mags || counts.len() != want_mags.len() {
                return Err((
                    "histogram-magnitudes",
                    format!("{at}: event {ev}: histogram bounds {mags:?} ({} counts), configured {want_mags:?}", counts.len()),
                ));
            }
            if def.timed {
                let total = counts.iter().fold(0_u64, |a, c| a.wrapping_add(*c));
                if total != want.count {
                    return Err((
                        "bucket-mismatch",
                        format!("{at}: timed event {ev}: histogram counts add up to {total}, count is {}", want.count),
                    ));
                }
                return Ok(());
            }
            for (i, w) in want.buckets.iter().enumerate() {
                if counts[i] != *w {
                    return Err((
                        "bucket-mismatch",
                        format!(
                            "{at}: event {ev}: bucket {i} (<= {}) holds {} but the logged observations give {w}; all: got {counts:?} want {:?}+[{}]",
                            def.buckets[i], counts[i], want.buckets, want.overflow
                        ),
                    ));
                }
            }
            let got_over = counts[want.buckets.len()];
            if got_over != want.overflow {
                return Err((
                    "overflow-bucket-mismatch",
                    format!("{at}: event {ev}: overflow bucket holds {got_over} but the logged observations give {}", want.overflow),
                ));
            }
        }
    }
    Ok(())
}
