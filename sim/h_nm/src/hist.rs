//! Modes `strict` / `tiny`: operation-granular histories under the coordinator. Exactly one
//! simulated thread runs at a time, so every report is quiescent and must *equal* the reference
//! aggregation of the logged observations.

use std::collections::{BTreeMap, BTreeSet};
use std::sync::Arc;

use serde::{Deserialize, Serialize};
use simkit::coord::{Coordinator, ExecError};
use simkit::{Ctx, Rng, Scenario, Violation, check};

use crate::draw;
use crate::model::{Agg, EventDef, How, Kind, Seen, compare_exact};
use crate::sut::{self, Shared};

#[derive(Clone, Debug, Serialize, Deserialize, PartialEq)]
pub enum Op {
    /// Start one more simulated thread (it gets the next index).
    Spawn,
    /// Build event `ev` on thread `t` through the public builder.
    Build { t: usize, ev: usize, kind: Kind },
    /// Hand the builder a bucket set it documents as rejected; must panic and leave no trace.
    BadBuild { t: usize, bad: Vec<i64> },
    Observe { t: usize, ev: usize, how: How, m: i64, n: u64, ns: u32 },
    /// `MetricsPusher::push` on pusher `p` of thread `t`.
    Push { t: usize, p: u8 },
    /// `Report::collect()` on thread `t` (`None`: the driver's own thread, which never builds events).
    Report { t: Option<usize> },
    /// Let thread `t` end: its thread-local registry is dropped and archived.
    Exit { t: usize },
}

#[derive(Clone, Debug, Serialize, Deserialize)]
pub struct HistScenario {
    pub events: Vec<EventDef>,
    pub threads: usize,
    pub ops: Vec<Op>,
}

struct Limits {
    max_events: usize,
    max_threads0: usize,
    max_ops: usize,
    small_buckets: bool,
}

/// One event instance (event name × thread) in the model.
struct Inst {
    kind: Kind,
    /// Everything observed through this instance.
    local: Agg,
    /// What reports may see of it: `local` for pull instances, the state at the last push for
    /// push instances.
    published: Agg,
    /// Model-side view of the dirty state (for probes only).
    dirty_hi: bool,
    obs_since_push: u32,
    sum_at_push: i64,
}

struct GenState {
    alive: Vec<bool>,
    built: BTreeMap<(usize, usize), Kind>,
    pref: Vec<Kind>,
}

impl GenState {
    fn alive_threads(&self) -> Vec<usize> {
        (0..self.alive.len()).filter(|t| self.alive[*t]).collect()
    }
    fn instances(&self) -> Vec<(usize, usize, Kind)> {
        self.built
            .iter()
            .filter(|((t, _), _)| self.alive[*t])
            .map(|((t, e), k)| (*t, *e, *k))
            .collect()
    }
}

fn gen_kind(rng: &mut Rng, pref: Kind) -> Kind {
    if rng.chance(4, 5) {
        return pref;
    }
    match rng.weighted(&[3, 3, 2, 2]) {
        0 => Kind::Pull,
        1 => Kind::Push(0),
        2 => Kind::Push(1),
        _ => Kind::Push(2),
    }
}

fn gen_observe(rng: &mut Rng, events: &[EventDef], t: usize, ev: usize) -> Op {
    let def = &events[ev];
    let m = draw::magnitude(rng, &def.buckets);
    let how = draw::how(rng, def.timed, m);
    Op::Observe {
        t,
        ev,
        how,
        m,
        n: draw::batch_size(rng),
        ns: if rng.chance(1, 4) { rng.below(1_000_000) as u32 } else { 0 },
    }
}

fn generate(rng: &mut Rng, lim: &Limits) -> HistScenario {
    let n_events = rng.range_usize(1, lim.max_events);
    let mut events: Vec<EventDef> = (0..n_events).map(|_| draw::event_def(rng, lim.small_buckets, true)).collect();
    if lim.small_buckets && rng.chance(1, 2) {
        // Small histories (Miri): make sure the >= 63-bucket copy path is exercised often.
        let n = rng.range_usize(63, 66);
        events[0].buckets = draw::bucket_set(rng, n);
    }
    let threads = rng.range_usize(1, lim.max_threads0);
    let n_ops = rng.range_usize(4, lim.max_ops);
    let mut st = GenState {
        alive: vec![true; threads],
        built: BTreeMap::new(),
        pref: (0..n_events)
            .map(|_| match rng.weighted(&[4, 3, 2, 2]) {
                0 => Kind::Pull,
                1 => Kind::Push(0),
                2 => Kind::Push(1),
                _ => Kind::Push(2),
            })
            .collect(),
    };
    let mut ops: Vec<Op> = Vec::new();
    // Every initial thread builds something first, so histories start with live instances.
    for t in 0..threads {
        for _ in 0..rng.range_usize(1, 2) {
            let ev = rng.below_usize(n_events);
            if !st.built.contains_key(&(t, ev)) {
                let kind = gen_kind(rng, st.pref[ev]);
                st.built.insert((t, ev), kind);
                ops.push(Op::Build { t, ev, kind });
            }
        }
    }
    while ops.len() < n_ops {
        let alive = st.alive_threads();
        let inst = st.instances();
        if alive.is_empty() {
            // Everything has exited: bring a new thread or take reports of the archive.
            if rng.chance(2, 3) {
                st.alive.push(true);
                ops.push(Op::Spawn);
            } else {
                ops.push(Op::Report { t: None });
            }
            continue;
        }
        let w = [
            12,                                   // build
            if inst.is_empty() { 0 } else { 46 }, // observe
            14,                                   // push
            14,                                   // report
            5,                                    // exit
            3,                                    // spawn
            1,                                    // bad build
            if inst.is_empty() { 0 } else { 6 },  // directed boundary sequences
        ];
        match rng.weighted(&w) {
            0 => {
                let t = *rng.pick(&alive);
                let ev = rng.below_usize(n_events);
                if st.built.contains_key(&(t, ev)) {
                    continue;
                }
                let kind = gen_kind(rng, st.pref[ev]);
                st.built.insert((t, ev), kind);
                ops.push(Op::Build { t, ev, kind });
            }
            1 => {
                let (t, ev, _) = *rng.pick(&inst);
                ops.push(gen_observe(rng, &events, t, ev));
            }
            2 => {
                // Mostly a pusher that has something registered; sometimes any (empty pushers too).
                let pushy: Vec<(usize, u8)> = inst
                    .iter()
                    .filter_map(|(t, _, k)| match k {
                        Kind::Push(p) => Some((*t, *p)),
                        Kind::Pull => None,
                    })
                    .collect();
                if !pushy.is_empty() && rng.chance(5, 6) {
                    let (t, p) = *rng.pick(&pushy);
                    ops.push(Op::Push { t, p });
                } else {
                    ops.push(Op::Push { t: *rng.pick(&alive), p: rng.below(3) as u8 });
                }
            }
            3 => {
                let t = if rng.chance(1, 3) { None } else { Some(*rng.pick(&alive)) };
                ops.push(Op::Report { t });
            }
            4 => {
                let t = *rng.pick(&alive);
                // Exit after a push, exit with unpushed observations, exit between two reports.
                if rng.chance(1, 2) {
                    ops.push(Op::Report { t: None });
                }
                if rng.chance(1, 2) {
                    let ps: Vec<u8> = inst
                        .iter()
                        .filter_map(|(tt, _, k)| match k {
                            Kind::Push(p) if *tt == t => Some(*p),
                            _ => None,
                        })
                        .collect();
                    if !ps.is_empty() {
                        ops.push(Op::Push { t, p: *rng.pick(&ps) });
                    }
                }
                st.alive[t] = false;
                ops.push(Op::Exit { t });
                if rng.chance(2, 3) {
                    ops.push(Op::Report { t: None });
                }
            }
            5 => {
                st.alive.push(true);
                ops.push(Op::Spawn);
            }
            6 => {
                ops.push(Op::BadBuild { t: *rng.pick(&alive), bad: draw::bad_bucket_set(rng) });
            }
            _ => {
                // Directed sequences around the push skip heuristic on a push instance:
                // push, then observations that leave the *sum* unchanged, push again, report.
                let pushy: Vec<(usize, usize, u8)> = inst
                    .iter()
                    .filter_map(|(t, e, k)| match k {
                        Kind::Push(p) if !events[*e].timed => Some((*t, *e, *p)),
                        _ => None,
                    })
                    .collect();
                if pushy.is_empty() {
                    continue;
                }
                let (t, ev, p) = *rng.pick(&pushy);
                if rng.chance(1, 2) {
                    ops.push(gen_observe(rng, &events, t, ev));
                }
                ops.push(Op::Push { t, p });
                match rng.below(3) {
                    0 => ops.push(Op::Observe { t, ev, how: How::Observe, m: 0, n: 1, ns: 0 }),
                    1 => {
                        let m = draw::magnitude(rng, &events[ev].buckets);
                        if m != i64::MIN {
                            ops.push(Op::Observe { t, ev, how: How::Observe, m, n: 1, ns: 0 });
                            ops.push(Op::Observe { t, ev, how: How::Observe, m: -m, n: 1, ns: 0 });
                        }
                    }
                    _ => {} // idle push
                }
                ops.push(Op::Push { t, p });
                ops.push(Op::Report { t: if rng.bool() { None } else { Some(t) } });
            }
        }
    }
    HistScenario { events, threads, ops }
}

fn exec_err(what: &str, e: &ExecError) -> Violation {
    match e {
        ExecError::Panicked(msg) => {
            let v = simkit::panic_violation(&(Box::new(msg.clone()) as Box<dyn std::any::Any + Send>));
            Violation::new(&v.class, format!("{what}: {msg}"))
        }
        ExecError::Blocked => Violation::new("hang", format!("{what}: no acknowledgement under a one-runner schedule")),
        ExecError::Dead => Violation::new("harness-thread-dead", format!("{what}: simulated thread is gone")),
    }
}

fn seen_code(s: &Seen, timed: bool) -> u64 {
    let mut h = simkit::mix(s.ev as u64, s.count);
    if !timed {
        h = simkit::mix(h, s.sum as u64);
        if let Some((_, counts)) = &s.hist {
            for c in counts {
                h = simkit::mix(h, *c);
            }
        }
    }
    h
}

struct Model<'a> {
    events: &'a [EventDef],
    alive: Vec<bool>,
    inst: BTreeMap<(usize, usize), Inst>,
    archive: Vec<Agg>,
    ever_built: BTreeSet<usize>,
}

impl Model<'_> {
    fn expected(&self, ev: usize) -> Agg {
        let mut a = self.archive[ev].clone();
        for ((_, e), i) in &self.inst {
            if *e == ev {
                a.add(&i.published);
            }
        }
        a
    }
}

fn check_report(model: &Model<'_>, seen: &[Seen], at: &str, ctx: &mut Ctx) -> Result<(), Violation> {
    let mut names = BTreeSet::new();
    let mut last: Option<usize> = None;
    for s in seen {
        check!(names.insert(s.ev), "report-duplicate-event", "{at}: event {} appears twice in one report", s.ev);
        check!(
            model.ever_built.contains(&s.ev),
            "report-phantom-event",
            "{at}: event {} is in the report but was never built",
            s.ev
        );
        check!(last.is_none_or(|l| l < s.ev), "report-not-sorted", "{at}: event {} after event {last:?}", s.ev);
        last = Some(s.ev);
    }
    for ev in &model.ever_built {
        check!(names.contains(ev), "report-missing-event", "{at}: event {ev} was built but is not in the report");
    }
    for s in seen {
        let want = model.expected(s.ev);
        let def = &model.events[s.ev];
        if let Err((class, detail)) = compare_exact(def, &want, s, at) {
            return Err(Violation::new(class, detail));
        }
        let live = model.inst.keys().any(|(_, e)| *e == s.ev);
        if live && model.archive[s.ev].count > 0 {
            ctx.probe("report-archive-plus-live");
        }
    }
    Ok(())
}

/// Exactly one simulated thread is runnable at any instant, so all of them may share one CPU: a
/// hand-over then is a plain context switch instead of a cross-CPU wake-up (an order of magnitude
/// cheaper here). Throughput only; nothing observable depends on it.
fn pin_to_one_cpu() {
    #[cfg(all(target_os = "linux", not(miri)))]
    {
        static ONCE: std::sync::Once = std::sync::Once::new();
        ONCE.call_once(|| {
            // SAFETY: plain libc calls on zero-initialised cpu_set_t values owned by this frame.
            unsafe {
                let mut set: libc::cpu_set_t = std::mem::zeroed();
                if libc::sched_getaffinity(0, size_of::<libc::cpu_set_t>(), &raw mut set) != 0 {
                    return;
                }
                let allowed: Vec<usize> = (0..libc::CPU_SETSIZE as usize).filter(|c| libc::CPU_ISSET(*c, &set)).collect();
                if allowed.len() < 2 {
                    return;
                }
                let here = libc::sched_getcpu();
                let cpu = if here >= 0 && allowed.contains(&(here as usize)) {
                    here as usize
                } else {
                    allowed[std::process::id() as usize % allowed.len()]
                };
                let mut one: libc::cpu_set_t = std::mem::zeroed();
                libc::CPU_SET(cpu, &mut one);
                let _ = libc::sched_setaffinity(0, size_of::<libc::cpu_set_t>(), &raw const one);
            }
        });
    }
}

fn run(sc: &HistScenario, ctx: &mut Ctx) -> Result<bool, Violation> {
    pin_to_one_cpu();
    let sh = Arc::new(Shared::new(sc.events.iter().map(|e| e.buckets.clone())));
    let n_ev = sc.events.len();
    let mut coord = Coordinator::new(sc.threads);
    let mut model = Model {
        events: &sc.events,
        alive: vec![true; sc.threads],
        inst: BTreeMap::new(),
        archive: sc.events.iter().map(|e| Agg::new(e.buckets.len())).collect(),
        ever_built: BTreeSet::new(),
    };
    ctx.event(simkit::mix(n_ev as u64, sc.threads as u64), || {
        format!("config: {} thread(s), events {:?}", sc.threads, sc.events.iter().map(|e| (e.buckets.len(), e.timed)).collect::<Vec<_>>())
    });
    for (k, e) in sc.events.iter().enumerate() {
        let mut h = k as u64;
        for b in &e.buckets {
            h = simkit::mix(h, *b as u64);
        }
        ctx.event(h, || format!("event {k}: timed={} buckets {:?}", e.timed, e.buckets));
    }
    let mut exits_since_report = 0_u32;
    let mut reports = 0_u32;
    let mut nt_exit_between_reports = false;
    let mut nt_hi_pushed = false;
    let mut bad_idx = 900_usize;

    let do_report = |coord: &Coordinator, t: Option<usize>| -> Result<Result<Vec<Seen>, String>, Violation> {
        match t {
            None => Ok(sut::collect(&sh)),
            Some(t) => {
                let sh2 = Arc::clone(&sh);
                coord.exec(t, move || sut::collect(&sh2)).map_err(|e| exec_err("report", &e))
            }
        }
    };

    for (i, op) in sc.ops.iter().enumerate() {
        match op {
            Op::Spawn => {
                if coord.len() >= 12 {
                    continue;
                }
                let t = coord.spawn();
                model.alive.push(true);
                ctx.event(1, || format!("{i}: spawn -> thread {t}"));
            }
            Op::Build { t, ev, kind } => {
                let (t, ev, kind) = (*t, *ev, *kind);
                if t >= model.alive.len() || !model.alive[t] || ev >= n_ev || model.inst.contains_key(&(t, ev)) {
                    continue;
                }
                let sh2 = Arc::clone(&sh);
                let ok = coord.exec(t, move || sut::build(&sh2, ev, kind)).map_err(|e| exec_err("build", &e))?;
                check!(ok, "harness-build-skipped", "op {i}: thread {t} already had event {ev}");
                let nb = sc.events[ev].buckets.len();
                if model.inst.iter().any(|((tt, e), o)| *e == ev && *tt != t && (o.kind == Kind::Pull) != (kind == Kind::Pull)) {
                    ctx.probe("same-name-pull-and-push");
                }
                if model.inst.keys().any(|(tt, e)| *e == ev && *tt != t) {
                    ctx.probe("same-name-several-threads");
                }
                model.inst.insert(
                    (t, ev),
                    Inst { kind, local: Agg::new(nb), published: Agg::new(nb), dirty_hi: false, obs_since_push: 0, sum_at_push: 0 },
                );
                model.ever_built.insert(ev);
                let kc = match kind {
                    Kind::Pull => 0,
                    Kind::Push(p) => 1 + u64::from(p),
                };
                ctx.event(simkit::mix(2, simkit::mix(t as u64, simkit::mix(ev as u64, kc))), || format!("{i}: t{t} build event {ev} as {kind:?}"));
            }
            Op::BadBuild { t, bad } => {
                let t = *t;
                if t >= model.alive.len() || !model.alive[t] {
                    continue;
                }
                let sh2 = Arc::clone(&sh);
                let leaked = sut::leak_buckets(bad);
                let idx = bad_idx;
                bad_idx += 1;
                let r = coord.exec(t, move || sut::build_bad(&sh2, idx, leaked));
                match r {
                    Err(ExecError::Panicked(_)) => {
                        ctx.probe("bad-bucket-set-rejected");
                        ctx.event(3, || format!("{i}: t{t} builder rejected {bad:?}"));
                    }
                    Ok(()) => {
                        return Err(Violation::new(
                            "bad-histogram-accepted",
                            format!("op {i}: builder accepted bucket set {bad:?} (documented to panic)"),
                        ));
                    }
                    Err(e) => return Err(exec_err("bad build", &e)),
                }
            }
            Op::Observe { t, ev, how, m, n, ns } => {
                let (t, ev, how, m, n, ns) = (*t, *ev, *how, *m, *n, *ns);
                if !model.inst.contains_key(&(t, ev)) {
                    continue;
                }
                let def = &sc.events[ev];
                let timed_how = matches!(how, How::Duration | How::BatchDuration);
                if def.timed != timed_how {
                    continue;
                }
                let ok = coord.exec(t, move || sut::observe(ev, how, m, n, ns)).map_err(|e| exec_err("observe", &e))?;
                check!(ok, "harness-observe-skipped", "op {i}: thread {t} has no event {ev}");
                let inst = model.inst.get_mut(&(t, ev)).expect("checked");
                let (me, ne) = how.effective(m, n);
                let idx = match me {
                    Some(me) => {
                        let idx = inst.local.observe(&def.buckets, me, ne);
                        if ne > 0 {
                            match idx {
                                Some(62) => ctx.probe("bucket-62-hit"),
                                Some(63) => ctx.probe("bucket-63-hit"),
                                Some(x) if x > 63 => ctx.probe("bucket-64plus-hit"),
                                None if !def.buckets.is_empty() => ctx.probe("overflow-bucket-hit"),
                                _ => {}
                            }
                            if def.buckets.iter().any(|b| *b == me) {
                                ctx.probe("magnitude-on-bound");
                            }
                            if def.buckets.iter().any(|b| b.checked_add(1) == Some(me)) {
                                ctx.probe("magnitude-just-above-bound");
                            }
                            if me.checked_mul(ne as i64).is_none() {
                                ctx.probe("sum-increment-wrapped");
                            }
                        } else {
                            ctx.probe("batch-of-zero");
                        }
                        idx
                    }
                    None => {
                        inst.local.observe_count_only(ne);
                        None
                    }
                };
                if ne > 0 {
                    inst.obs_since_push += 1;
                    if matches!(inst.kind, Kind::Push(_)) && idx.is_some_and(|x| x >= 63) {
                        inst.dirty_hi = true;
                        ctx.probe("push-bucket>=63-dirtied");
                    }
                }
                if inst.kind == Kind::Pull {
                    inst.published = inst.local.clone();
                }
                ctx.event(
                    simkit::mix(simkit::mix(4, t as u64), simkit::mix(simkit::mix(ev as u64, how.code()), simkit::mix(m as u64, n))),
                    || format!("{i}: t{t} event {ev} {how:?} m={m} n={n} -> bucket {idx:?}"),
                );
            }
            Op::Push { t, p } => {
                let (t, p) = (*t, (*p).min(2));
                if t >= model.alive.len() || !model.alive[t] {
                    continue;
                }
                coord.exec(t, move || sut::push(p)).map_err(|e| exec_err("push", &e))?;
                let mut touched = 0_u32;
                for ((tt, _), inst) in &mut model.inst {
                    if *tt != t || inst.kind != Kind::Push(p) {
                        continue;
                    }
                    touched += 1;
                    if inst.obs_since_push == 0 {
                        ctx.probe("idle-push-skipped");
                    } else {
                        if inst.local.sum == inst.sum_at_push {
                            ctx.probe("push-count-moved-sum-same");
                        }
                        if inst.dirty_hi {
                            ctx.probe("push-bucket>=63-published");
                            nt_hi_pushed = true;
                        }
                    }
                    inst.published = inst.local.clone();
                    inst.dirty_hi = false;
                    inst.obs_since_push = 0;
                    inst.sum_at_push = inst.local.sum;
                }
                if touched == 0 {
                    ctx.probe("push-of-empty-pusher");
                }
                ctx.event(simkit::mix(5, simkit::mix(t as u64, u64::from(p))), || format!("{i}: t{t} push pusher {p} ({touched} pair(s))"));
            }
            Op::Report { t } => {
                let t = match *t {
                    Some(t) if t < model.alive.len() && model.alive[t] => Some(t),
                    Some(_) => continue,
                    None => None,
                };
                let seen = do_report(&coord, t)?;
                let seen = seen.map_err(|m| Violation::new("report-malformed", format!("op {i}: {m}")))?;
                let mut h = 6_u64;
                for s in &seen {
                    h = simkit::mix(h, seen_code(s, sc.events.get(s.ev).is_some_and(|e| e.timed)));
                }
                ctx.event(h, || {
                    format!(
                        "{i}: report on {t:?}: {:?}",
                        seen.iter().map(|s| (s.ev, s.count, s.sum, s.hist.as_ref().map(|h| h.1.clone()))).collect::<Vec<_>>()
                    )
                });
                check_report(&model, &seen, &format!("op {i} (report on {t:?})"), ctx)?;
                if reports > 0 && exits_since_report > 0 {
                    ctx.probe("thread-exited-between-reports");
                    nt_exit_between_reports = true;
                }
                reports += 1;
                exits_since_report = 0;
            }
            Op::Exit { t } => {
                let t = *t;
                if t >= model.alive.len() || !model.alive[t] {
                    continue;
                }
                coord.exit_thread(t).map_err(|e| exec_err("thread exit", &e))?;
                model.alive[t] = false;
                let keys: Vec<(usize, usize)> = model.inst.keys().filter(|(tt, _)| *tt == t).copied().collect();
                let mut unpushed = false;
                let mut pushed = false;
                for k in keys {
                    let inst = model.inst.remove(&k).expect("key");
                    if matches!(inst.kind, Kind::Push(_)) {
                        if inst.local.count != inst.published.count {
                            unpushed = true;
                        } else if inst.local.count > 0 {
                            pushed = true;
                        }
                    }
                    model.archive[k.1].add(&inst.published);
                }
                if unpushed {
                    ctx.probe("exit-with-unpushed-observations");
                }
                if pushed {
                    ctx.probe("exit-after-push");
                }
                exits_since_report += 1;
                ctx.event(simkit::mix(7, t as u64), || format!("{i}: t{t} exits (unpushed left behind: {unpushed})"));
            }
        }
    }
    // Final: an implicit report with the remaining threads alive, then everything exits and the
    // archive alone must carry the totals.
    let seen = sut::collect(&sh).map_err(|m| Violation::new("report-malformed", format!("final-live: {m}")))?;
    check_report(&model, &seen, "final report (threads still alive)", ctx)?;
    let remaining: Vec<usize> = (0..model.alive.len()).filter(|t| model.alive[*t]).collect();
    for t in remaining {
        coord.exit_thread(t).map_err(|e| exec_err("thread exit", &e))?;
        model.alive[t] = false;
        let keys: Vec<(usize, usize)> = model.inst.keys().filter(|(tt, _)| *tt == t).copied().collect();
        for k in keys {
            let inst = model.inst.remove(&k).expect("key");
            model.archive[k.1].add(&inst.published);
        }
    }
    let seen = sut::collect(&sh).map_err(|m| Violation::new("report-malformed", format!("final-archived: {m}")))?;
    let mut h = 8_u64;
    for s in &seen {
        h = simkit::mix(h, seen_code(s, sc.events.get(s.ev).is_some_and(|e| e.timed)));
    }
    ctx.event(h, || format!("final report after all threads exited: {:?}", seen.iter().map(|s| (s.ev, s.count, s.sum)).collect::<Vec<_>>()));
    check_report(&model, &seen, "final report (all threads exited)", ctx)?;
    Ok(nt_exit_between_reports || nt_hi_pushed)
}

fn simpler_op(op: &Op) -> Vec<Op> {
    match op {
        Op::Observe { t, ev, how, m, n, ns } => {
            let mut v = Vec::new();
            if !how.is_simple() {
                let h = if matches!(how, How::BatchDuration) { How::Duration } else { How::Observe };
                let (me, ne) = how.effective(*m, *n);
                v.push(Op::Observe { t: *t, ev: *ev, how: h, m: me.unwrap_or(0), n: ne.min(1), ns: 0 });
            }
            if *ns != 0 {
                v.push(Op::Observe { t: *t, ev: *ev, how: *how, m: *m, n: *n, ns: 0 });
            }
            if *n > 1 {
                v.push(Op::Observe { t: *t, ev: *ev, how: *how, m: *m, n: 1, ns: *ns });
            }
            if *m != 0 && *m != 1 {
                v.push(Op::Observe { t: *t, ev: *ev, how: *how, m: if *m > 0 { 1 } else { 0 }, n: *n, ns: *ns });
            }
            v
        }
        Op::Build { t, ev, kind } if *kind != Kind::Pull && *kind != Kind::Push(0) => {
            vec![Op::Build { t: *t, ev: *ev, kind: Kind::Push(0) }]
        }
        Op::Report { t: Some(_) } => vec![Op::Report { t: None }],
        _ => Vec::new(),
    }
}

fn op_weight(op: &Op) -> usize {
    4 + match op {
        Op::Observe { how, m, n, ns, .. } => {
            usize::from(!how.is_simple()) + usize::from(*ns != 0) + usize::from(*n > 1) + usize::from(*m != 0 && *m != 1)
        }
        Op::Build { kind, .. } => usize::from(*kind != Kind::Pull && *kind != Kind::Push(0)),
        Op::Report { t: Some(_) } => 1,
        _ => 0,
    }
}

fn shrink(sc: &HistScenario) -> Vec<HistScenario> {
    let mut out: Vec<HistScenario> = simkit::shrink::remove_chunks(&sc.ops)
        .into_iter()
        .map(|ops| HistScenario { ops, ..sc.clone() })
        .collect();
    // Drop an event no operation refers to (renumbering the others).
    for k in 0..sc.events.len() {
        let used = sc.ops.iter().any(|op| matches!(op, Op::Build { ev, .. } | Op::Observe { ev, .. } if *ev == k));
        if used || sc.events.len() < 2 {
            continue;
        }
        let mut s = sc.clone();
        s.events.remove(k);
        for op in &mut s.ops {
            if let Op::Build { ev, .. } | Op::Observe { ev, .. } = op {
                if *ev > k {
                    *ev -= 1;
                }
            }
        }
        out.push(s);
    }
    // Fewer buckets (keep the tail: high indices are usually what matters, so drop from the front
    // in halves, then drop the last).
    for (k, e) in sc.events.iter().enumerate() {
        let n = e.buckets.len();
        let mut cands: Vec<Vec<i64>> = Vec::new();
        if n > 1 {
            cands.push(e.buckets[n / 2..].to_vec());
            cands.push(e.buckets[..n / 2].to_vec());
            cands.push(e.buckets[1..].to_vec());
            cands.push(e.buckets[..n - 1].to_vec());
        } else if n == 1 {
            cands.push(Vec::new());
        }
        for b in cands {
            let mut s = sc.clone();
            s.events[k].buckets = b;
            out.push(s);
        }
    }
    out.extend(
        simkit::shrink::simplify_each(&sc.ops, simpler_op)
            .into_iter()
            .map(|ops| HistScenario { ops, ..sc.clone() }),
    );
    out
}

fn size(sc: &HistScenario) -> usize {
    sc.ops.iter().map(op_weight).sum::<usize>() + sc.events.iter().map(|e| 1 + e.buckets.len()).sum::<usize>()
}

/// Mode `strict`: long histories, native.
#[derive(Clone, Debug, Serialize, Deserialize)]
#[serde(transparent)]
pub struct Strict(pub HistScenario);

impl Scenario for Strict {
    fn generate(rng: &mut Rng, mode: &str) -> Self {
        let lim = if mode == "tiny" {
            Limits { max_events: 2, max_threads0: 2, max_ops: 16, small_buckets: true }
        } else {
            Limits { max_events: 5, max_threads0: 4, max_ops: 90, small_buckets: false }
        };
        Strict(generate(rng, &lim))
    }
    fn run(&self, ctx: &mut Ctx) -> Result<bool, Violation> {
        run(&self.0, ctx)
    }
    fn shrink(&self) -> Vec<Self> {
        shrink(&self.0).into_iter().map(Strict).collect()
    }
    fn size(&self) -> usize {
        size(&self.0)
    }
}
