//! Generators shared by the modes: bucket sets, magnitudes on and next to every bound, batch sizes.

use simkit::Rng;

use crate::model::{EventDef, How};

/// Number of buckets: 0, a few, around the dirty-bitmap limit (62/63/64) and up to 70.
pub fn bucket_count(rng: &mut Rng, small: bool) -> usize {
    if small {
        return match rng.weighted(&[3, 10, 2]) {
            0 => 0,
            1 => rng.range_usize(1, 5),
            _ => rng.range_usize(63, 66),
        };
    }
    match rng.weighted(&[3, 7, 2, 9]) {
        0 => 0,
        1 => rng.range_usize(1, 8),
        2 => rng.range_usize(9, 62),
        _ => rng.range_usize(63, 70),
    }
}

/// A strictly ascending bucket set without `i64::MAX`, in one of several styles: dense around
/// zero (so "next to a bound" is often the neighbouring bucket), spread, hugging `i64::MIN`,
/// hugging `i64::MAX - 1`, or both ends at once.
pub fn bucket_set(rng: &mut Rng, n: usize) -> Vec<i64> {
    if n == 0 {
        return Vec::new();
    }
    let style = rng.weighted(&[5, 3, 2, 2, 2, 2]);
    let mut v: Vec<i64> = Vec::with_capacity(n);
    match style {
        0 => {
            // dense: steps 1..=3 starting somewhere below zero
            let mut x = rng.range_i64(-(n as i64) - 5, 3);
            for _ in 0..n {
                v.push(x);
                x += rng.range_i64(1, 3);
            }
        }
        1 => {
            // spread: geometric-ish positive bounds like real latency histograms
            let mut x = rng.range_i64(0, 3);
            for _ in 0..n {
                v.push(x);
                x = x.saturating_add(rng.range_i64(1, 1 + x.max(1))).min(i64::MAX - 1 - n as i64);
            }
            v.sort_unstable();
            v.dedup();
            let mut next = v.last().copied().unwrap_or(0);
            while v.len() < n {
                next += 1;
                v.push(next);
            }
        }
        2 => {
            // hugging MIN
            let mut x = i64::MIN;
            for _ in 0..n {
                v.push(x);
                x += rng.range_i64(1, 2);
            }
        }
        3 => {
            // hugging MAX-1 from below
            let mut x = i64::MAX - 1;
            for _ in 0..n {
                v.push(x);
                x -= rng.range_i64(1, 2);
            }
            v.reverse();
        }
        4 => {
            // both ends plus a stretch around zero
            let lo = n / 3;
            let hi = n / 3;
            let mid = n - lo - hi;
            let mut x = i64::MIN;
            for _ in 0..lo {
                v.push(x);
                x += rng.range_i64(1, 2);
            }
            let mut y = -(mid as i64) / 2;
            for _ in 0..mid {
                v.push(y);
                y += 1;
            }
            let mut z = i64::MAX - 1 - 2 * hi as i64;
            for _ in 0..hi {
                z += rng.range_i64(1, 2);
                v.push(z);
            }
        }
        _ => {
            // arbitrary distinct values
            while v.len() < n {
                let x = rng.next_u64() as i64;
                if x != i64::MAX && !v.contains(&x) {
                    v.push(x);
                }
            }
            v.sort_unstable();
        }
    }
    debug_assert!(v.windows(2).all(|w| w[0] < w[1]) && !v.contains(&i64::MAX) && v.len() == n);
    v
}

pub fn event_def(rng: &mut Rng, small: bool, allow_timed: bool) -> EventDef {
    let n = bucket_count(rng, small);
    EventDef {
        buckets: bucket_set(rng, n),
        timed: allow_timed && rng.chance(1, 14),
    }
}

/// A magnitude aimed at the structure of `bounds`: on a bound, one below, one above (biased to
/// indices 61..=64 and the last bucket), beyond the last bound, or one of the global extremes.
pub fn magnitude(rng: &mut Rng, bounds: &[i64]) -> i64 {
    const EXTREMES: [i64; 9] = [i64::MIN, i64::MIN + 1, -2, -1, 0, 1, 2, i64::MAX - 1, i64::MAX];
    if bounds.is_empty() || rng.chance(1, 7) {
        return if rng.chance(1, 3) {
            rng.range_i64(-20, 20)
        } else {
            *rng.pick(&EXTREMES)
        };
    }
    let n = bounds.len();
    let idx = match rng.weighted(&[6, 2, 3, 3, 3]) {
        0 => rng.below_usize(n),
        1 => n - 1,
        2 => 62.min(n - 1),
        3 => 63.min(n - 1),
        _ => rng.range_usize(63.min(n - 1), n - 1),
    };
    let b = bounds[idx];
    match rng.weighted(&[5, 2, 2]) {
        0 => b,
        1 => b.saturating_sub(1),
        _ => b.saturating_add(1),
    }
}

/// Batch sizes: mostly small, sometimes zero (a documented no-op), sometimes large enough that
/// `m * n` wraps for big magnitudes; never large enough for the *count* to wrap (the crate documents
/// that as accepted mangling, outside the property).
pub fn batch_size(rng: &mut Rng) -> u64 {
    match rng.weighted(&[1, 8, 8, 2, 1]) {
        0 => 0,
        1 => 1,
        2 => rng.range(2, 10),
        3 => rng.range(11, 100_000),
        _ => rng.range(1 << 20, 1 << 40),
    }
}

pub fn how(rng: &mut Rng, timed: bool, m: i64) -> How {
    if timed {
        return if rng.bool() { How::Duration } else { How::BatchDuration };
    }
    let h = match rng.weighted(&[10, 1, 1, 2, 2, 8, 2, 2, 1, 1]) {
        0 => How::Observe,
        1 => How::ObserveI32,
        2 => How::ObserveU64,
        3 => How::Once,
        4 => How::Millis,
        5 => How::Batch,
        6 => How::BatchOnce,
        7 => How::BatchMillis,
        8 => How::TraitObserve,
        _ => How::TraitBatch,
    };
    // Keep the magnitude the generator aimed for where the variant would otherwise distort it.
    match h {
        How::Millis if m < 0 => How::Observe,
        How::BatchMillis if m < 0 => How::Batch,
        How::ObserveI32 if i64::from(m as i32) != m && rng.chance(3, 4) => How::Observe,
        other => other,
    }
}

/// Bucket sets the builder must reject: not strictly ascending, or containing `i64::MAX`.
pub fn bad_bucket_set(rng: &mut Rng) -> Vec<i64> {
    match rng.below(3) {
        0 => vec![3, 1, 2],
        1 => vec![1, 2, 2],
        _ => vec![0, 5, i64::MAX],
    }
}
