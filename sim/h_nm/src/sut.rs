//! The system under test as seen from one thread: real `nm` events, pushers and reports, driven
//! through the public builder API only. Everything here runs on the *calling* thread (events and
//! pushers are `!Send`), so both engines (coordinator threads, free-running threads under Miri)
//! share it.

use std::cell::RefCell;
use std::collections::BTreeMap;
use std::sync::Mutex;
use std::sync::atomic::{AtomicU64, Ordering};
use std::time::Duration;

use nm::{Event, MetricsPusher, Observe, Pull, Push, Report};

use crate::model::{How, Kind, Seen};

/// Per-process run counter: registries are process-global, so every run (also the audit re-run of
/// the same scenario in the same process) uses fresh event names. Never logged, never hashed.
static NONCE: AtomicU64 = AtomicU64::new(0);

/// Bucket arrays must be `&'static`; they are leaked per run and kept reachable from here so that
/// Miri's leak check stays meaningful for everything else.
static LEAKED: Mutex<Vec<&'static [i64]>> = Mutex::new(Vec::new());

pub fn fresh_prefix() -> String {
    let n = NONCE.fetch_add(1, Ordering::Relaxed);
    format!("c16sim/{n:010}/")
}

pub fn event_name(prefix: &str, ev: usize) -> String {
    format!("{prefix}{ev:03}")
}

pub fn leak_buckets(b: &[i64]) -> &'static [i64] {
    let s: &'static [i64] = Box::leak(b.to_vec().into_boxed_slice());
    LEAKED.lock().expect("leak list").push(s);
    s
}

/// Names and bucket arrays of one run, shared with every simulated thread.
pub struct Shared {
    pub prefix: String,
    pub buckets: Vec<&'static [i64]>,
}

impl Shared {
    pub fn new(bucket_sets: impl Iterator<Item = Vec<i64>>) -> Self {
        Self {
            prefix: fresh_prefix(),
            buckets: bucket_sets.map(|b| leak_buckets(&b)).collect(),
        }
    }
}

enum Ev {
    Pull(Event<Pull>),
    Push(Event<Push>),
}

#[derive(Default)]
struct ThreadState {
    events: BTreeMap<usize, Ev>,
    pushers: [Option<MetricsPusher>; 2],
}

thread_local! {
    static STATE: RefCell<ThreadState> = RefCell::new(ThreadState::default());
    /// Pusher 2: reached through `EventBuilder::pusher_local`.
    static LOCAL_PUSHER: MetricsPusher = MetricsPusher::new();
}

/// Builds event `ev` on the calling thread. Returns false if it already exists here (the
/// scenario is then malformed, e.g. after shrinking; the op is skipped).
pub fn build(sh: &Shared, ev: usize, kind: Kind) -> bool {
    STATE.with_borrow_mut(|s| {
        if s.events.contains_key(&ev) {
            return false;
        }
        let name = event_name(&sh.prefix, ev);
        let b = Event::builder().name(name).histogram(sh.buckets[ev]);
        let built = match kind {
            Kind::Pull => Ev::Pull(b.build()),
            Kind::Push(2) => Ev::Push(b.pusher_local(&LOCAL_PUSHER).build()),
            Kind::Push(p) => {
                let slot = &mut s.pushers[usize::from(p.min(1))];
                let pusher = slot.get_or_insert_with(MetricsPusher::new);
                Ev::Push(b.pusher(pusher).build())
            }
        };
        s.events.insert(ev, built);
        true
    })
}

/// Bad bucket sets the builder documents as rejected (panic). Returns normally only if the
/// builder accepted them.
pub fn build_bad(sh: &Shared, ev: usize, bad: &'static [i64]) {
    let name = event_name(&sh.prefix, ev);
    let e = Event::builder().name(name).histogram(bad).build();
    drop(e);
}

fn observe_generic<O: Observe>(o: &O, m: i64) {
    o.observe(m);
}

fn observe_on<P: nm::PublishModel>(e: &Event<P>, how: How, m: i64, n: u64, extra_nanos: u32) {
    let n = n as usize;
    let dur = || Duration::from_millis((m & i64::MAX) as u64) + Duration::from_nanos(u64::from(extra_nanos % 1_000_000));
    match how {
        How::Observe => e.observe(m),
        How::ObserveI32 => e.observe(m as i32),
        How::ObserveU64 => e.observe(m as u64),
        How::Once => e.observe_once(),
        How::Millis => e.observe_millis(dur()),
        How::Batch => e.batch(n).observe(m),
        How::BatchOnce => e.batch(n).observe_once(),
        How::BatchMillis => e.batch(n).observe_millis(dur()),
        How::TraitObserve => observe_generic(e, m),
        How::TraitBatch => observe_generic(&e.batch(n), m),
        How::Duration => e.observe_duration_millis(|| ()),
        How::BatchDuration => e.batch(n).observe_duration_millis(|| ()),
    }
}

/// Returns false if the event does not exist on this thread (op skipped).
pub fn observe(ev: usize, how: How, m: i64, n: u64, extra_nanos: u32) -> bool {
    STATE.with_borrow(|s| match s.events.get(&ev) {
        Some(Ev::Pull(e)) => {
            observe_on(e, how, m, n, extra_nanos);
            true
        }
        Some(Ev::Push(e)) => {
            observe_on(e, how, m, n, extra_nanos);
            true
        }
        None => false,
    })
}

/// Pushes pusher `p` of the calling thread (a pusher nothing was registered with is created on
/// demand for 0/1: pushing an empty pusher must be harmless).
pub fn push(p: u8) {
    if p >= 2 {
        LOCAL_PUSHER.with(MetricsPusher::push);
        return;
    }
    STATE.with_borrow_mut(|s| {
        s.pushers[usize::from(p)]
            .get_or_insert_with(MetricsPusher::new)
            .push();
    });
}

/// `Report::collect()` on the calling thread, reduced to the entries of this run's names, in
/// report order. `Err` if an own name does not parse or `Display` output is inconsistent.
pub fn collect(sh: &Shared) -> Result<Vec<Seen>, String> {
    let report = Report::collect();
    let mut out = Vec::new();
    for e in report.events() {
        let Some(rest) = e.name().strip_prefix(sh.prefix.as_str()) else {
            continue;
        };
        let ev: usize = rest.parse().map_err(|_| format!("unparsable own event name suffix {rest:?}"))?;
        let hist = e.histogram().map(|h| {
            let mags: Vec<i64> = h.magnitudes().collect();
            let counts: Vec<u64> = h.counts().collect();
            (mags, counts)
        });
        if let Some(h) = e.histogram() {
            let pairs: Vec<(i64, u64)> = h.buckets().collect();
            let (mags, counts) = hist.as_ref().expect("same option");
            let zipped: Vec<(i64, u64)> = mags.iter().copied().zip(counts.iter().copied()).collect();
            if pairs != zipped {
                return Err(format!("event {ev}: Histogram::buckets() disagrees with magnitudes()/counts()"));
            }
        }
        out.push(Seen {
            ev,
            count: e.count(),
            sum: e.sum(),
            mean: e.mean(),
            hist,
        });
    }
    Ok(out)
}
