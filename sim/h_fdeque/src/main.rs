//! C15 — `future_deque`: deque order of results whatever the completion order; a contained future
//! is polled only after it was inserted or woken; a wake from any thread at any time after Pending
//! wakes the deque's own (current) task and gets the future polled again; every future and every
//! output dropped exactly once; waker metadata freed with its last clone.
//!
//! Modes
//! * `hist` — single-threaded operation histories over `FutureDeque` / `LocalFutureDeque` (native
//!            bulk). Exact model: reference `VecDeque`, per-future activation flag, current parent.
//! * `hist-s` — the same with short histories, run under Miri (use-after-free / leak oracle for the
//!            single-threaded paths: slot reuse, metadata freed with the last clone).
//! * `mt`   — the deque is driven by one owner thread; 1–2 real threads wake / wake_by_ref / clone / drop
//!            clones of the crate's hand-written reference-counted `RawWaker` while the main thread
//!            polls (changing the parent waker), pops, pushes, drops stashed wakers and drops the
//!            deque. Meant for Miri (seeded scheduler, weak memory, data-race / UAF / leak oracle);
//!            also run natively on real cores as a stress configuration. Harness oracles use a
//!            `Relaxed` global stamp counter (orders harness events, adds no happens-before edge).
//!
//! Everything handed to the library is simulator-owned: the contained futures (scripted), their
//! outputs (drop-counted), and the parent wakers (counting `RawWakerVTable`).

mod prace;

use std::collections::VecDeque;
use std::future::Future;
use std::pin::Pin;
use std::sync::atomic::{AtomicBool, AtomicU32, AtomicU64, Ordering};
use std::sync::{Arc, Mutex, MutexGuard};
use std::task::{Context, Poll, RawWaker, RawWakerVTable, Waker};

use future_deque::{FutureDeque, LocalFutureDeque};
use futures_core::Stream;
use serde::{Deserialize, Serialize};
use simkit::{Ctx, Rng, Scenario, Violation, check, entry, mix};

/// Keys of known findings whose trigger the ordinary modes must not generate (none for C15).
const AVOID_KNOWN: &[&str] = &[];

// ------------------------------------------------------------------------------------------------
// Simulator-owned counting parent wakers
// ------------------------------------------------------------------------------------------------

#[derive(Default)]
struct PCount {
    clones: AtomicU32,
    drops: AtomicU32,
    wakes: AtomicU32,
    wakes_by_value: AtomicU32,
    /// mt mode: `yield_now` calls made inside `wake` / `wake_by_ref` before returning (the callback
    /// is a scheduling seam: the waking thread is still inside the deque waker's wake path).
    yields: AtomicU32,
}

fn cb_yield(c: &PCount) {
    for _ in 0..c.yields.load(Ordering::Relaxed) {
        std::thread::yield_now();
    }
}

static PVT: RawWakerVTable = RawWakerVTable::new(p_clone, p_wake, p_wake_by_ref, p_drop);

unsafe fn p_clone(p: *const ()) -> RawWaker {
    // SAFETY: p came from Arc::into_raw of an Arc<PCount> that is alive.
    let c = unsafe { &*p.cast::<PCount>() };
    c.clones.fetch_add(1, Ordering::Relaxed);
    // SAFETY: as above; one more reference for the new RawWaker.
    unsafe { Arc::increment_strong_count(p.cast::<PCount>()) };
    RawWaker::new(p, &PVT)
}

unsafe fn p_wake(p: *const ()) {
    // SAFETY: p came from Arc::into_raw; this consumes one reference.
    let c = unsafe { Arc::from_raw(p.cast::<PCount>()) };
    c.wakes.fetch_add(1, Ordering::Relaxed);
    c.wakes_by_value.fetch_add(1, Ordering::Relaxed);
    cb_yield(&c);
}

unsafe fn p_wake_by_ref(p: *const ()) {
    // SAFETY: p came from Arc::into_raw and is alive.
    let c = unsafe { &*p.cast::<PCount>() };
    c.wakes.fetch_add(1, Ordering::Relaxed);
    cb_yield(c);
}

unsafe fn p_drop(p: *const ()) {
    // SAFETY: p came from Arc::into_raw; this consumes one reference.
    let c = unsafe { Arc::from_raw(p.cast::<PCount>()) };
    c.drops.fetch_add(1, Ordering::Relaxed);
}

fn new_parent(c: &Arc<PCount>) -> Waker {
    let p = Arc::into_raw(Arc::clone(c)).cast::<()>();
    // SAFETY: the vtable functions uphold the RawWaker contract over an Arc<PCount>.
    unsafe { Waker::from_raw(RawWaker::new(p, &PVT)) }
}

const N_PARENTS: usize = 2;

// ------------------------------------------------------------------------------------------------
// Scripts
// ------------------------------------------------------------------------------------------------

#[derive(Clone, Copy, Debug, Serialize, Deserialize, PartialEq, Eq)]
enum Stash {
    /// Return Pending without keeping any waker.
    None,
    /// Keep a clone of the context's waker in the simulator registry.
    Keep,
    /// Drop every clone stashed earlier for this future, then keep a fresh clone.
    Replace,
}

#[derive(Clone, Copy, Debug, Serialize, Deserialize, PartialEq, Eq)]
enum SelfWake {
    None,
    /// `cx.waker().wake_by_ref()` during the poll.
    ByRef,
    /// `cx.waker().clone().wake()` during the poll.
    CloneWake,
    /// `wake_by_ref` on the oldest clone stashed for this future (if any) during the poll.
    Stashed,
}

/// What the future does on one poll that returns Pending. After the script is exhausted the next
/// poll returns Ready.
#[derive(Clone, Copy, Debug, Serialize, Deserialize, PartialEq, Eq)]
struct PStep {
    stash: Stash,
    wake: SelfWake,
    /// During this poll, `wake_by_ref` a stashed waker of another future (selector).
    poke: Option<u8>,
}

// ------------------------------------------------------------------------------------------------
// Shared simulator state
// ------------------------------------------------------------------------------------------------

struct FutState {
    script: Vec<PStep>,
    k: usize,
    /// Still inside a deque that has not been dropped and not yet popped.
    live: bool,
    /// Returned Ready.
    done: bool,
    /// Model of the activation flag (exact mode): set by insertion and by wakes, cleared by a poll.
    flag: bool,
    fut_drops: u32,
    out_created: bool,
    out_drops: u32,
    popped: bool,
    stash: Vec<Option<Waker>>,
    polls: u32,
    /// (stamp at entry of the future's poll, index of the enclosing deque call) per poll.
    poll_log: Vec<(u64, usize)>,
    /// Stamp at which the future returned Ready.
    done_at: u64,
    /// Value of the future's shared `stage` cell (published by other threads before they wake it)
    /// read by its most recent poll: a woken future's poll must observe what was published before
    /// the wake (a wake happens-before the poll it causes).
    seen_stage: u32,
}

#[derive(Default)]
struct State {
    futs: Vec<FutState>,
    /// Parent identity handed to the most recent deque poll of the live deque.
    cur_parent: Option<u8>,
    /// Index of the deque call in progress / most recent.
    call_idx: usize,
    polled_in_call: Vec<(usize, bool)>,
    problem: Option<Violation>,
    events: Vec<Ev>,
    probes: Vec<&'static str>,
}

struct Shared {
    stamp: AtomicU64,
    go: AtomicBool,
    parents: [Arc<PCount>; N_PARENTS],
    /// Single-threaded history: the activation-flag model is exact.
    exact: bool,
    keep_log: bool,
    /// mt mode: `yield_now` calls at the entry of every contained-future poll (the owner is then in
    /// the middle of the deque's slot scan).
    poll_yields: u8,
    /// Rendezvous counters of the mt mode.
    rv: [std::sync::atomic::AtomicU32; 4],
    /// Per future (index modulo): data published (Relaxed) by another thread before it wakes the
    /// future and read (Relaxed) by the future's poll - the wake is the only synchronisation.
    stage: [std::sync::atomic::AtomicU32; 32],
    st: Mutex<State>,
}

struct Ev {
    at: u64,
    code: u64,
    text: Option<String>,
}

impl Shared {
    fn new(exact: bool, keep_log: bool, poll_yields: u8, cb_yields: u8) -> Arc<Self> {
        let parents = [Arc::new(PCount::default()), Arc::new(PCount::default())];
        for p in &parents {
            p.yields.store(u32::from(cb_yields), Ordering::Relaxed);
        }
        Arc::new(Self {
            stamp: AtomicU64::new(1),
            go: AtomicBool::new(false),
            parents,
            exact,
            keep_log,
            poll_yields,
            rv: [const { std::sync::atomic::AtomicU32::new(0) }; 4],
            stage: [const { std::sync::atomic::AtomicU32::new(0) }; 32],
            st: Mutex::new(State::default()),
        })
    }

    /// Two-party rendezvous without any memory ordering (and bounded: never a harness deadlock).
    fn sync(&self, id: u8) {
        let c = &self.rv[usize::from(id) % self.rv.len()];
        c.fetch_add(1, Ordering::Relaxed);
        let mut spins = 0_u32;
        while c.load(Ordering::Relaxed) < 2 && spins < 2000 {
            std::thread::yield_now();
            spins += 1;
        }
    }

    fn tick(&self) -> u64 {
        self.stamp.fetch_add(1, Ordering::Relaxed)
    }

    fn lock(&self) -> MutexGuard<'_, State> {
        self.st.lock().unwrap_or_else(std::sync::PoisonError::into_inner)
    }

    fn wait_go(&self) {
        while !self.go.load(Ordering::Acquire) {
            std::thread::yield_now();
        }
    }

    fn ev(&self, st: &mut State, at: u64, parts: &[u64], text: impl FnOnce() -> String) {
        st.events.push(Ev {
            at,
            code: code(parts),
            text: if self.keep_log { Some(text()) } else { None },
        });
    }
}

fn code(parts: &[u64]) -> u64 {
    parts.iter().fold(0x15, |a, b| mix(a, *b))
}

fn problem(st: &mut State, class: &str, detail: String) {
    if st.problem.is_none() {
        st.problem = Some(Violation::new(class, detail));
    }
}

fn yields(n: u8) {
    for _ in 0..n {
        std::thread::yield_now();
    }
}

/// Performs a wake of `target`'s waker through `act` and applies the activation model: in exact
/// mode, a wake of a live pending future whose flag is clear must invoke the *current* parent.
fn modelled_wake(sh: &Shared, st: &mut State, target: usize, what: &str, act: impl FnOnce()) {
    let f = &st.futs[target];
    let pending_live = f.live && !f.done;
    let need = sh.exact && pending_live && !f.flag;
    let cur = st.cur_parent;
    let before = cur.map(|p| sh.parents[p as usize].wakes.load(Ordering::Relaxed));
    act();
    if need {
        st.probes.push("wake-0to1");
        let ok = match (cur, before) {
            (Some(p), Some(b)) => sh.parents[p as usize].wakes.load(Ordering::Relaxed) > b,
            _ => false,
        };
        if !ok {
            problem(
                st,
                "parent-not-woken",
                format!(
                    "{what} of future {target} (pending, not woken since its last poll) did not invoke the current parent waker {cur:?}"
                ),
            );
        }
    } else if pending_live {
        st.probes.push("wake-already-active");
    } else {
        st.probes.push("wake-stale");
    }
    if pending_live {
        st.futs[target].flag = true;
    }
}

// ------------------------------------------------------------------------------------------------
// Simulator-owned outputs and futures
// ------------------------------------------------------------------------------------------------

struct Out {
    id: u32,
    // Heap indirection: duplication is a double free and loss a leak under Miri, too.
    boxed: Box<u32>,
    sh: Arc<Shared>,
}

impl Drop for Out {
    fn drop(&mut self) {
        let mut st = self.sh.lock();
        st.futs[self.id as usize].out_drops += 1;
    }
}

struct SimFut {
    fid: usize,
    boxed: Box<u32>,
    sh: Arc<Shared>,
}

impl Drop for SimFut {
    fn drop(&mut self) {
        let mut st = self.sh.lock();
        st.futs[self.fid].fut_drops += 1;
    }
}

impl Future for SimFut {
    type Output = Out;

    fn poll(self: Pin<&mut Self>, cx: &mut Context<'_>) -> Poll<Out> {
        let sh = Arc::clone(&self.sh);
        let fid = self.fid;
        yields(sh.poll_yields);
        let at = sh.tick();
        let seen_stage = sh.stage[fid % 32].load(Ordering::Relaxed);
        let mut guard = sh.lock();
        let st = &mut *guard;
        st.futs[fid].seen_stage = seen_stage;
        if *self.boxed != fid as u32 {
            problem(st, "future-corrupted", format!("future {fid} carries {}", *self.boxed));
        }
        if st.futs[fid].done {
            problem(st, "poll-after-ready", format!("future {fid} polled again after it returned Ready"));
            return Poll::Pending;
        }
        if !st.futs[fid].live {
            problem(st, "poll-outside-deque", format!("future {fid} polled although its deque is gone"));
        }
        if sh.exact {
            if !st.futs[fid].flag {
                problem(
                    st,
                    "spurious-poll",
                    format!("future {fid} polled although it was neither inserted nor woken since its previous poll"),
                );
            }
            st.futs[fid].flag = false;
        }
        let call = st.call_idx;
        let f = &mut st.futs[fid];
        f.polls += 1;
        f.poll_log.push((at, call));
        let k = f.k;
        f.k += 1;
        let step = f.script.get(k).copied();
        let Some(step) = step else {
            f.done = true;
            f.out_created = true;
            f.done_at = at;
            st.polled_in_call.push((fid, true));
            sh.ev(st, at, &[6, fid as u64, k as u64, 1], || format!("  fut{fid} poll#{k} -> Ready"));
            return Poll::Ready(Out {
                id: fid as u32,
                boxed: Box::new(fid as u32),
                sh: Arc::clone(&sh),
            });
        };
        st.polled_in_call.push((fid, false));
        sh.ev(st, at, &[6, fid as u64, k as u64, 0], || format!("  fut{fid} poll#{k} -> Pending {step:?}"));
        match step.stash {
            Stash::None => st.probes.push("pending-without-stash"),
            Stash::Keep => st.futs[fid].stash.push(Some(cx.waker().clone())),
            Stash::Replace => {
                let old: Vec<Option<Waker>> = std::mem::take(&mut st.futs[fid].stash);
                if old.iter().any(Option::is_some) {
                    st.probes.push("stash-replaced");
                }
                st.futs[fid].stash.push(Some(cx.waker().clone()));
                drop(old);
            }
        }
        match step.wake {
            SelfWake::None => {}
            SelfWake::ByRef => {
                st.probes.push("self-wake-during-poll");
                modelled_wake(&sh, st, fid, "wake_by_ref during poll", || cx.waker().wake_by_ref());
            }
            SelfWake::CloneWake => {
                st.probes.push("self-wake-during-poll");
                modelled_wake(&sh, st, fid, "clone+wake during poll", || cx.waker().clone().wake());
            }
            SelfWake::Stashed => {
                let pos = st.futs[fid].stash.iter().position(Option::is_some);
                if let Some(pos) = pos {
                    let w = st.futs[fid].stash[pos].take().expect("present");
                    st.probes.push("self-wake-during-poll");
                    modelled_wake(&sh, st, fid, "wake_by_ref of stashed clone during poll", || w.wake_by_ref());
                    st.futs[fid].stash[pos] = Some(w);
                }
            }
        }
        if let Some(sel) = step.poke {
            // Wake another live pending future's stashed waker from inside this poll.
            let cands: Vec<(usize, usize)> = st
                .futs
                .iter()
                .enumerate()
                .filter(|(i, f)| *i != fid && f.live && !f.done)
                .flat_map(|(i, f)| f.stash.iter().enumerate().filter(|(_, w)| w.is_some()).map(move |(s, _)| (i, s)))
                .collect();
            if !cands.is_empty() {
                let (other, slot) = cands[usize::from(sel) % cands.len()];
                let w = st.futs[other].stash[slot].take().expect("present");
                st.probes.push("poke-other-during-poll");
                sh.ev(st, at, &[7, fid as u64, other as u64], || format!("  fut{fid} pokes fut{other}"));
                modelled_wake(&sh, st, other, "wake_by_ref from another future's poll", || w.wake_by_ref());
                st.futs[other].stash[slot] = Some(w);
            }
        }
        Poll::Pending
    }
}

// ------------------------------------------------------------------------------------------------
// The deque under test, both variants behind one face
// ------------------------------------------------------------------------------------------------

enum Dq {
    S(FutureDeque<Out>),
    L(LocalFutureDeque<Out>),
}

macro_rules! dq {
    ($s:expr, $d:ident => $e:expr) => {
        match $s {
            Dq::S($d) => $e,
            Dq::L($d) => $e,
        }
    };
}

#[derive(Clone, Copy, Debug, Serialize, Deserialize, PartialEq, Eq)]
enum PollKind {
    /// Inherent `poll`.
    All,
    /// `Future::poll` through `Pin`.
    AllFuture,
    /// Inherent `poll_front`.
    Front,
    /// `Stream::poll_next` through `Pin`.
    FrontStream,
    /// Inherent `poll_back`.
    Back,
}

enum PollOut {
    AllReady,
    AllPending,
    Item(Out),
    Empty,
    Pending,
}

impl Dq {
    fn new(local: bool) -> Self {
        if local { Dq::L(LocalFutureDeque::new()) } else { Dq::S(FutureDeque::new()) }
    }

    fn push(&mut self, front: bool, f: SimFut) {
        dq!(self, d => if front { d.push_front(f) } else { d.push_back(f) });
    }

    fn len(&self) -> usize {
        dq!(self, d => d.len())
    }

    fn is_empty(&self) -> bool {
        dq!(self, d => d.is_empty())
    }

    fn pop(&mut self, front: bool) -> Option<Out> {
        dq!(self, d => if front { d.pop_front() } else { d.pop_back() })
    }

    fn poll(&mut self, kind: PollKind, w: &Waker) -> PollOut {
        let mut cx = Context::from_waker(w);
        fn all(p: Poll<()>) -> PollOut {
            if p.is_ready() { PollOut::AllReady } else { PollOut::AllPending }
        }
        fn item(p: Poll<Option<Out>>) -> PollOut {
            match p {
                Poll::Ready(Some(v)) => PollOut::Item(v),
                Poll::Ready(None) => PollOut::Empty,
                Poll::Pending => PollOut::Pending,
            }
        }
        match kind {
            PollKind::All => all(dq!(self, d => d.poll(&cx))),
            PollKind::AllFuture => all(dq!(self, d => Future::poll(Pin::new(d), &mut cx))),
            PollKind::Front => item(dq!(self, d => d.poll_front(&cx))),
            PollKind::FrontStream => item(dq!(self, d => Stream::poll_next(Pin::new(d), &mut cx))),
            PollKind::Back => item(dq!(self, d => d.poll_back(&cx))),
        }
    }
}

// ------------------------------------------------------------------------------------------------
// Driver: executes deque operations on the owning thread and checks them against the model
// ------------------------------------------------------------------------------------------------

struct CallRec {
    d_start: u64,
    d_end: u64,
    parent: u8,
    wakes_before: u32,
}

struct Driver {
    sh: Arc<Shared>,
    local: bool,
    dq: Option<Dq>,
    /// Reference deque: future ids in deque order (state lives in `State::futs`).
    model: VecDeque<usize>,
    calls: Vec<CallRec>,
    ooo: u32,
    parent_changes: u32,
    pops: u32,
    /// Stamp at which the deque was dropped (mt mode).
    dropped_at: Option<u64>,
}

impl Driver {
    fn new(sh: &Arc<Shared>, local: bool) -> Self {
        Self {
            sh: Arc::clone(sh),
            local,
            dq: None,
            model: VecDeque::new(),
            calls: Vec::new(),
            ooo: 0,
            parent_changes: 0,
            pops: 0,
            dropped_at: None,
        }
    }

    fn take_problem(&self) -> Result<(), Violation> {
        take_problem(&self.sh)
    }

    fn push(&mut self, front: bool, script: &[PStep]) -> usize {
        let sh = Arc::clone(&self.sh);
        let at = sh.tick();
        let fid = {
            let mut st = sh.lock();
            let fid = st.futs.len();
            st.futs.push(FutState {
                script: script.to_vec(),
                k: 0,
                live: true,
                done: false,
                flag: true,
                fut_drops: 0,
                out_created: false,
                out_drops: 0,
                popped: false,
                stash: Vec::new(),
                polls: 0,
                poll_log: Vec::new(),
                seen_stage: 0,
                done_at: 0,
            });
            let n = script.len();
            sh.ev(&mut st, at, &[1, u64::from(front), fid as u64, n as u64], || {
                format!("push_{} fut{fid} script {script:?}", if front { "front" } else { "back" })
            });
            fid
        };
        let local = self.local;
        let d = self.dq.get_or_insert_with(|| Dq::new(local));
        d.push(front, SimFut { fid, boxed: Box::new(fid as u32), sh: Arc::clone(&sh) });
        if front {
            self.model.push_front(fid);
        } else {
            self.model.push_back(fid);
        }
        fid
    }

    /// Consumes a popped / polled-out value: identity, integrity, not yet destroyed; then drops it.
    fn consume(&mut self, v: Out, want: usize, how: &str) -> Result<(), Violation> {
        let id = v.id as usize;
        check!(
            id == want && *v.boxed == v.id,
            "wrong-value",
            "{how} returned value {id} (boxed {}), the reference deque has {want} there",
            *v.boxed
        );
        {
            let st = self.sh.lock();
            check!(
                st.futs[id].out_drops == 0,
                "output-destroyed-while-held",
                "{how}: output {id} had already been dropped {} time(s)",
                st.futs[id].out_drops
            );
            check!(!st.futs[id].popped, "value-popped-twice", "{how}: value {id} was already popped");
        }
        drop(v);
        let mut st = self.sh.lock();
        st.futs[id].popped = true;
        st.futs[id].live = false;
        self.pops += 1;
        Ok(())
    }

    fn poll(&mut self, kind: PollKind, parent: u8) -> Result<(), Violation> {
        let sh = Arc::clone(&self.sh);
        let Some(d) = self.dq.as_mut() else { return Ok(()) };
        let pc = &sh.parents[parent as usize];
        let d_start = sh.tick();
        let must: Vec<usize>;
        {
            let mut st = sh.lock();
            must = if sh.exact {
                self.model.iter().copied().filter(|&f| !st.futs[f].done && st.futs[f].flag).collect()
            } else {
                Vec::new()
            };
            let any_pending = self.model.iter().any(|&f| !st.futs[f].done);
            if let Some(prev) = st.cur_parent {
                if prev != parent && any_pending {
                    self.parent_changes += 1;
                    st.probes.push("parent-changed-with-pending");
                }
            }
            st.cur_parent = Some(parent);
            st.call_idx = self.calls.len();
            st.polled_in_call.clear();
        }
        self.calls.push(CallRec {
            d_start,
            d_end: 0,
            parent,
            wakes_before: pc.wakes.load(Ordering::Relaxed),
        });
        let w = new_parent(pc);
        let out = d.poll(kind, &w);
        drop(w);
        let d_end = sh.tick();
        self.calls.last_mut().expect("pushed").d_end = d_end;

        let polled = {
            let mut st = sh.lock();
            std::mem::take(&mut st.polled_in_call)
        };
        // Out-of-order completions: a future completed while one closer to the front is pending.
        {
            let mut st = sh.lock();
            for (fid, ready) in &polled {
                if *ready {
                    let pos = self.model.iter().position(|f| f == fid);
                    if let Some(pos) = pos {
                        if self.model.iter().take(pos).any(|&f| !st.futs[f].done) {
                            self.ooo += 1;
                            st.probes.push("out-of-order-completion");
                        }
                    }
                }
            }
            for m in &must {
                if !polled.iter().any(|(f, _)| f == m) {
                    problem(
                        &mut st,
                        "missed-poll",
                        format!("future {m} was inserted or woken before this deque poll but was not polled by it"),
                    );
                }
            }
            if polled.iter().filter(|(_, r)| !*r).count() >= 2 {
                st.probes.push("several-polled-in-one-call");
            }
        }
        // Expected result from the reference deque.
        let (all_done, front_done, back_done) = {
            let st = sh.lock();
            (
                self.model.iter().all(|&f| st.futs[f].done),
                self.model.front().map(|&f| st.futs[f].done),
                self.model.back().map(|&f| st.futs[f].done),
            )
        };
        let summary: u64;
        let text: String;
        match (kind, out) {
            (PollKind::All | PollKind::AllFuture, PollOut::AllReady) => {
                summary = 1;
                text = "Ready(())".into();
                check!(all_done, "ready-with-pending", "poll returned Ready(()) while a contained future is still pending");
            }
            (PollKind::All | PollKind::AllFuture, PollOut::AllPending) => {
                summary = 2;
                text = "Pending".into();
                check!(!all_done, "pending-without-pending", "poll returned Pending although no contained future is pending");
            }
            (PollKind::Front | PollKind::FrontStream | PollKind::Back, PollOut::Item(v)) => {
                let front = kind != PollKind::Back;
                let (end_done, want) = if front {
                    (front_done, self.model.front().copied())
                } else {
                    (back_done, self.model.back().copied())
                };
                let got = v.id;
                summary = 100 + u64::from(got);
                text = format!("Ready(Some({got}))");
                check!(
                    end_done == Some(true),
                    "popped-not-completed-end",
                    "{kind:?} returned value {got} but the reference deque's end item is {want:?} with completed={end_done:?}"
                );
                let want = want.expect("non-empty");
                self.consume(v, want, "poll_front/back")?;
                if front {
                    self.model.pop_front();
                } else {
                    self.model.pop_back();
                }
            }
            (PollKind::Front | PollKind::FrontStream | PollKind::Back, PollOut::Empty) => {
                summary = 3;
                text = "Ready(None)".into();
                check!(self.model.is_empty(), "none-with-entries", "{kind:?} returned Ready(None) with {} entries", self.model.len());
            }
            (PollKind::Front | PollKind::FrontStream | PollKind::Back, PollOut::Pending) => {
                summary = 4;
                text = "Pending".into();
                let end_done = if kind == PollKind::Back { back_done } else { front_done };
                check!(
                    end_done == Some(false),
                    "end-not-popped",
                    "{kind:?} returned Pending but the reference deque's end item has completed={end_done:?}"
                );
            }
            _ => unreachable!("poll kind and result kind always agree"),
        }
        {
            let mut st = sh.lock();
            let np = polled.len() as u64;
            sh.ev(&mut st, d_end, &[2, kind as u64, u64::from(parent), summary, np], || {
                format!("{kind:?}(parent {parent}) -> {text}; polled {polled:?}")
            });
        }
        self.take_problem()
    }

    fn pop(&mut self, front: bool) -> Result<(), Violation> {
        let sh = Arc::clone(&self.sh);
        let Some(d) = self.dq.as_mut() else { return Ok(()) };
        let got = d.pop(front);
        let at = sh.tick();
        let want = if front { self.model.front().copied() } else { self.model.back().copied() };
        let want_done = want.map(|f| sh.lock().futs[f].done);
        let gid = got.as_ref().map(|v| v.id);
        {
            let mut st = sh.lock();
            sh.ev(&mut st, at, &[3, u64::from(front), gid.map_or(0, |g| u64::from(g) + 1)], || {
                format!("pop_{} -> {gid:?}", if front { "front" } else { "back" })
            });
        }
        let name = if front { "pop_front" } else { "pop_back" };
        match got {
            Some(v) => {
                check!(
                    want_done == Some(true),
                    "popped-not-completed-end",
                    "{name} returned value {} but the reference deque's end item is {want:?} with completed={want_done:?}",
                    v.id
                );
                self.consume(v, want.expect("non-empty"), name)?;
                if front {
                    self.model.pop_front();
                } else {
                    self.model.pop_back();
                }
                let mut st = sh.lock();
                st.probes.push(if front { "pop-front-some" } else { "pop-back-some" });
            }
            None => {
                check!(
                    want_done != Some(true),
                    "end-not-popped",
                    "{name} returned None although the reference deque's end item {want:?} has completed"
                );
                if want_done == Some(false) {
                    let blocked = {
                        let st = sh.lock();
                        self.model.iter().any(|&f| st.futs[f].done)
                    };
                    if blocked {
                        sh.lock().probes.push("pop-blocked-by-pending-end");
                    }
                }
            }
        }
        self.take_problem()
    }

    /// Checks that hold after every operation.
    fn invariants(&self) -> Result<(), Violation> {
        let st = self.sh.lock();
        if let Some(d) = &self.dq {
            check!(
                d.len() == self.model.len() && d.is_empty() == self.model.is_empty(),
                "len-mismatch",
                "len() = {}, is_empty() = {}, reference deque has {} entries",
                d.len(),
                d.is_empty(),
                self.model.len()
            );
        }
        for (i, f) in st.futs.iter().enumerate() {
            check!(f.fut_drops <= 1, "future-dropped-twice", "future {i} dropped {} times", f.fut_drops);
            check!(f.out_drops <= 1, "output-dropped-twice", "output {i} dropped {} times", f.out_drops);
            check!(!(f.out_drops > 0 && !f.out_created), "output-from-nowhere", "output {i} dropped but never created");
        }
        for &fid in &self.model {
            let f = &st.futs[fid];
            if f.done {
                check!(f.out_drops == 0, "output-dropped-in-deque", "output {fid} destroyed while it waits in the deque");
            } else {
                check!(f.fut_drops == 0, "future-dropped-while-pending", "future {fid} destroyed while pending in the deque");
            }
        }
        Ok(())
    }

    fn drop_deque(&mut self) -> Result<(), Violation> {
        let sh = Arc::clone(&self.sh);
        let Some(d) = self.dq.take() else { return Ok(()) };
        let at0 = sh.tick();
        {
            // The futures stop being live *before* the drop starts: wakes racing with the drop carry
            // no obligation.
            let mut st = sh.lock();
            for &fid in &self.model {
                st.futs[fid].live = false;
            }
            st.cur_parent = None;
            let n = self.model.len() as u64;
            sh.ev(&mut st, at0, &[5, n], || format!("drop deque with {n} entries"));
            if self.model.iter().any(|&f| !st.futs[f].done) {
                st.probes.push("deque-dropped-with-pending");
            }
            if self.model.iter().any(|&f| st.futs[f].done) {
                st.probes.push("deque-dropped-with-ready");
            }
            if st.futs.iter().any(|f| f.stash.iter().any(Option::is_some)) {
                st.probes.push("deque-dropped-with-stashed-wakers");
            }
        }
        drop(d);
        let at = sh.tick();
        self.dropped_at = Some(at0);
        let st = sh.lock();
        for &fid in &self.model {
            let f = &st.futs[fid];
            check!(
                f.fut_drops == 1,
                if f.fut_drops == 0 { "future-leaked" } else { "future-dropped-twice" },
                "future {fid} dropped {} times after its deque was dropped (stamp {at})",
                f.fut_drops
            );
            if f.out_created {
                check!(
                    f.out_drops == 1,
                    if f.out_drops == 0 { "output-leaked" } else { "output-dropped-twice" },
                    "output {fid} dropped {} times after its deque was dropped",
                    f.out_drops
                );
            }
        }
        drop(st);
        self.model.clear();
        self.take_problem()
    }

    fn final_accounting(&self) -> Result<(), Violation> {
        final_accounting(&self.sh)
    }
}

fn take_problem(sh: &Shared) -> Result<(), Violation> {
    match sh.lock().problem.take() {
        Some(v) => Err(v),
        None => Ok(()),
    }
}

/// Final accounting once the deque is gone and every stashed waker was released.
fn final_accounting(sh: &Shared) -> Result<(), Violation> {
    {
        let st = sh.lock();
        for (i, f) in st.futs.iter().enumerate() {
            check!(
                f.fut_drops == 1,
                if f.fut_drops == 0 { "future-leaked" } else { "future-dropped-twice" },
                "future {i} dropped {} times by the end of the run",
                f.fut_drops
            );
            let want = u32::from(f.out_created);
            check!(
                f.out_drops == want,
                if f.out_drops < want { "output-leaked" } else { "output-dropped-twice" },
                "output {i}: created={} dropped {} times",
                f.out_created,
                f.out_drops
            );
        }
        for (i, p) in sh.parents.iter().enumerate() {
            let alive = Arc::strong_count(p) - 1;
            check!(
                alive == 0,
                "parent-waker-leaked",
                "parent waker {i}: {alive} clone(s) still alive after the deque and every waker clone were dropped (clones {}, drops {}, consumed {}) — waker metadata not freed",
                p.clones.load(Ordering::Relaxed),
                p.drops.load(Ordering::Relaxed),
                p.wakes_by_value.load(Ordering::Relaxed)
            );
        }
        Ok(())
    }
}

/// Feeds every buffered event into the context in stamp order, and the probes.
fn flush(sh: &Shared, extra: Vec<Ev>, ctx: &mut Ctx) {
    let (mut events, probes) = {
        let mut st = sh.lock();
        (std::mem::take(&mut st.events), std::mem::take(&mut st.probes))
    };
    events.extend(extra);
    events.sort_by_key(|e| e.at);
    for e in events {
        let text = e.text;
        ctx.event(e.code, || text.unwrap_or_default());
    }
    for p in probes {
        ctx.probe(p);
    }
}

/// Late wakes: every waker still stashed is woken / dropped after the deque is gone.
fn late_wakes(sh: &Shared, extra: Vec<(usize, Waker)>) -> u32 {
    let mut all: Vec<(usize, Waker)> = extra;
    {
        let mut st = sh.lock();
        for (fid, f) in st.futs.iter_mut().enumerate() {
            for w in f.stash.drain(..).flatten() {
                all.push((fid, w));
            }
        }
    }
    let mut n = 0;
    for (i, (fid, w)) in all.into_iter().enumerate() {
        n += 1;
        match (i + fid) % 4 {
            0 => {
                w.wake_by_ref();
                drop(w);
            }
            1 => w.wake(),
            2 => {
                let c = w.clone();
                drop(w);
                c.wake();
            }
            _ => drop(w),
        }
    }
    n
}

// ------------------------------------------------------------------------------------------------
// `hist` — single-threaded operation histories
// ------------------------------------------------------------------------------------------------

#[derive(Clone, Copy, Debug, Serialize, Deserialize, PartialEq, Eq)]
enum WAct {
    Wake,
    WakeByRef,
    Clone,
    Drop,
}

#[derive(Clone, Debug, Serialize, Deserialize, PartialEq, Eq)]
enum Op {
    Push { front: bool, script: Vec<PStep> },
    Poll { kind: PollKind, parent: u8 },
    PopFront,
    PopBack,
    /// Acts on a stashed waker: among the wakers of live pending futures (`live`) or among all.
    W { live: bool, sel: u16, act: WAct },
    DropDeque,
}

#[derive(Clone, Debug, Serialize, Deserialize)]
struct HistScenario {
    local: bool,
    ops: Vec<Op>,
}

fn gen_script(rng: &mut Rng, concurrent: bool) -> Vec<PStep> {
    let n = rng.weighted(&[2, 4, 3, 2, 1]);
    (0..n)
        .map(|k| {
            let stash = if concurrent && k == 0 {
                if rng.chance(7, 8) { Stash::Keep } else { Stash::None }
            } else {
                [Stash::None, Stash::Keep, Stash::Replace][rng.weighted(&[1, 6, 2])]
            };
            if concurrent {
                PStep { stash, wake: SelfWake::None, poke: None }
            } else {
                PStep {
                    stash,
                    wake: [SelfWake::None, SelfWake::ByRef, SelfWake::CloneWake, SelfWake::Stashed]
                        [rng.weighted(&[6, 2, 1, 1])],
                    poke: if rng.chance(1, 6) { Some(rng.below(256) as u8) } else { None },
                }
            }
        })
        .collect()
}

fn gen_poll_kind(rng: &mut Rng) -> PollKind {
    [PollKind::All, PollKind::AllFuture, PollKind::Front, PollKind::FrontStream, PollKind::Back]
        [rng.weighted(&[4, 2, 3, 2, 3])]
}

const MAX_FUTS: usize = 14;

impl Scenario for HistScenario {
    fn generate(rng: &mut Rng, mode: &str) -> Self {
        assert!(mode == "hist" || mode == "hist-s", "unknown mode {mode}");
        let _ = AVOID_KNOWN;
        let n = if mode == "hist-s" {
            // Short histories for the interpreter (memory-error / leak oracle on the same op mix).
            rng.range_usize(4, 16)
        } else if rng.chance(1, 4) {
            rng.range_usize(3, 12)
        } else {
            rng.range_usize(8, 48)
        };
        let mut ops = Vec::with_capacity(n);
        let mut pushed = 0;
        // A few pushes up front so that the first polls have something to do.
        for _ in 0..rng.range_usize(1, 3) {
            ops.push(Op::Push { front: rng.chance(1, 3), script: gen_script(rng, false) });
            pushed += 1;
        }
        while ops.len() < n {
            let op = match rng.weighted(&[10, 14, 4, 4, 22, 1]) {
                0 => {
                    if pushed >= MAX_FUTS {
                        continue;
                    }
                    pushed += 1;
                    Op::Push { front: rng.chance(2, 5), script: gen_script(rng, false) }
                }
                1 => Op::Poll { kind: gen_poll_kind(rng), parent: rng.below(N_PARENTS as u64) as u8 },
                2 => Op::PopFront,
                3 => Op::PopBack,
                4 => Op::W {
                    live: rng.chance(3, 4),
                    sel: rng.below(64) as u16,
                    act: [WAct::Wake, WAct::WakeByRef, WAct::Clone, WAct::Drop][rng.weighted(&[4, 5, 2, 2])],
                },
                _ => Op::DropDeque,
            };
            ops.push(op);
        }
        Self { local: rng.bool(), ops }
    }

    fn run(&self, ctx: &mut Ctx) -> Result<bool, Violation> {
        let sh = Shared::new(true, ctx.keep_log, 0, 0);
        let mut dr = Driver::new(&sh, self.local);
        ctx.event(code(&[0, u64::from(self.local)]), || format!("cfg: local={}", self.local));
        let r = self.run_ops(&sh, &mut dr);
        let r = r.and_then(|()| {
            // End of history: the deque goes, then every stashed waker is used once more.
            dr.drop_deque()?;
            let n = late_wakes(&sh, Vec::new());
            if n > 0 {
                sh.lock().probes.push("late-wake-after-deque-drop");
            }
            dr.take_problem()?;
            dr.final_accounting()
        });
        if r.is_err() {
            // Leave nothing behind that could disturb the next run of the batch.
            drop(dr.dq.take());
            let _ = late_wakes(&sh, Vec::new());
        }
        flush(&sh, Vec::new(), ctx);
        r?;
        if dr.ooo > 0 {
            ctx.probe("nt:out-of-order");
        }
        if dr.parent_changes > 0 {
            ctx.probe("nt:parent-change");
        }
        Ok(dr.ooo > 0 && dr.parent_changes > 0 && dr.pops > 0)
    }

    fn shrink(&self) -> Vec<Self> {
        let mut out: Vec<Self> = simkit::shrink::remove_chunks(&self.ops)
            .into_iter()
            .map(|ops| Self { local: self.local, ops })
            .collect();
        for (i, op) in self.ops.iter().enumerate() {
            match op {
                Op::Push { front, script } => {
                    for s in simkit::shrink::remove_chunks(script) {
                        let mut ops = self.ops.clone();
                        ops[i] = Op::Push { front: *front, script: s };
                        out.push(Self { local: self.local, ops });
                    }
                    for (j, st) in script.iter().enumerate() {
                        let simple = PStep { stash: Stash::Keep, wake: SelfWake::None, poke: None };
                        if *st != simple && step_weight(st) > step_weight(&simple) {
                            let mut sc = script.clone();
                            sc[j] = simple;
                            let mut ops = self.ops.clone();
                            ops[i] = Op::Push { front: *front, script: sc };
                            out.push(Self { local: self.local, ops });
                        }
                    }
                }
                Op::Poll { kind, parent } if *kind != PollKind::All => {
                    let simpler = match kind {
                        PollKind::AllFuture => Some(PollKind::All),
                        PollKind::FrontStream => Some(PollKind::Front),
                        _ => None,
                    };
                    if let Some(k) = simpler {
                        let mut ops = self.ops.clone();
                        ops[i] = Op::Poll { kind: k, parent: *parent };
                        out.push(Self { local: self.local, ops });
                    }
                }
                Op::W { live, sel, act } if *sel > 0 => {
                    let mut ops = self.ops.clone();
                    ops[i] = Op::W { live: *live, sel: 0, act: *act };
                    out.push(Self { local: self.local, ops });
                }
                _ => {}
            }
        }
        out
    }

    fn size(&self) -> usize {
        self.ops
            .iter()
            .map(|op| match op {
                Op::Push { script, .. } => 8 + script.iter().map(|s| 4 + step_weight(s)).sum::<usize>(),
                Op::Poll { kind, .. } => 8 + usize::from(matches!(kind, PollKind::AllFuture | PollKind::FrontStream)),
                Op::W { sel, .. } => 8 + usize::from(*sel > 0),
                _ => 8,
            })
            .sum()
    }
}

fn step_weight(s: &PStep) -> usize {
    usize::from(s.stash != Stash::Keep) + usize::from(s.wake != SelfWake::None) + usize::from(s.poke.is_some())
}

impl HistScenario {
    fn run_ops(&self, sh: &Arc<Shared>, dr: &mut Driver) -> Result<(), Violation> {
        for op in &self.ops {
            match op {
                Op::Push { front, script } => {
                    dr.push(*front, script);
                }
                Op::Poll { kind, parent } => dr.poll(*kind, *parent % N_PARENTS as u8)?,
                Op::PopFront => dr.pop(true)?,
                Op::PopBack => dr.pop(false)?,
                Op::W { live, sel, act } => {
                    let at = sh.tick();
                    let mut guard = sh.lock();
                    let st = &mut *guard;
                    let all: Vec<(usize, usize, bool)> = st
                        .futs
                        .iter()
                        .enumerate()
                        .flat_map(|(i, f)| {
                            let pl = f.live && !f.done;
                            f.stash.iter().enumerate().filter(|(_, w)| w.is_some()).map(move |(s, _)| (i, s, pl))
                        })
                        .collect();
                    let lives: Vec<(usize, usize, bool)> = all.iter().copied().filter(|c| c.2).collect();
                    let cands = if *live && !lives.is_empty() { &lives } else { &all };
                    if cands.is_empty() {
                        continue;
                    }
                    let (fid, slot, pl) = cands[usize::from(*sel) % cands.len()];
                    let w = st.futs[fid].stash[slot].take().expect("present");
                    sh.ev(st, at, &[4, fid as u64, slot as u64, *act as u64, u64::from(pl)], || {
                        format!("{act:?} waker fut{fid}[{slot}] (pending-live={pl})")
                    });
                    match act {
                        WAct::Wake => modelled_wake(sh, st, fid, "wake", || w.wake()),
                        WAct::WakeByRef => {
                            modelled_wake(sh, st, fid, "wake_by_ref", || w.wake_by_ref());
                            st.futs[fid].stash[slot] = Some(w);
                        }
                        WAct::Clone => {
                            let c = w.clone();
                            st.futs[fid].stash[slot] = Some(w);
                            st.futs[fid].stash.push(Some(c));
                        }
                        WAct::Drop => drop(w),
                    }
                    drop(guard);
                    dr.take_problem()?;
                }
                Op::DropDeque => {
                    dr.drop_deque()?;
                    sh.lock().probes.push("new-deque-generation");
                }
            }
            dr.invariants()?;
        }
        Ok(())
    }
}

// ------------------------------------------------------------------------------------------------
// `mt` — wakes / clones / drops on other threads racing the owner's polls, parent changes and drop
// ------------------------------------------------------------------------------------------------

#[derive(Clone, Copy, Debug, Serialize, Deserialize, PartialEq, Eq)]
enum TOp {
    /// Rendezvous with the owner's `MOp::Sync` of the same id (bounded, Relaxed): the operations
    /// that follow on both sides start at the same moment.
    Sync(u8),
    Wake(u8),
    WakeByRef(u8),
    Clone(u8),
    Drop(u8),
    Yield(u8),
}

#[derive(Clone, Debug, Serialize, Deserialize, PartialEq, Eq)]
struct TScript {
    yields: u8,
    ops: Vec<TOp>,
    /// Hand the wakers left at the end of the script back to the owner (used for late wakes after
    /// the deque is gone) instead of dropping them on this thread.
    keep: bool,
}

#[derive(Clone, Debug, Serialize, Deserialize, PartialEq, Eq)]
enum MOp {
    Poll { kind: PollKind, parent: u8 },
    PopFront,
    PopBack,
    Push { front: bool, script: Vec<PStep> },
    /// Drop one of the owner's stashed clones (races the other threads' clone / drop / wake).
    DropStash(u8),
    DropDeque,
    Yield(u8),
    /// See `TOp::Sync`.
    Sync(u8),
}

#[derive(Clone, Copy, Debug, Default, Serialize, Deserialize, PartialEq, Eq)]
enum Owner {
    /// Everything the owner does happens on the batch's main thread.
    #[default]
    Main,
    /// The owner role runs on its own thread, which exits before the late wakes.
    Spawned,
    /// `FutureDeque` only: created and first polled on a thread that then exits; the deque moves on.
    CreatorExits,
}

#[derive(Clone, Debug, Serialize, Deserialize)]
struct MtScenario {
    local: bool,
    #[serde(default)]
    owner: Owner,
    init: Vec<(bool, Vec<PStep>)>,
    first_parent: u8,
    threads: Vec<TScript>,
    main_yields: u8,
    main: Vec<MOp>,
    final_parent: u8,
    /// Yields at the entry of every contained-future poll.
    #[serde(default)]
    poll_yields: u8,
    /// Yields inside the parent waker's wake callbacks.
    #[serde(default)]
    cb_yields: u8,
}

struct WakeRec {
    fid: usize,
    start: u64,
    end: u64,
}

struct ThreadReport {
    events: Vec<Ev>,
    wakes: Vec<WakeRec>,
    left: Vec<(usize, Waker)>,
}

fn run_thread(sh: &Shared, t: usize, script: &TScript, mut table: Vec<(usize, Option<Waker>)>) -> ThreadReport {
    let mut rep = ThreadReport { events: Vec::new(), wakes: Vec::new(), left: Vec::new() };
    sh.wait_go();
    yields(script.yields);
    for op in &script.ops {
        let pick = |table: &Vec<(usize, Option<Waker>)>, sel: u8| -> Option<usize> {
            let c: Vec<usize> = table.iter().enumerate().filter(|(_, e)| e.1.is_some()).map(|(i, _)| i).collect();
            if c.is_empty() { None } else { Some(c[usize::from(sel) % c.len()]) }
        };
        let mut ev = |at: u64, parts: &[u64], text: String| {
            rep.events.push(Ev { at, code: code(parts), text: if sh.keep_log { Some(text) } else { None } });
        };
        match *op {
            TOp::Yield(n) => yields(n),
            TOp::Sync(id) => sh.sync(id),
            TOp::Wake(sel) => {
                let Some(i) = pick(&table, sel) else { continue };
                let fid = table[i].0;
                let w = table[i].1.take().expect("present");
                let start = sh.tick();
                sh.stage[fid % 32].fetch_add(1, Ordering::Relaxed);
                w.wake();
                let end = sh.tick();
                ev(start, &[20, t as u64, fid as u64], format!("t{t}: wake fut{fid} invoked"));
                ev(end, &[21, t as u64, fid as u64], format!("t{t}: wake fut{fid} returned"));
                rep.wakes.push(WakeRec { fid, start, end });
            }
            TOp::WakeByRef(sel) => {
                let Some(i) = pick(&table, sel) else { continue };
                let fid = table[i].0;
                let start = sh.tick();
                sh.stage[fid % 32].fetch_add(1, Ordering::Relaxed);
                table[i].1.as_ref().expect("present").wake_by_ref();
                let end = sh.tick();
                ev(start, &[22, t as u64, fid as u64], format!("t{t}: wake_by_ref fut{fid} invoked"));
                ev(end, &[23, t as u64, fid as u64], format!("t{t}: wake_by_ref fut{fid} returned"));
                rep.wakes.push(WakeRec { fid, start, end });
            }
            TOp::Clone(sel) => {
                let Some(i) = pick(&table, sel) else { continue };
                let fid = table[i].0;
                let c = table[i].1.as_ref().expect("present").clone();
                let at = sh.tick();
                table.push((fid, Some(c)));
                ev(at, &[24, t as u64, fid as u64], format!("t{t}: clone waker fut{fid}"));
            }
            TOp::Drop(sel) => {
                let Some(i) = pick(&table, sel) else { continue };
                let fid = table[i].0;
                let w = table[i].1.take();
                drop(w);
                let at = sh.tick();
                ev(at, &[25, t as u64, fid as u64], format!("t{t}: drop waker fut{fid}"));
            }
        }
    }
    let left: Vec<(usize, Waker)> = table.into_iter().filter_map(|(f, w)| w.map(|w| (f, w))).collect();
    if script.keep {
        rep.left = left;
    } else {
        drop(left);
    }
    rep
}

type Table = Vec<(usize, Option<Waker>)>;

/// A driver on its way to another thread. Only built when the deque inside is the `Send` variant.
struct SendDriver(Driver);
// SAFETY: constructed only for `local == false`, where the deque is `FutureDeque<Out>` (`Send` because
// `Out: Send`); every other field of `Driver` is `Send`.
unsafe impl Send for SendDriver {}

impl MtScenario {
    /// Phase 1 (owner alone): insert, first poll, futures stash their wakers; one clone of the first
    /// stashed waker of every future per waker thread, made by the owner.
    fn part_a(&self, sh: &Arc<Shared>, dr: &mut Driver) -> Result<(Vec<Table>, u64), Violation> {
        for (front, script) in &self.init {
            dr.push(*front, script);
        }
        dr.poll(PollKind::All, self.first_parent % N_PARENTS as u8)?;
        dr.invariants()?;
        let mut tables: Vec<Table> = Vec::new();
        {
            let st = sh.lock();
            for _ in &self.threads {
                let mut t = Vec::new();
                for (fid, f) in st.futs.iter().enumerate() {
                    if let Some(w) = f.stash.iter().flatten().next() {
                        t.push((fid, Some(w.clone())));
                    }
                }
                tables.push(t);
            }
        }
        let phase1_end = sh.tick();
        Ok((tables, phase1_end))
    }

    /// Phase 2 (the other threads act on their wakers while the owner runs its script), quiescent
    /// oracles, final drain, pops and the drop of the deque. Returns the non-triviality verdict and
    /// the wakers that outlive the deque (for late wakes by the caller).
    fn part_bc(
        &self,
        sh: &Arc<Shared>,
        dr: &mut Driver,
        tables: Vec<Table>,
        phase1_end: u64,
        extra_events: &mut Vec<Ev>,
    ) -> Result<(bool, Vec<(usize, Waker)>), Violation> {
        let mut handles = Vec::new();
        for (t, (script, table)) in self.threads.iter().zip(tables).enumerate() {
            let sh2 = Arc::clone(sh);
            let script = script.clone();
            handles.push(std::thread::spawn(move || run_thread(&sh2, t, &script, table)));
        }
        sh.go.store(true, Ordering::Release);
        yields(self.main_yields);
        let mut main_result = Ok(());
        for op in &self.main {
            let r = (|| -> Result<(), Violation> {
                match op {
                    MOp::Poll { kind, parent } => dr.poll(*kind, *parent % N_PARENTS as u8)?,
                    MOp::PopFront => dr.pop(true)?,
                    MOp::PopBack => dr.pop(false)?,
                    MOp::Push { front, script } => {
                        if dr.dq.is_some() {
                            dr.push(*front, script);
                        }
                    }
                    MOp::DropStash(sel) => {
                        let w = {
                            let mut st = sh.lock();
                            let c: Vec<(usize, usize)> = st
                                .futs
                                .iter()
                                .enumerate()
                                .flat_map(|(i, f)| f.stash.iter().enumerate().filter(|(_, w)| w.is_some()).map(move |(s, _)| (i, s)))
                                .collect();
                            if c.is_empty() {
                                None
                            } else {
                                let (fid, slot) = c[usize::from(*sel) % c.len()];
                                let at = sh.tick();
                                sh.ev(&mut st, at, &[8, fid as u64, slot as u64], || format!("owner drops stashed waker fut{fid}[{slot}]"));
                                st.futs[fid].stash[slot].take()
                            }
                        };
                        drop(w);
                    }
                    MOp::DropDeque => dr.drop_deque()?,
                    MOp::Yield(n) => yields(*n),
                    MOp::Sync(id) => sh.sync(*id),
                }
                dr.invariants()
            })();
            if r.is_err() {
                main_result = r;
                break;
            }
        }
        let main_end = sh.tick();
        let mut wakes: Vec<WakeRec> = Vec::new();
        let mut kept: Vec<(usize, Waker)> = Vec::new();
        for h in handles {
            let rep = h.join().expect("waker thread");
            extra_events.extend(rep.events);
            wakes.extend(rep.wakes);
            kept.extend(rep.left);
        }
        if let Err(v) = main_result {
            drop(kept);
            return Err(v);
        }

        // ---- quiescence -----------------------------------------------------------------------
        // Soundness of the stamp-based implications used below (s = the deque's flag swap(0) before
        // a contained poll, t = a wake's flag swap(1); a contained poll's entry stamp p is taken
        // after s, a wake's start stamp w.start before t, its end stamp w.end after t):
        //  * w.start > p(last poll of i)  =>  t > s_last in the flag's modification order (otherwise
        //    the acquire swap(0) would read the release swap(1) and the stamp RMWs would violate
        //    coherence). So i's flag is set at quiescence: the next deque poll must poll i, and the
        //    first swap(1) after s_last saw 0 and cloned the parent under the mutex *after* the most
        //    recent deque poll replaced it (an earlier clone would precede a later deque poll's
        //    scan of i, which would then have polled i) — so the parent handed to the most recent
        //    deque poll was invoked after that poll began.
        //  * a contained poll at p_this whose predecessor ran inside deque call D_prev is explained
        //    only by a wake with w.start < p_this and w.end > D_prev.start.
        let mut nontrivial = false;
        {
            let mut st = sh.lock();
            for w in &wakes {
                let f = &st.futs[w.fid];
                let pending_at_wake = (!f.done || f.done_at > w.start) && dr.dropped_at.is_none_or(|d| d > w.start) && !f.popped
                    || (f.popped && f.done_at > w.start);
                if pending_at_wake && w.start < main_end && w.start > phase1_end {
                    nontrivial = true;
                }
                if dr.calls.iter().skip(1).any(|c| w.start < c.d_end && w.end > c.d_start) {
                    st.probes.push("wake-overlaps-deque-poll");
                }
                if let Some(d) = dr.dropped_at {
                    if w.end > d {
                        st.probes.push("wake-after-or-during-deque-drop");
                    }
                }
            }
            if nontrivial {
                st.probes.push("nt:cross-thread-wake-of-pending");
            }
        }
        let mut must_repoll: Vec<usize> = Vec::new();
        let mut stale_seen = false;
        if dr.dq.is_some() {
            let st = sh.lock();
            let last = dr.calls.last().expect("phase 1 polled");
            for &fid in &dr.model {
                let f = &st.futs[fid];
                if f.done {
                    continue;
                }
                let last_poll = f.poll_log.last().map_or(0, |p| p.0);
                // Either a wake started after the last poll began, or the last poll did not see
                // what a wake had published before waking (all threads are joined: the cell's value
                // is final). In both cases the flag swap of that wake came after the flag swap of
                // the most recent deque poll (had it come before, the acquire swap would have made
                // the published value visible to the poll), so a 0 -> 1 transition and with it a
                // parent wake must have followed that deque poll's start.
                let published = sh.stage[fid % 32].load(Ordering::Relaxed);
                let stale = published > 0 && f.seen_stage < published && !f.poll_log.is_empty();
                if stale {
                    stale_seen = true;
                }
                if wakes.iter().any(|w| w.fid == fid && w.start > last_poll) || stale {
                    must_repoll.push(fid);
                }
            }
            if !must_repoll.is_empty() {
                let now = sh.parents[last.parent as usize].wakes.load(Ordering::Relaxed);
                check!(
                    now > last.wakes_before,
                    "lost-wakeup",
                    "futures {must_repoll:?} were woken on another thread after their last poll, but the parent waker {} handed to the deque's most recent poll was not invoked since that poll began",
                    last.parent
                );
            }
        }
        if !must_repoll.is_empty() {
            sh.lock().probes.push("quiescent-wake-pending");
        }
        if stale_seen {
            sh.lock().probes.push("last-poll-predates-published-state");
        }
        // Final drain by the owner: every future woken since its last poll must be polled now.
        if dr.dq.is_some() {
            dr.poll(PollKind::All, self.final_parent % N_PARENTS as u8)?;
            let idx = dr.calls.len() - 1;
            let st = sh.lock();
            for fid in &must_repoll {
                let polled = st.futs[*fid].poll_log.last().is_some_and(|p| p.1 == idx);
                check!(
                    polled,
                    "lost-wakeup",
                    "future {fid} was woken on another thread after its last poll but the next deque poll did not poll it"
                );
            }
        }
        // Every poll of a future must be explained by its insertion or by a wake that can have
        // taken effect between the previous poll's flag swap and this one's.
        {
            let st = sh.lock();
            for (fid, f) in st.futs.iter().enumerate() {
                for pair in f.poll_log.windows(2) {
                    let (prev_at, prev_call) = pair[0];
                    let (this_at, _) = pair[1];
                    let lower = dr.calls[prev_call].d_start;
                    let explained = wakes.iter().any(|w| w.fid == fid && w.start < this_at && w.end > lower);
                    check!(
                        explained,
                        "spurious-poll",
                        "future {fid} was polled at stamp {this_at} (previous poll at {prev_at}) although no wake of it can have happened in between"
                    );
                }
            }
        }
        // Pop what can be popped (order oracle), then everything goes.
        if dr.dq.is_some() {
            dr.pop(true)?;
            dr.pop(false)?;
            dr.invariants()?;
        }
        dr.drop_deque()?;
        Ok((nontrivial, kept))
    }
}

impl Scenario for MtScenario {
    fn generate(rng: &mut Rng, mode: &str) -> Self {
        assert!(mode == "mt", "unknown mode {mode}");
        let n_init = rng.range_usize(1, 3);
        let init = (0..n_init)
            .map(|_| {
                let mut s = gen_script(rng, true);
                if s.is_empty() && rng.chance(3, 4) {
                    s.push(PStep { stash: Stash::Keep, wake: SelfWake::None, poke: None });
                }
                (rng.chance(1, 3), s)
            })
            .collect();
        let n_threads = rng.range_usize(1, 2);
        let threads = (0..n_threads)
            .map(|_| {
                let n = rng.range_usize(1, 5);
                TScript {
                    yields: if rng.bool() { rng.below(4) as u8 } else { rng.range(4, 24) as u8 },
                    ops: (0..n)
                        .map(|_| match rng.weighted(&[4, 5, 2, 2, 2]) {
                            0 => TOp::Wake(rng.below(8) as u8),
                            1 => TOp::WakeByRef(rng.below(8) as u8),
                            2 => TOp::Clone(rng.below(8) as u8),
                            3 => TOp::Drop(rng.below(8) as u8),
                            _ => TOp::Yield(rng.range(1, 6) as u8),
                        })
                        .collect(),
                    keep: rng.chance(1, 3),
                }
            })
            .collect();
        let n_main = rng.range_usize(0, 6);
        let mut main = Vec::new();
        for _ in 0..n_main {
            let op = match rng.weighted(&[10, 1, 1, 2, 3, 1, 3]) {
                0 => MOp::Poll { kind: gen_poll_kind(rng), parent: rng.below(N_PARENTS as u64) as u8 },
                1 => MOp::PopFront,
                2 => MOp::PopBack,
                3 => MOp::Push { front: rng.bool(), script: gen_script(rng, true) },
                4 => MOp::DropStash(rng.below(8) as u8),
                5 => MOp::DropDeque,
                _ => MOp::Yield(rng.range(1, 6) as u8),
            };
            let stop = op == MOp::DropDeque;
            main.push(op);
            if stop {
                break;
            }
        }
        // Aligned tail: the owner's last poll (under the *other* parent waker) and a cross-thread
        // wake start at the same moment - the parent update, the activation-flag swap and the slot
        // scan of one poll against the steps of one wake.
        let mut threads: Vec<TScript> = threads;
        if !matches!(main.last(), Some(MOp::DropDeque)) && rng.chance(1, 2) {
            let last_parent = main
                .iter()
                .rev()
                .find_map(|o| if let MOp::Poll { parent, .. } = o { Some(*parent) } else { None });
            let parent = match last_parent {
                Some(p) => (p + 1) % N_PARENTS as u8,
                None => rng.below(N_PARENTS as u64) as u8,
            };
            main.push(MOp::Sync(0));
            if rng.bool() {
                main.push(MOp::Yield(rng.range(1, 3) as u8));
            }
            main.push(MOp::Poll { kind: gen_poll_kind(rng), parent });
            let t = &mut threads[0];
            t.ops.push(TOp::Sync(0));
            if rng.bool() {
                t.ops.push(TOp::Yield(rng.range(1, 3) as u8));
            }
            t.ops.push(if rng.bool() { TOp::WakeByRef(rng.below(8) as u8) } else { TOp::Wake(rng.below(8) as u8) });
        }
        let local = rng.bool();
        Self {
            local,
            owner: match rng.weighted(&[2, 1, 1]) {
                0 => Owner::Main,
                1 => Owner::Spawned,
                _ => if local { Owner::Spawned } else { Owner::CreatorExits },
            },
            init,
            first_parent: rng.below(N_PARENTS as u64) as u8,
            threads,
            main_yields: if rng.chance(3, 4) { rng.below(4) as u8 } else { rng.range(4, 16) as u8 },
            main,
            final_parent: rng.below(N_PARENTS as u64) as u8,
            poll_yields: if rng.chance(1, 2) { 0 } else { rng.range(1, 6) as u8 },
            cb_yields: if rng.chance(1, 2) { 0 } else { rng.range(1, 6) as u8 },
        }
    }

    fn run(&self, ctx: &mut Ctx) -> Result<bool, Violation> {
        let sh = Shared::new(false, ctx.keep_log, self.poll_yields, self.cb_yields);
        let owner = if self.local && self.owner == Owner::CreatorExits { Owner::Spawned } else { self.owner };
        ctx.event(code(&[0, u64::from(self.local), 1, owner as u64]), || {
            format!("cfg: mt local={} owner={owner:?}", self.local)
        });
        let mut extra = Vec::new();
        let r: Result<(bool, Vec<(usize, Waker)>), Violation> = match owner {
            Owner::Main => {
                let mut dr = Driver::new(&sh, self.local);
                self.part_a(&sh, &mut dr)
                    .and_then(|(tables, p1)| self.part_bc(&sh, &mut dr, tables, p1, &mut extra))
            }
            Owner::CreatorExits => {
                // The deque (Send variant) and its waker metadata are created on a thread that exits
                // before anything else happens: the thread-local pools behind them are gone while
                // the deque, its futures and its wakers live on and are used from other threads.
                let sh2 = Arc::clone(&sh);
                let me = self.clone();
                let (sd, a) = std::thread::spawn(move || {
                    let mut dr = Driver::new(&sh2, false);
                    let a = me.part_a(&sh2, &mut dr);
                    (SendDriver(dr), a)
                })
                .join()
                .expect("creator thread");
                let mut dr = sd.0;
                sh.lock().probes.push("deque-outlives-creator-thread");
                a.and_then(|(tables, p1)| self.part_bc(&sh, &mut dr, tables, p1, &mut extra))
            }
            Owner::Spawned => {
                // The whole owner role runs on a thread that exits before the late wakes.
                let sh2 = Arc::clone(&sh);
                let me = self.clone();
                let (r, ev) = std::thread::spawn(move || {
                    let mut extra = Vec::new();
                    let mut dr = Driver::new(&sh2, me.local);
                    let r = me
                        .part_a(&sh2, &mut dr)
                        .and_then(|(tables, p1)| me.part_bc(&sh2, &mut dr, tables, p1, &mut extra));
                    drop(dr);
                    (r, extra)
                })
                .join()
                .expect("owner thread");
                extra = ev;
                sh.lock().probes.push("wakers-outlive-owner-thread");
                r
            }
        };
        let r = r.and_then(|(nt, kept)| {
            let n = late_wakes(&sh, kept);
            if n > 0 {
                sh.lock().probes.push("late-wake-after-deque-drop");
            }
            take_problem(&sh)?;
            final_accounting(&sh)?;
            Ok(nt)
        });
        if r.is_err() {
            let _ = late_wakes(&sh, Vec::new());
        }
        flush(&sh, extra, ctx);
        r
    }

    fn shrink(&self) -> Vec<Self> {
        let mut out = Vec::new();
        for m in simkit::shrink::remove_chunks(&self.main) {
            let mut s = self.clone();
            s.main = m;
            out.push(s);
        }
        if self.threads.len() > 1 {
            for i in 0..self.threads.len() {
                let mut s = self.clone();
                s.threads.remove(i);
                out.push(s);
            }
        }
        for (i, t) in self.threads.iter().enumerate() {
            for ops in simkit::shrink::remove_chunks(&t.ops) {
                let mut s = self.clone();
                s.threads[i].ops = ops;
                out.push(s);
            }
            if t.yields > 0 {
                let mut s = self.clone();
                s.threads[i].yields -= 1;
                out.push(s);
            }
        }
        if self.init.len() > 1 {
            for i in 0..self.init.len() {
                let mut s = self.clone();
                s.init.remove(i);
                out.push(s);
            }
        }
        for (i, (_, sc)) in self.init.iter().enumerate() {
            for sc2 in simkit::shrink::remove_chunks(sc) {
                let mut s = self.clone();
                s.init[i].1 = sc2;
                out.push(s);
            }
        }
        if self.main_yields > 0 {
            let mut s = self.clone();
            s.main_yields -= 1;
            out.push(s);
        }
        if self.poll_yields > 0 {
            let mut s = self.clone();
            s.poll_yields -= 1;
            out.push(s);
        }
        if self.cb_yields > 0 {
            let mut s = self.clone();
            s.cb_yields -= 1;
            out.push(s);
        }
        if self.owner != Owner::Main {
            let mut s = self.clone();
            s.owner = Owner::Main;
            out.push(s);
        }
        out
    }

    fn size(&self) -> usize {
        self.main.len() * 8
            + self.threads.iter().map(|t| 16 + t.ops.len() * 8 + usize::from(t.yields)).sum::<usize>()
            + self.init.iter().map(|(_, s)| 16 + s.len() * 4).sum::<usize>()
            + usize::from(self.main_yields)
            + usize::from(self.poll_yields)
            + usize::from(self.cb_yields)
            + usize::from(self.owner != Owner::Main) * 2
    }
}

fn main() {
    simkit::cli_main(
        "h_fdeque",
        vec![
            entry::<HistScenario>("C15", "hist", "single-threaded operation histories, FutureDeque and LocalFutureDeque"),
            entry::<HistScenario>("C15", "hist-s", "short single-threaded histories (for Miri: UB / leak oracle)"),
            entry::<MtScenario>("C15", "mt", "cross-thread wake / clone / drop of deque wakers racing poll, parent change and deque drop"),
            entry::<prace::PraceScenario>("C15", "prace", "parent-waker hand-over race: many tiny rounds of wake vs poll-under-the-other-parent, checked after every round"),
        ],
    )
}
