//! Mode `prace` — the parent-waker hand-over race, many rounds per scenario with a check after every
//! round (meant for Miri at low preemption rates; also run natively on real cores).
//!
//! One `FutureDeque` holds one future that never completes and whose waker a second thread owns.
//! In every round the two threads start together: the owner polls the deque under the *other*
//! parent waker than in the round before, the second thread wakes the future. When both are done:
//!
//! * if this round's deque poll did **not** poll the future, the wake's flag swap came after the
//!   poll's flag swap (otherwise the poll would have seen the flag and polled), so the wake made the
//!   0 -> 1 transition and must have woken the parent waker that this very poll installed before
//!   its scan — the counting waker of this round must have been invoked during the round;
//! * if it did poll the future, the flag was consumed and nothing is owed.
//!
//! A wake that picked the parent waker up *before* the poll replaced it and acts on the flag after
//! the poll scanned the slot wakes the task of the previous round and leaves the current one asleep
//! with a woken future: the lost wake-up this mode exists for. Whatever the library does between
//! "read the parent" and "set the flag" is a window of a few instructions without user code, which a
//! whole (short) deque poll of the other thread has to fit into; the mode therefore keeps a round as
//! small as possible and repeats it.

use std::future::Future;
use std::pin::Pin;
use std::sync::atomic::{AtomicU32, Ordering};
use std::sync::{Arc, Mutex};
use std::task::{Context, Poll, Waker};

use future_deque::FutureDeque;
use serde::{Deserialize, Serialize};
use simkit::{Ctx, Rng, Scenario, Violation, check};

use crate::{PCount, new_parent};

#[derive(Clone, Copy, Debug, Serialize, Deserialize)]
pub struct Round {
    /// `yield_now` calls before the wake / before the poll (stagger).
    w_yields: u8,
    d_yields: u8,
    by_value: bool,
}

#[derive(Clone, Debug, Serialize, Deserialize)]
pub struct PraceScenario {
    rounds: Vec<Round>,
}

struct Never {
    polls: Arc<AtomicU32>,
    stash: Arc<Mutex<Option<Waker>>>,
}

impl Future for Never {
    type Output = u32;

    fn poll(self: Pin<&mut Self>, cx: &mut Context<'_>) -> Poll<u32> {
        self.polls.fetch_add(1, Ordering::Relaxed);
        // Only the first poll hands a waker out (the harness moves it to the waking thread).
        if self.polls.load(Ordering::Relaxed) == 1 {
            *self.stash.lock().unwrap_or_else(std::sync::PoisonError::into_inner) = Some(cx.waker().clone());
        }
        Poll::Pending
    }
}

/// Two-party barrier (bounded: a dead peer never hangs the harness).
fn meet(c: &AtomicU32, target: u32) {
    c.fetch_add(1, Ordering::AcqRel);
    let mut spins = 0_u32;
    while c.load(Ordering::Acquire) < target && spins < 200_000 {
        std::thread::yield_now();
        spins += 1;
    }
}

impl Scenario for PraceScenario {
    fn generate(rng: &mut Rng, _mode: &str) -> Self {
        let n = rng.range_usize(8, 24);
        let rounds = (0..n)
            .map(|_| Round {
                w_yields: if rng.chance(2, 3) { rng.below(3) as u8 } else { rng.range(3, 8) as u8 },
                d_yields: if rng.chance(2, 3) { rng.below(3) as u8 } else { rng.range(3, 8) as u8 },
                by_value: rng.chance(1, 3),
            })
            .collect();
        Self { rounds }
    }

    fn run(&self, ctx: &mut Ctx) -> Result<bool, Violation> {
        let parents = [Arc::new(PCount::default()), Arc::new(PCount::default())];
        let polls = Arc::new(AtomicU32::new(0));
        let stash: Arc<Mutex<Option<Waker>>> = Arc::new(Mutex::new(None));
        let mut dq: FutureDeque<u32> = FutureDeque::new();
        dq.push_back(Never { polls: Arc::clone(&polls), stash: Arc::clone(&stash) });
        {
            let w = new_parent(&parents[1]);
            let cx = Context::from_waker(&w);
            let _ = dq.poll(&cx);
        }
        check!(polls.load(Ordering::Relaxed) == 1, "missed-poll", "a freshly inserted future was not polled by the first deque poll");
        let waker = stash.lock().unwrap_or_else(std::sync::PoisonError::into_inner).take().expect("stashed by the first poll");

        let gate = Arc::new(AtomicU32::new(0));
        let rounds = self.rounds.clone();
        let g2 = Arc::clone(&gate);
        let t = std::thread::spawn(move || {
            for (r, round) in rounds.iter().enumerate() {
                meet(&g2, (4 * r + 2) as u32);
                for _ in 0..round.w_yields {
                    std::thread::yield_now();
                }
                if round.by_value {
                    waker.clone().wake();
                } else {
                    waker.wake_by_ref();
                }
                meet(&g2, (4 * r + 4) as u32);
            }
            drop(waker);
        });

        let mut violation = None;
        let mut owed = 0_u32;
        for (r, round) in self.rounds.iter().enumerate() {
            let p = r % 2;
            let w = new_parent(&parents[p]);
            let cx = Context::from_waker(&w);
            meet(&gate, (4 * r + 2) as u32);
            for _ in 0..round.d_yields {
                std::thread::yield_now();
            }
            let polls_before = polls.load(Ordering::Relaxed);
            let wakes_before = parents[p].wakes.load(Ordering::Relaxed);
            let _ = dq.poll(&cx);
            let polled = polls.load(Ordering::Relaxed) > polls_before;
            meet(&gate, (4 * r + 4) as u32);
            let woken = parents[p].wakes.load(Ordering::Relaxed) > wakes_before;
            ctx.event(u64::from(polled) | u64::from(woken) << 1, || format!("round {r}: parent {p}, future polled: {polled}, parent woken: {woken}"));
            if !polled {
                owed += 1;
                if !woken && violation.is_none() {
                    violation = Some(Violation::new(
                        "lost-wakeup",
                        format!(
                            "round {r}: the future was woken on another thread, this round's deque poll (parent waker {p}) did not poll it, \
                             and parent waker {p} was not invoked during the round (the other parent waker was invoked {} times in total)",
                            parents[1 - p].wakes.load(Ordering::Relaxed)
                        ),
                    ));
                }
            }
            drop(w);
        }
        let joined = t.join();
        drop(dq);
        if let Some(v) = violation {
            return Err(v);
        }
        check!(joined.is_ok(), "waker-thread-panicked", "the waking thread panicked");
        if owed > 0 {
            ctx.probe("prace:wake-landed-after-the-polls-scan");
        }
        ctx.probe("prace:rounds");
        for (i, p) in parents.iter().enumerate() {
            check!(
                Arc::strong_count(p) == 1,
                "parent-waker-leaked",
                "parent waker {i}: {} clones still alive after the deque and every waker are gone",
                Arc::strong_count(p) - 1
            );
        }
        Ok(owed > 0)
    }

    fn shrink(&self) -> Vec<Self> {
        simkit::shrink::remove_chunks(&self.rounds).into_iter().map(|rounds| Self { rounds }).collect()
    }

    fn size(&self) -> usize {
        self.rounds.len()
    }
}
