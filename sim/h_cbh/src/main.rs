//! h_cbh — deterministic-simulation harness for property C19 (cargo-bench-history's local
//! history store: write-once objects that appear atomically). See /verif/DESIGN.md §5 C19.
//!
//! Real components: `cbh_storage::LocalStorage` (all of local.rs and keys.rs), `cbh_codec`, real
//! `tokio::fs` on a current-thread runtime, the real filesystem under
//! `/verif/target/scratch/<pid>-<n>` (removed after each run), real process death (`abort()` in a
//! re-executed child) and the kernel's own `RLIMIT_FSIZE` short-write-then-`EFBIG` behaviour.
//! Simulator-owned: the hook-H5 point handler (crash / injected error / scheduling gate), the
//! operation scripts, keys, payloads and the schedule (all drawn from the run's PRNG).
//!
//! Modes: `strict` (seq.rs), `crash` and `error` (faulty.rs), `schedule` and the directed
//! `known-put-check-race` (sched.rs).

mod child;
mod common;
mod faulty;
mod sched;
mod seq;

use simkit::entry;

/// Known defects whose trigger the ordinary modes must not *judge* strictly while listed.
///
/// `put-check-race`: `LocalStorage::put` checks for existence and later renames; a writer that
/// publishes between the two is silently replaced although both callers are told their write-once
/// `put` succeeded (the code comment documents this as "degrades to last-writer-wins"). While the
/// key is listed, mode `schedule` checks plain `put` as check + publish (two atomic steps) and
/// only counts how often the race was reached; `known-put-check-race` reproduces it on a directed
/// schedule against the strict single-step specification. Remove the key once `put` publishes
/// with a no-replace primitive (e.g. `hard_link` + unlink of the temp file): `schedule` then
/// checks the strict specification on every generated interleaving.
pub const AVOID_KNOWN: &[&str] = &["put-check-race"];

fn main() {
    // `ohno` errors capture a backtrace when RUST_BACKTRACE is set (milliseconds per error with
    // debug info); results must not depend on the caller's environment either.
    // SAFETY: single-threaded, first statement of main.
    unsafe { std::env::set_var("RUST_LIB_BACKTRACE", "0") };
    if std::env::args().nth(1).as_deref() == Some("child-run") {
        child::child_main();
    }
    simkit::cli_main(
        "h_cbh",
        vec![
            entry::<seq::StrictScenario>(
                "C19",
                "strict",
                "fault-free sequential histories vs reference map; every key shape; payloads empty..4 MiB",
            ),
            entry::<faulty::FaultScenario>(
                "C19",
                "crash",
                "child process aborts at the k-th occurrence of a named point; parent inspects the store afresh",
            ),
            entry::<faulty::FaultScenario>(
                "C19",
                "error",
                "injected io::Error at named points (in-process) or RLIMIT_FSIZE short write + EFBIG (child)",
            ),
            entry::<sched::SchedScenario>(
                "C19",
                "schedule",
                "2-3 gated tasks on 1-2 keys under a PRNG-chosen interleaving; linearizability + omniscient reader",
            ),
            entry::<sched::SchedScenario>(
                "C19",
                "schedule-faulty",
                "the same with one injected I/O error at a write point of one task: the failed write leaves no trace",
            ),
            entry::<sched::SchedScenario>(
                "C19",
                "known-put-check-race",
                "directed schedule: two overlapping plain puts both succeed, the first published object is replaced",
            ),
        ],
    )
}
