//! Mode `schedule` (and the directed `known-put-check-race`): two or three tasks operate on one or
//! two keys; every named point of hook H5, and the start of every operation, is a *gate* at which
//! the task parks until the simulator's schedule (an explicit pick list drawn from the PRNG) lets
//! it continue. Exactly one task runs between two gates and every filesystem operation it issues
//! completes before the next pick, so the interleaving is the pick list.
//!
//! What counts as a violation under concurrency (stated here because the code openly documents
//! that `put`'s existence check races with a concurrent writer):
//!
//! * every `get` returns exactly the bytes some `put`/`put_overwrite` of the scenario (or the
//!   initial state) wrote — never a partial, mixed or foreign object; the same holds for the raw
//!   file at the key path at *every* scheduling step (an omniscient reader);
//! * no listing ever shows anything but the scenario's keys;
//! * the history of completed operations is linearizable against this sequential specification:
//!   `put_overwrite`, `get`, `delete`, `list` are atomic; a plain `put` takes effect in **two**
//!   atomic steps inside its interval — *check* (fails with already-exists iff the key holds an
//!   object at that instant) and, if the check passed, *publish* (stores the payload
//!   unconditionally). Consequences: a `put` that started after another writer of the key
//!   returned (with no delete in between) must fail and change nothing; two overlapping `put`s may
//!   both succeed (last publish wins), which is the documented degradation.
//! * When the key `put-check-race` is removed from `AVOID_KNOWN` (i.e. the repository closed the
//!   race), plain `put` is checked as a single atomic step instead; `known-put-check-race`
//!   already does so on a directed schedule and reports class `write-once-lost-under-race`.

use std::future::Future;
use std::pin::Pin;
use std::sync::{Arc, Mutex};
use std::task::{Context, Poll};

use serde::{Deserialize, Serialize};
use simkit::lin::{HistOp, check_linearizable};
use simkit::{Ctx, Rng, Scenario, Violation, check, hash_str, mix};

use crate::child::clear_handler;
use crate::common::{Op, Payload, Res, Scratch, exec, leaf_is_reserved, leaf_key, runtime, scan, show};

#[derive(Clone, Debug, Serialize, Deserialize, PartialEq, Eq)]
pub enum SOp {
    Put { k: u8, v: u32 },
    PutOverwrite { k: u8, v: u32 },
    Get { k: u8 },
    Delete { k: u8 },
    List,
}

#[derive(Clone, Debug, Serialize, Deserialize)]
pub struct SchedScenario {
    pub keys: Vec<String>,
    /// Value id initially stored at each key (written before the tasks start).
    pub initial: Vec<Option<u32>>,
    /// Contents by value id; lengths are pairwise distinct, so contents are.
    pub values: Vec<Payload>,
    pub tasks: Vec<Vec<SOp>>,
    /// Schedule: at step `s`, `picks[s] >= 200` = let the task that ran last continue if it can,
    /// otherwise candidate number `picks[s] % candidates` (0 when the list is exhausted).
    pub picks: Vec<u8>,
    /// Check plain `put` as one atomic step (strict write-once under concurrency).
    pub atomic_put: bool,
    /// Injected fault (mode `schedule-faulty`): the `occurrence`-th time task `task` reaches the
    /// named write point, that step fails with an I/O error. The failed write must leave no trace:
    /// it takes no effect in the sequential specification (a plain `put` has only made its check).
    #[serde(default)]
    pub fail: Option<(u8, String, u8)>,
}

// ------------------------------------------------------------------------------------------------
// Gates
// ------------------------------------------------------------------------------------------------

struct Rec {
    task: usize,
    idx: usize,
    inv: u64,
    ret: u64,
    res: Res,
    data: Option<Vec<u8>>,
}

#[derive(Default)]
struct Shared {
    current: usize,
    waiting: Vec<Option<&'static str>>,
    granted: Vec<bool>,
    stamp: u64,
    records: Vec<Rec>,
    /// (task, point, occurrence) to fail, occurrences seen so far, and (task, op index) it hit.
    fail: Option<(usize, String, u8)>,
    seen: u8,
    fired: bool,
}

impl Shared {
    fn next_stamp(&mut self) -> u64 {
        self.stamp += 1;
        self.stamp
    }
}

struct Gate {
    sh: Arc<Mutex<Shared>>,
    task: usize,
    point: &'static str,
    registered: bool,
}

const FAIL_POINTS: &[&str] =
    &["write:before-create", "write:after-create", "write:mid-payload", "write:after-write", "write:after-flush", "write:before-rename"];

impl Future for Gate {
    type Output = std::io::Result<()>;

    fn poll(mut self: Pin<&mut Self>, _cx: &mut Context<'_>) -> Poll<Self::Output> {
        let sh = Arc::clone(&self.sh);
        let mut s = sh.lock().expect("scheduler state");
        if !self.registered {
            s.waiting[self.task] = Some(self.point);
            self.registered = true;
            return Poll::Pending;
        }
        if s.granted[self.task] {
            s.granted[self.task] = false;
            s.waiting[self.task] = None;
            let hit = s.fail.as_ref().is_some_and(|(t, p, _)| *t == self.task && p == self.point);
            if hit {
                s.seen += 1;
                if s.fail.as_ref().is_some_and(|(_, _, occ)| *occ == s.seen) {
                    s.fired = true;
                    return Poll::Ready(Err(std::io::Error::other("injected fault")));
                }
            }
            return Poll::Ready(Ok(()));
        }
        Poll::Pending
    }
}

fn to_op(s: &SchedScenario, op: &SOp) -> Op {
    let key = |k: &u8| s.keys[usize::from(*k) % s.keys.len()].clone();
    let val = |v: &u32| s.values[*v as usize % s.values.len()].clone();
    match op {
        SOp::Put { k, v } => Op::Put { key: key(k), payload: val(v) },
        SOp::PutOverwrite { k, v } => Op::PutOverwrite { key: key(k), payload: val(v) },
        SOp::Get { k } => Op::Get { key: key(k) },
        SOp::Delete { k } => Op::Delete { key: key(k) },
        SOp::List => Op::List { prefix: String::new() },
    }
}

// ------------------------------------------------------------------------------------------------
// Sequential specification
// ------------------------------------------------------------------------------------------------

#[derive(Clone, Debug, PartialEq, Eq)]
enum HOp {
    PutCheck { id: u8, k: usize },
    PutPublish { id: u8, k: usize, v: u32 },
    PutAtomic { k: usize, v: u32 },
    PutOverwrite { k: usize, v: u32 },
    Get { k: usize },
    Delete { k: usize },
    List,
}

#[derive(Clone, Debug, PartialEq, Eq)]
enum HRes {
    Ok,
    Exists,
    Absent,
    NotFound,
    Val(u32),
    Keys(u8),
    /// The write failed with the injected I/O error.
    Failed,
}

#[derive(Clone, Debug, PartialEq, Eq, Hash)]
struct St {
    held: [Option<u32>; 2],
    armed: u64,
}

fn spec(st: &St, op: &HOp) -> Vec<(St, HRes)> {
    let mut n = st.clone();
    match op {
        HOp::PutCheck { id, k } => {
            if st.held[*k].is_some() {
                vec![(n, HRes::Exists)]
            } else {
                n.armed |= 1 << id;
                vec![(n, HRes::Absent)]
            }
        }
        HOp::PutPublish { id, k, v } => {
            if st.armed & (1 << id) == 0 {
                return Vec::new();
            }
            n.armed &= !(1 << id);
            n.held[*k] = Some(*v);
            vec![(n, HRes::Ok)]
        }
        HOp::PutAtomic { k, v } => {
            if st.held[*k].is_some() {
                vec![(n, HRes::Exists)]
            } else {
                n.held[*k] = Some(*v);
                vec![(n, HRes::Ok)]
            }
        }
        HOp::PutOverwrite { k, v } => {
            n.held[*k] = Some(*v);
            vec![(n, HRes::Ok)]
        }
        HOp::Get { k } => match st.held[*k] {
            Some(v) => vec![(n, HRes::Val(v))],
            None => vec![(n, HRes::NotFound)],
        },
        HOp::Delete { k } => {
            if st.held[*k].is_some() {
                n.held[*k] = None;
                vec![(n, HRes::Ok)]
            } else {
                vec![(n, HRes::NotFound)]
            }
        }
        HOp::List => {
            let mask = u8::from(st.held[0].is_some()) | (u8::from(st.held[1].is_some()) << 1);
            vec![(n, HRes::Keys(mask))]
        }
    }
}

struct Done {
    task: usize,
    inv: u64,
    ret: u64,
    sop: SOp,
    hres: HRes,
}

fn history(done: &[Done], atomic_put: bool, n_keys: usize) -> Vec<HistOp<HOp, HRes>> {
    let mut h = Vec::new();
    let mut next_id = 0_u8;
    let mut push = |d: &Done, op: HOp, r: HRes| {
        h.push(HistOp { thread: d.task, invoke: d.inv, ret: Some(d.ret), op, result: Some(r) });
    };
    for d in done {
        let kk = |k: &u8| usize::from(*k) % n_keys;
        match &d.sop {
            SOp::Put { k, .. } if d.hres == HRes::Failed => {
                // The failure is injected after the existence check: the check saw no object, and
                // nothing was published.
                if !atomic_put {
                    let id = next_id;
                    next_id += 1;
                    push(d, HOp::PutCheck { id, k: kk(k) }, HRes::Absent);
                }
            }
            SOp::PutOverwrite { .. } if d.hres == HRes::Failed => {}
            SOp::Put { k, v } => {
                if atomic_put {
                    push(d, HOp::PutAtomic { k: kk(k), v: *v }, d.hres.clone());
                } else {
                    let id = next_id;
                    next_id += 1;
                    if d.hres == HRes::Exists {
                        push(d, HOp::PutCheck { id, k: kk(k) }, HRes::Exists);
                    } else {
                        push(d, HOp::PutCheck { id, k: kk(k) }, HRes::Absent);
                        push(d, HOp::PutPublish { id, k: kk(k), v: *v }, HRes::Ok);
                    }
                }
            }
            SOp::PutOverwrite { k, v } => push(d, HOp::PutOverwrite { k: kk(k), v: *v }, d.hres.clone()),
            SOp::Get { k } => push(d, HOp::Get { k: kk(k) }, d.hres.clone()),
            SOp::Delete { k } => push(d, HOp::Delete { k: kk(k) }, d.hres.clone()),
            SOp::List => push(d, HOp::List, d.hres.clone()),
        }
    }
    h
}

fn render(done: &[Done], s: &SchedScenario) -> String {
    let mut lines: Vec<String> = done
        .iter()
        .map(|d| format!("t{} [{}..{}] {} -> {:?}", d.task, d.inv, d.ret, to_op(s, &d.sop).short(), d.hres))
        .collect();
    lines.sort_by_key(|l| l.len());
    let mut sorted: Vec<&Done> = done.iter().collect();
    sorted.sort_by_key(|d| d.inv);
    lines = sorted
        .iter()
        .map(|d| format!("t{} [{}..{}] {} -> {:?}", d.task, d.inv, d.ret, to_op(s, &d.sop).short(), d.hres))
        .collect();
    lines.join("; ")
}

// ------------------------------------------------------------------------------------------------
// Scenario
// ------------------------------------------------------------------------------------------------

impl SchedScenario {
    fn value_of(&self, bytes: &[u8]) -> Option<u32> {
        // Lengths are pairwise distinct: find by length, then compare.
        self.values
            .iter()
            .position(|p| p.len() as usize == bytes.len())
            .filter(|i| self.values[*i].bytes() == bytes)
            .map(|i| i as u32)
    }

    pub fn directed_put_race() -> Self {
        // t0: put(k, A) passes its existence check, then t1: put(k, B) runs to completion,
        // then t0 publishes. Both report success; B is silently replaced.
        let mut picks = vec![0_u8; 3]; // t0: op:start, before-exists-check, after-exists-check
        picks.extend(std::iter::repeat_n(1_u8, 10)); // t1 from op:start through write:after-rename
        Self {
            keys: vec!["v1/folo/objects/run.json".to_owned()],
            initial: vec![None],
            values: vec![Payload::Text { seed: 1, len: 40 }, Payload::Text { seed: 2, len: 41 }],
            tasks: vec![vec![SOp::Put { k: 0, v: 0 }], vec![SOp::Put { k: 0, v: 1 }]],
            picks,
            atomic_put: true,
            fail: None,
        }
    }
}

pub const AVOID_KEY_PUT_RACE: &str = "put-check-race";

impl Scenario for SchedScenario {
    fn generate(rng: &mut Rng, mode: &str) -> Self {
        if mode == "known-put-check-race" {
            return Self::directed_put_race();
        }
        let n_keys = rng.weighted(&[3, 2]) + 1;
        let mut keys: Vec<String> = Vec::new();
        while keys.len() < n_keys {
            let k = leaf_key(rng);
            if !keys.contains(&k) {
                keys.push(k);
            }
        }
        let n_tasks = rng.weighted(&[3, 2]) + 2;
        let mut values: Vec<Payload> = Vec::new();
        let mut new_value = |rng: &mut Rng| -> u32 {
            let base: u32 = match rng.weighted(&[4, 10, 6, 2, 1]) {
                0 => 0,
                1 => rng.range(1, 200) as u32,
                2 => rng.range(200, 5000) as u32,
                3 => rng.range(60_000, 140_000) as u32,
                _ => rng.range(600_000, 1_200_000) as u32,
            };
            let mut len = base;
            while values.iter().any(|p| p.len() == len) {
                len += 1;
            }
            values.push(Payload::generate_with_len(rng, len));
            (values.len() - 1) as u32
        };
        let initial: Vec<Option<u32>> = (0..n_keys)
            .map(|_| if rng.chance(1, 4) { Some(new_value(rng)) } else { None })
            .collect();
        let mut tasks = Vec::new();
        for _ in 0..n_tasks {
            let n_ops = rng.range_usize(1, 3);
            let mut script = Vec::new();
            for _ in 0..n_ops {
                let k = rng.below(n_keys as u64) as u8;
                script.push(match rng.weighted(&[40, 15, 22, 11, 12]) {
                    0 => SOp::Put { k, v: new_value(rng) },
                    1 => SOp::PutOverwrite { k, v: new_value(rng) },
                    2 => SOp::Get { k },
                    3 => SOp::Delete { k },
                    _ => SOp::List,
                });
            }
            tasks.push(script);
        }
        let sticky = rng.chance(1, 2);
        let picks = (0..110)
            .map(|_| if sticky && rng.chance(7, 10) { 255 } else { rng.below(200) as u8 })
            .collect();
        let fail = if mode == "schedule-faulty" {
            let writers: Vec<usize> = tasks
                .iter()
                .enumerate()
                .filter(|(_, t)| t.iter().any(|o| matches!(o, SOp::Put { .. } | SOp::PutOverwrite { .. })))
                .map(|(i, _)| i)
                .collect();
            (!writers.is_empty()).then(|| {
                (*rng.pick(&writers) as u8, (*rng.pick(FAIL_POINTS)).to_owned(), rng.range(1, 2) as u8)
            })
        } else {
            None
        };
        Self {
            keys,
            initial,
            values,
            tasks,
            picks,
            atomic_put: !crate::AVOID_KNOWN.contains(&AVOID_KEY_PUT_RACE),
            fail,
        }
    }

    #[allow(clippy::too_many_lines)]
    fn run(&self, ctx: &mut Ctx) -> Result<bool, Violation> {
        clear_handler();
        if self.keys.is_empty() || self.keys.len() > 2 || self.values.is_empty() {
            return Ok(false);
        }
        let scratch = Scratch::new();
        let store = scratch.store();
        let rt = runtime();
        let n_keys = self.keys.len();
        let key_paths: Vec<std::path::PathBuf> = self
            .keys
            .iter()
            .map(|k| k.split('/').fold(scratch.root.clone(), |p, s| p.join(s)))
            .collect();

        // Initial state, written through the store itself (fault-free, no handler).
        let mut init = St { held: [None, None], armed: 0 };
        for (k, v) in self.initial.iter().enumerate().take(n_keys) {
            if let Some(v) = v {
                let v = *v % self.values.len() as u32;
                let bytes = self.values[v as usize].bytes();
                rt.block_on(cbh_storage::Storage::put(&store, &self.keys[k], &bytes))
                    .map_err(|e| Violation::new("write-failed", format!("initial put failed: {e}")))?;
                init.held[k] = Some(v);
            }
        }

        let n_tasks = self.tasks.len();
        let sh = Arc::new(Mutex::new(Shared {
            waiting: vec![None; n_tasks],
            granted: vec![false; n_tasks],
            fail: self.fail.as_ref().map(|(t, p, o)| (usize::from(*t) % n_tasks, p.clone(), *o)),
            ..Shared::default()
        }));
        {
            let sh = Arc::clone(&sh);
            cbh_storage::verif::set_sim_point_handler(Some(Box::new(move |name: &'static str| {
                let task = sh.lock().expect("scheduler state").current;
                Box::pin(Gate { sh: Arc::clone(&sh), task, point: name, registered: false })
            })));
        }

        let mut futures: Vec<Option<Pin<Box<dyn Future<Output = ()> + '_>>>> = Vec::new();
        for (t, script) in self.tasks.iter().enumerate() {
            let sh = Arc::clone(&sh);
            let store = &store;
            futures.push(Some(Box::pin(async move {
                for (idx, sop) in script.iter().enumerate() {
                    let _ = Gate { sh: Arc::clone(&sh), task: t, point: "op:start", registered: false }.await;
                    let op = to_op(self, sop);
                    let inv = sh.lock().expect("scheduler state").next_stamp();
                    let (res, data) = exec(store, &op).await;
                    let mut s = sh.lock().expect("scheduler state");
                    let ret = s.next_stamp();
                    s.records.push(Rec { task: t, idx, inv, ret, res, data });
                }
            })));
        }

        let mut running: Option<usize> = None;
        let mut last: Option<usize> = None;
        let mut step = 0_usize;
        let mut primed = 0_usize;
        let mut early: Option<Violation> = None;
        let mut temp_seen_steps = 0_u64;
        rt.block_on(std::future::poll_fn(|cx: &mut Context<'_>| {
            loop {
                // Prime: poll every task once so that each parks at its first `op:start`.
                if running.is_none() && primed < n_tasks {
                    running = Some(primed);
                    primed += 1;
                }
                if let Some(r) = running {
                    sh.lock().expect("scheduler state").current = r;
                    let Some(fut) = futures[r].as_mut() else {
                        running = None;
                        continue;
                    };
                    match fut.as_mut().poll(cx) {
                        Poll::Ready(()) => {
                            futures[r] = None;
                            running = None;
                        }
                        Poll::Pending => {
                            if sh.lock().expect("scheduler state").waiting[r].is_some() {
                                running = None;
                            } else {
                                // Waiting for a filesystem operation on the blocking pool.
                                return Poll::Pending;
                            }
                        }
                    }
                    continue;
                }
                // Omniscient reader: whatever is at a key path right now is a complete object.
                for (k, path) in key_paths.iter().enumerate() {
                    match std::fs::read(path) {
                        Ok(raw) => {
                            let ok = cbh_codec::decompress(&raw).ok().and_then(|plain| self.value_of(&plain));
                            if ok.is_none() {
                                early = Some(Violation::new(
                                    "torn-object-visible",
                                    format!(
                                        "step {step}: the file at key {} ({} bytes on disk) is not a complete object written by any operation",
                                        show(&self.keys[k]),
                                        raw.len()
                                    ),
                                ));
                                return Poll::Ready(());
                            }
                        }
                        Err(e) if e.kind() == std::io::ErrorKind::NotFound => {}
                        Err(e) => {
                            early = Some(Violation::new("key-path-unreadable", format!("step {step}: {e}")));
                            return Poll::Ready(());
                        }
                    }
                }
                let cands: Vec<usize> = (0..n_tasks).filter(|t| futures[*t].is_some()).collect();
                if cands.is_empty() {
                    return Poll::Ready(());
                }
                let p = self.picks.get(step).copied().unwrap_or(0);
                let chosen = match (p >= 200, last) {
                    (true, Some(l)) if cands.contains(&l) => l,
                    _ => cands[usize::from(p) % cands.len()],
                };
                let point = {
                    let mut s = sh.lock().expect("scheduler state");
                    s.granted[chosen] = true;
                    s.waiting[chosen].unwrap_or("?")
                };
                if point.starts_with("write:") && point != "write:before-create" && point != "write:after-rename" {
                    temp_seen_steps += 1;
                }
                ctx.event(mix(chosen as u64, hash_str(point)), || format!("step {step}: t{chosen} continues from {point}"));
                step += 1;
                last = Some(chosen);
                running = Some(chosen);
            }
        }));
        drop(futures);
        clear_handler();
        if let Some(v) = early {
            return Err(v);
        }
        if temp_seen_steps > 0 {
            ctx.probe_n("steps-with-a-temp-file-in-flight", temp_seen_steps);
        }

        // Completed operations -> history.
        let records = std::mem::take(&mut sh.lock().expect("scheduler state").records);
        let fired = sh.lock().expect("scheduler state").fired;
        let mut failed_seen = false;
        let mut done: Vec<Done> = Vec::new();
        let listing = |keys: &[String], at: &str| -> Result<u8, Violation> {
            let mut mask = 0_u8;
            for k in keys {
                match self.keys.iter().position(|x| x == k) {
                    Some(i) => mask |= 1 << i,
                    None => {
                        check!(!leaf_is_reserved(k), "temp-file-listed", "{at}: listing shows temporary file {}", show(k));
                        check!(false, "stray-key-listed", "{at}: listing shows {} which no operation wrote", show(k));
                    }
                }
            }
            Ok(mask)
        };
        for r in &records {
            let sop = self.tasks[r.task][r.idx].clone();
            let at = format!("t{} op {} `{}`", r.task, r.idx, to_op(self, &sop).short());
            ctx.event(mix(r.inv, mix(r.ret, r.res.code())), || format!("{at} [{}..{}] -> {}", r.inv, r.ret, r.res.short()));
            let hres = match (&sop, &r.res) {
                (SOp::Put { .. } | SOp::PutOverwrite { .. } | SOp::Delete { .. }, Res::Ok) => HRes::Ok,
                (SOp::Put { .. }, Res::Exists) => HRes::Exists,
                (SOp::Get { .. } | SOp::Delete { .. }, Res::NotFound) => HRes::NotFound,
                (SOp::Get { .. }, Res::Data { .. }) => {
                    let bytes = r.data.as_deref().unwrap_or(&[]);
                    match self.value_of(bytes) {
                        Some(v) => HRes::Val(v),
                        None => {
                            check!(false, "get-returned-foreign-object", "{at}: returned {} bytes that no operation wrote", bytes.len());
                            unreachable!()
                        }
                    }
                }
                (SOp::List, Res::Keys(keys)) => HRes::Keys(listing(keys, &at)?),
                (SOp::Put { .. } | SOp::PutOverwrite { .. }, Res::Other(_))
                    if fired && self.fail.as_ref().is_some_and(|(t, _, _)| usize::from(*t) % n_tasks == r.task) && !failed_seen =>
                {
                    failed_seen = true;
                    ctx.fault("injected-write-error-under-schedule");
                    HRes::Failed
                }
                (_, other) => {
                    check!(false, "unexpected-error", "{at}: fault-free operation failed: {}", other.short());
                    unreachable!()
                }
            };
            done.push(Done { task: r.task, inv: r.inv, ret: r.ret, sop, hres });
        }
        // Final reads, after every task has finished.
        let mut stamp = sh.lock().expect("scheduler state").stamp;
        for k in 0..n_keys {
            let (res, data) = rt.block_on(exec(&store, &Op::Get { key: self.keys[k].clone() }));
            let hres = match res {
                Res::NotFound => HRes::NotFound,
                Res::Data { .. } => match self.value_of(data.as_deref().unwrap_or(&[])) {
                    Some(v) => HRes::Val(v),
                    None => {
                        check!(false, "get-returned-foreign-object", "final get of {}: foreign bytes", show(&self.keys[k]));
                        unreachable!()
                    }
                },
                other => {
                    check!(false, "object-unreadable", "final get of {}: {}", show(&self.keys[k]), other.short());
                    unreachable!()
                }
            };
            ctx.event(mix(90 + k as u64, match &hres { HRes::Val(v) => u64::from(*v) + 1, _ => 0 }), || {
                format!("final get {} -> {hres:?}", show(&self.keys[k]))
            });
            done.push(Done { task: n_tasks, inv: stamp + 1, ret: stamp + 2, sop: SOp::Get { k: k as u8 }, hres });
            stamp += 2;
        }
        {
            let (res, _) = rt.block_on(exec(&store, &Op::List { prefix: String::new() }));
            let Res::Keys(keys) = &res else {
                return Err(Violation::new("list-failed", format!("final listing: {}", res.short())));
            };
            let mask = listing(keys, "final listing")?;
            done.push(Done { task: n_tasks, inv: stamp + 1, ret: stamp + 2, sop: SOp::List, hres: HRes::Keys(mask) });
        }
        // Nothing but the keys' files on disk, nothing outside the root.
        let tree = scan(&scratch);
        check!(tree.outside.is_empty(), "escaped-root", "something appeared outside the root: {:?}", tree.outside);
        for f in tree.files.keys() {
            check!(!leaf_is_reserved(f), "temp-file-left-behind", "temp file {} left on disk after all writers returned", show(f));
            check!(self.keys.contains(f), "stray-file", "file {} on disk belongs to no key", show(f));
        }

        // Linearizability.
        let relaxed = check_linearizable(init.clone(), &history(&done, false, n_keys), spec);
        let atomic = check_linearizable(init.clone(), &history(&done, true, n_keys), spec);
        ctx.steps += relaxed.states_visited + atomic.states_visited;
        check!(
            relaxed.order.is_some(),
            "not-linearizable",
            "no linearization even with `put` = check + publish (initial {:?}): {}",
            init.held,
            render(&done, self)
        );
        if atomic.order.is_none() {
            check!(
                !self.atomic_put,
                "write-once-lost-under-race",
                "a plain put replaced an object published between its existence check and its rename (initial {:?}): {}",
                init.held,
                render(&done, self)
            );
            ctx.probe("documented-put-race-reached(last-writer-wins)");
        }

        // Non-triviality and probes.
        let is_writer = |s: &SOp| matches!(s, SOp::Put { .. } | SOp::PutOverwrite { .. } | SOp::Delete { .. });
        let key_of = |s: &SOp| match s {
            SOp::Put { k, .. } | SOp::PutOverwrite { k, .. } | SOp::Get { k } | SOp::Delete { k } => Some(usize::from(*k) % n_keys),
            SOp::List => None,
        };
        let mut overlap = false;
        for (i, a) in done.iter().enumerate() {
            for b in &done[i + 1..] {
                if a.task == b.task || a.inv > b.ret || b.inv > a.ret {
                    continue;
                }
                let same_key = key_of(&a.sop).is_some() && key_of(&a.sop) == key_of(&b.sop);
                if same_key && is_writer(&a.sop) && is_writer(&b.sop) {
                    overlap = true;
                    let both_put_ok = matches!(a.sop, SOp::Put { .. }) && matches!(b.sop, SOp::Put { .. }) && a.hres == HRes::Ok && b.hres == HRes::Ok;
                    if both_put_ok {
                        ctx.probe("overlapping-puts-both-succeeded");
                    }
                    if (matches!(a.sop, SOp::Put { .. }) && a.hres == HRes::Exists) || (matches!(b.sop, SOp::Put { .. }) && b.hres == HRes::Exists) {
                        ctx.probe("put-lost-to-overlapping-writer");
                    }
                }
                if same_key && (is_writer(&a.sop) != is_writer(&b.sop)) {
                    ctx.probe("reader-overlapped-writer");
                }
                if (matches!(a.sop, SOp::List) && matches!(b.sop, SOp::Put { .. } | SOp::PutOverwrite { .. }))
                    || (matches!(b.sop, SOp::List) && matches!(a.sop, SOp::Put { .. } | SOp::PutOverwrite { .. }))
                {
                    ctx.probe("list-overlapped-writer");
                }
            }
        }
        if overlap {
            ctx.probe("writers-of-one-key-overlapped");
        }
        Ok(overlap)
    }

    fn shrink(&self) -> Vec<Self> {
        let mut out = Vec::new();
        for t in 0..self.tasks.len() {
            if self.tasks.len() > 1 {
                let mut s = self.clone();
                s.tasks.remove(t);
                out.push(s);
            }
            for ops in simkit::shrink::remove_chunks(&self.tasks[t]) {
                let mut s = self.clone();
                s.tasks[t] = ops;
                out.push(s);
            }
        }
        for k in 0..self.initial.len() {
            if self.initial[k].is_some() {
                let mut s = self.clone();
                s.initial[k] = None;
                out.push(s);
            }
        }
        if self.picks.iter().any(|p| *p != 0) {
            let mut s = self.clone();
            s.picks = vec![0; self.picks.len()];
            out.push(s);
            for i in 0..self.picks.len() {
                if self.picks[i] != 0 {
                    let mut s = self.clone();
                    s.picks[i] = 0;
                    out.push(s);
                }
            }
        }
        // Smaller payloads (keeping lengths distinct).
        for i in 0..self.values.len() {
            let small = i as u32;
            if self.values[i].len() > small && !self.values.iter().any(|p| p.len() == small) {
                let mut s = self.clone();
                s.values[i] = s.values[i].with_len(small);
                out.push(s);
            }
        }
        let size = self.size();
        out.retain(|c| c.size() < size);
        out
    }

    fn size(&self) -> usize {
        self.tasks.iter().map(|t| 20 + t.len() * 10).sum::<usize>()
            + self.initial.iter().filter(|i| i.is_some()).count() * 5
            + self.picks.iter().filter(|p| **p != 0).count()
            + self.values.iter().map(|p| (32 - p.len().leading_zeros()) as usize).sum::<usize>()
    }
}
