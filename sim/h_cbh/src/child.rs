//! Fault plans, the simulation-point handler that realises them, and the hidden `child-run`
//! sub-command (the harness re-executes itself so that a run can really die, or really hit the
//! kernel's file-size limit, without taking the simulator with it).

use std::collections::BTreeMap;
use std::io::{Read as _, Write as _};
use std::sync::{Arc, Mutex};

use serde::{Deserialize, Serialize};

use crate::common::{Op, Res, exec, runtime};

/// Every named point of hook H5, in program order.
pub const POINTS: &[&str] = &[
    "put:before-exists-check",
    "put:after-exists-check",
    "write:before-create",
    "write:after-create",
    "write:mid-payload",
    "write:after-write",
    "write:after-flush",
    "write:before-rename",
    "write:after-rename",
];

/// Points whose `Err` is treated by the store as the I/O error of that step.
pub fn point_is_effective(point: &str) -> bool {
    point.starts_with("write:") && point != "write:after-rename"
}

/// Between temp-file creation and the rename (the window the property is about).
pub fn point_in_window(point: &str) -> bool {
    matches!(
        point,
        "write:after-create" | "write:mid-payload" | "write:after-write" | "write:after-flush" | "write:before-rename"
    )
}

#[derive(Clone, Debug, Serialize, Deserialize, PartialEq, Eq)]
pub struct Inject {
    pub point: String,
    /// 1-based occurrence of `point` within the round.
    pub occurrence: u32,
    pub kind: String,
}

#[derive(Clone, Debug, Serialize, Deserialize, PartialEq, Eq)]
pub enum Plan {
    None,
    /// `abort()` at the `occurrence`-th time `point` is reached.
    Crash { point: String, occurrence: u32 },
    /// Run under `RLIMIT_FSIZE = limit` with `SIGXFSZ` ignored: the kernel fails file writes
    /// beyond `limit` bytes with `EFBIG` after a short write.
    Fsize { limit: u64 },
    /// The listed point occurrences return an injected `io::Error`.
    Inject { faults: Vec<Inject> },
}

fn io_kind(kind: &str) -> std::io::ErrorKind {
    use std::io::ErrorKind as K;
    match kind {
        "storage-full" => K::StorageFull,
        "permission-denied" => K::PermissionDenied,
        "not-found" => K::NotFound,
        "already-exists" => K::AlreadyExists,
        "interrupted" => K::Interrupted,
        "write-zero" => K::WriteZero,
        _ => K::Other,
    }
}

/// Store root of the in-process run, for the `temp-vanishes` fault (see `install_handler`).
pub static VANISH_ROOT: Mutex<Option<std::path::PathBuf>> = Mutex::new(None);

/// Removes every temporary file of the store (an external cleaner racing the write).
fn remove_temp_files(dir: &std::path::Path) {
    let Ok(rd) = std::fs::read_dir(dir) else { return };
    for e in rd.flatten() {
        let p = e.path();
        if p.is_dir() {
            remove_temp_files(&p);
        } else {
            // Only the store's own in-flight temporary files (`.cbh-tmp-<pid>-<nanos>-<counter>`),
            // never a stored object whose key merely begins with the reserved prefix.
            let name = e.file_name().to_string_lossy().into_owned();
            let mine = format!("{}{}-", crate::common::TEMP_PREFIX, std::process::id());
            if let Some(rest) = name.strip_prefix(&mine) {
                let mut parts = rest.split('-');
                let ok = matches!((parts.next(), parts.next(), parts.next()), (Some(a), Some(b), None)
                    if !a.is_empty() && !b.is_empty() && a.bytes().all(|c| c.is_ascii_digit()) && b.bytes().all(|c| c.is_ascii_digit()));
                if ok {
                    let _ = std::fs::remove_file(&p);
                }
            }
        }
    }
}

pub const INJECT_KINDS: &[&str] = &[
    "other", "storage-full", "permission-denied", "not-found", "already-exists", "interrupted", "write-zero",
];

#[derive(Debug, Default)]
pub struct FaultState {
    pub counts: BTreeMap<&'static str, u32>,
    /// `(point, occurrence, kind)` of every fault that fired, in order.
    pub fired: Vec<(String, u32, String)>,
    /// Points reached since the last `take_reached`.
    pub reached: Vec<&'static str>,
}

pub type SharedFaults = Arc<Mutex<FaultState>>;

/// Installs a handler realising `plan` (crash handled by `on_crash`, which must not return).
pub fn install_handler(plan: &Plan, state: &SharedFaults, on_crash: fn(&str, u32) -> !) {
    let plan = plan.clone();
    let state = Arc::clone(state);
    cbh_storage::verif::set_sim_point_handler(Some(Box::new(move |name: &'static str| {
        let occ = {
            let mut s = state.lock().expect("fault state");
            let c = s.counts.entry(name).or_insert(0);
            *c += 1;
            let occ = *c;
            s.reached.push(name);
            occ
        };
        let mut result: std::io::Result<()> = Ok(());
        match &plan {
            Plan::Crash { point, occurrence } => {
                if point == name && *occurrence == occ {
                    on_crash(name, occ);
                }
            }
            Plan::Inject { faults } => {
                if let Some(f) = faults.iter().find(|f| f.point == name && f.occurrence == occ) {
                    state
                        .lock()
                        .expect("fault state")
                        .fired
                        .push((name.to_owned(), occ, f.kind.clone()));
                    if f.kind == "temp-vanishes" && name == "write:before-rename" {
                        // Not an injected return value: the temporary file really disappears (an
                        // external cleaner), so the rename system call itself fails with ENOENT.
                        if let Some(root) = VANISH_ROOT.lock().expect("root").as_ref() {
                            remove_temp_files(root);
                        }
                    } else {
                        result = Err(std::io::Error::new(io_kind(&f.kind), "injected fault"));
                    }
                }
            }
            Plan::None | Plan::Fsize { .. } => {}
        }
        Box::pin(async move { result })
    })));
}

pub fn clear_handler() {
    cbh_storage::verif::set_sim_point_handler(None);
}

// ------------------------------------------------------------------------------------------------
// Child side
// ------------------------------------------------------------------------------------------------

#[derive(Clone, Debug, Serialize, Deserialize)]
pub struct ChildJob {
    pub root: String,
    pub ops: Vec<Op>,
    pub plan: Plan,
}

#[derive(Clone, Debug, Serialize, Deserialize)]
pub enum ChildLine {
    /// Operation `i` returned.
    Done { i: usize, res: Res, reached: Vec<String> },
    /// About to abort inside operation `i`.
    Crash { i: usize, point: String, occurrence: u32 },
    Finished,
}

static CURRENT_OP: std::sync::atomic::AtomicUsize = std::sync::atomic::AtomicUsize::new(0);

fn say(line: &ChildLine) {
    let text = serde_json::to_string(line).expect("serialises");
    let out = std::io::stdout();
    let mut out = out.lock();
    let _ = writeln!(out, "{text}");
    let _ = out.flush();
}

fn die(point: &str, occurrence: u32) -> ! {
    say(&ChildLine::Crash {
        i: CURRENT_OP.load(std::sync::atomic::Ordering::SeqCst),
        point: point.to_owned(),
        occurrence,
    });
    std::process::abort()
}

/// `h_cbh child-run`: the job arrives as JSON on stdin, results leave as JSON lines on stdout.
pub fn child_main() -> ! {
    let mut text = String::new();
    std::io::stdin().read_to_string(&mut text).expect("read job");
    let job: ChildJob = serde_json::from_str(&text).expect("job parses");
    // SAFETY: plain libc calls with valid arguments; single-threaded at this point.
    unsafe {
        let zero = libc::rlimit { rlim_cur: 0, rlim_max: 0 };
        libc::setrlimit(libc::RLIMIT_CORE, &zero);
        if let Plan::Fsize { limit } = &job.plan {
            libc::signal(libc::SIGXFSZ, libc::SIG_IGN);
            let lim = libc::rlimit { rlim_cur: *limit as libc::rlim_t, rlim_max: *limit as libc::rlim_t };
            let rc = libc::setrlimit(libc::RLIMIT_FSIZE, &lim);
            assert!(rc == 0, "setrlimit(RLIMIT_FSIZE) failed");
        }
    }
    let state: SharedFaults = Arc::new(Mutex::new(FaultState::default()));
    install_handler(&job.plan, &state, die);
    let store = cbh_storage::LocalStorage::verif_new(&job.root);
    let rt = runtime();
    for (i, op) in job.ops.iter().enumerate() {
        CURRENT_OP.store(i, std::sync::atomic::Ordering::SeqCst);
        let (res, _data) = rt.block_on(exec(&store, op));
        let reached = std::mem::take(&mut state.lock().expect("fault state").reached)
            .into_iter()
            .map(str::to_owned)
            .collect();
        say(&ChildLine::Done { i, res, reached });
    }
    say(&ChildLine::Finished);
    std::process::exit(0)
}

// ------------------------------------------------------------------------------------------------
// Parent side
// ------------------------------------------------------------------------------------------------

#[derive(Debug)]
pub struct ChildOutcome {
    pub done: Vec<(usize, Res, Vec<String>)>,
    pub crash: Option<(usize, String, u32)>,
    pub finished: bool,
    pub status: String,
    pub aborted: bool,
}

pub fn run_child(job: &ChildJob) -> ChildOutcome {
    let exe = std::env::current_exe().expect("current exe");
    let mut child = std::process::Command::new(exe)
        .arg("child-run")
        .stdin(std::process::Stdio::piped())
        .stdout(std::process::Stdio::piped())
        .stderr(std::process::Stdio::null())
        .spawn()
        .expect("spawn child");
    {
        let mut stdin = child.stdin.take().expect("child stdin");
        let text = serde_json::to_string(job).expect("serialises");
        let _ = stdin.write_all(text.as_bytes());
    }
    let out = child.wait_with_output().expect("wait for child");
    let mut outcome = ChildOutcome {
        done: Vec::new(),
        crash: None,
        finished: false,
        status: format!("{}", out.status),
        aborted: {
            use std::os::unix::process::ExitStatusExt as _;
            out.status.signal() == Some(libc::SIGABRT)
        },
    };
    for line in String::from_utf8_lossy(&out.stdout).lines() {
        match serde_json::from_str::<ChildLine>(line) {
            Ok(ChildLine::Done { i, res, reached }) => outcome.done.push((i, res, reached)),
            Ok(ChildLine::Crash { i, point, occurrence }) => outcome.crash = Some((i, point, occurrence)),
            Ok(ChildLine::Finished) => outcome.finished = true,
            Err(_) => {}
        }
    }
    outcome
}
