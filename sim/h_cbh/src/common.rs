//! Shared pieces: payload/key/op descriptions, the scratch store, raw disk scans, the reference
//! model (map key -> bytes plus the directory skeleton observed on disk) and the result check.

use std::collections::{BTreeMap, BTreeSet};
use std::path::{Path, PathBuf};
use std::sync::Arc;
use std::sync::OnceLock;
use std::sync::atomic::{AtomicU64, Ordering};

use cbh_storage::{LocalStorage, Storage as _, StorageError};
use serde::{Deserialize, Serialize};
use simkit::{Rng, Violation, check, hash_bytes};

pub const TEMP_PREFIX: &str = ".cbh-tmp-";
pub const SCRATCH_BASE: &str = "/verif/target/scratch";
/// A fixed path an absolute key would hit if absolute keys were ever honoured.
pub const ABS_CANARY: &str = "/verif/target/scratch/escape-canary-abs";
/// Linux `NAME_MAX` (ext4, tmpfs, overlayfs): the model predicts an I/O error beyond it.
pub const NAME_MAX: usize = 255;
pub const PATH_MAX: usize = 4096;

// ------------------------------------------------------------------------------------------------
// Payloads
// ------------------------------------------------------------------------------------------------

/// A payload is described, never embedded (a 4 MiB object would bloat replay files).
#[derive(Clone, Debug, Serialize, Deserialize, PartialEq, Eq)]
pub enum Payload {
    /// Incompressible pseudo-random bytes.
    Random { seed: u64, len: u32 },
    /// One byte repeated (compresses to almost nothing).
    Fill { byte: u8, len: u32 },
    /// JSON-ish text, moderately compressible.
    Text { seed: u64, len: u32 },
    /// Bytes that themselves begin like a gzip member (magic, method, flags) followed by noise.
    GzipLike { seed: u64, len: u32 },
}

impl Payload {
    pub fn len(&self) -> u32 {
        match self {
            Payload::Random { len, .. }
            | Payload::Fill { len, .. }
            | Payload::Text { len, .. }
            | Payload::GzipLike { len, .. } => *len,
        }
    }

    pub fn with_len(&self, new_len: u32) -> Payload {
        let mut p = self.clone();
        match &mut p {
            Payload::Random { len, .. }
            | Payload::Fill { len, .. }
            | Payload::Text { len, .. }
            | Payload::GzipLike { len, .. } => *len = new_len,
        }
        p
    }

    pub fn bytes(&self) -> Vec<u8> {
        fn noise(seed: u64, len: usize, out: &mut Vec<u8>) {
            let mut rng = Rng::new(seed ^ 0x5EED_CB19);
            while out.len() < len {
                let w = rng.next_u64().to_le_bytes();
                let take = (len - out.len()).min(8);
                out.extend_from_slice(&w[..take]);
            }
        }
        match self {
            Payload::Random { seed, len } => {
                let mut v = Vec::with_capacity(*len as usize);
                noise(*seed, *len as usize, &mut v);
                v
            }
            Payload::Fill { byte, len } => vec![*byte; *len as usize],
            Payload::Text { seed, len } => {
                let mut rng = Rng::new(*seed ^ 0x7E57);
                let words = [
                    "{\"schema\":1,", "\"results\":[", "\"mean\":", "1.25e-3,", "\"commit\":\"",
                    "deadbeef", "\"},", "]}", "\n", " ", "\u{fffd}", "\0",
                ];
                let mut v = Vec::with_capacity(*len as usize + 16);
                while v.len() < *len as usize {
                    v.extend_from_slice(rng.pick(&words).as_bytes());
                }
                v.truncate(*len as usize);
                v
            }
            Payload::GzipLike { seed, len } => {
                let mut v = vec![0x1f, 0x8b, 0x08, 0x00, 0, 0, 0, 0, 0, 0xff];
                noise(*seed, (*len as usize).max(v.len()), &mut v);
                v.truncate(*len as usize);
                v
            }
        }
    }

    /// Mostly small; medium sometimes; multi-megabyte rarely (`big_per_mille` of draws).
    pub fn generate(rng: &mut Rng, big_per_mille: u64) -> Payload {
        let len: u32 = if rng.chance(big_per_mille, 1000) {
            *rng.pick(&[1 << 20, (1 << 20) + 1, 2 << 20, (2 << 20) + 4097, 3_000_000, 4 << 20])
        } else {
            match rng.weighted(&[10, 42, 26, 4]) {
                0 => *rng.pick(&[0, 0, 1, 2, 3]),
                1 => rng.range(1, 300) as u32,
                2 => rng.range(300, 9000) as u32,
                _ => *rng.pick(&[65_535, 65_536, 65_537, 131_072, 200_001]),
            }
        };
        Payload::generate_with_len(rng, len)
    }

    pub fn generate_with_len(rng: &mut Rng, len: u32) -> Payload {
        let seed = rng.next_u64() >> 16;
        match rng.weighted(&[5, 2, 3, 1]) {
            0 => Payload::Random { seed, len },
            1 => Payload::Fill { byte: *rng.pick(&[0_u8, 0xff, b'a', 0x1f]), len },
            2 => Payload::Text { seed, len },
            _ => Payload::GzipLike { seed, len },
        }
    }

    pub fn short(&self) -> String {
        match self {
            Payload::Random { seed, len } => format!("rnd#{:x}/{len}", seed & 0xffff),
            Payload::Fill { byte, len } => format!("fill{byte:02x}/{len}"),
            Payload::Text { seed, len } => format!("txt#{:x}/{len}", seed & 0xffff),
            Payload::GzipLike { seed, len } => format!("gzl#{:x}/{len}", seed & 0xffff),
        }
    }
}

// ------------------------------------------------------------------------------------------------
// Keys
// ------------------------------------------------------------------------------------------------

pub const GOOD_SEGMENTS: &[&str] = &["v1", "a", "b", "folo", "objects", "x.json", "y.json", "1"];

/// A well-formed key out of a small alphabet (so that collisions and file/directory clashes such
/// as `a` vs `a/b` occur).
pub fn good_key(rng: &mut Rng) -> String {
    let depth = rng.weighted(&[3, 4, 3, 1]) + 1;
    let segs: Vec<&str> = (0..depth).map(|_| *rng.pick(GOOD_SEGMENTS)).collect();
    segs.join("/")
}

/// A plain key that never clashes with the directory skeleton of another such key.
pub fn leaf_key(rng: &mut Rng) -> String {
    let dir = *rng.pick(&["", "v1/", "v1/folo/", "p/q/r/"]);
    let leaf = *rng.pick(&["k0.json", "k1.json", "k2.json"]);
    format!("{dir}{leaf}")
}

/// Any syntactically possible key string. At most three `..` segments per key: the store root
/// sits three levels below the scratch directory that is scanned for escapes.
pub fn any_key(rng: &mut Rng) -> String {
    let long255 = "L".repeat(255);
    let long256 = "M".repeat(256);
    let long300 = "N".repeat(300);
    match rng.weighted(&[30, 6, 6, 8, 4, 5, 5, 6, 6, 8]) {
        0 => good_key(rng),
        1 => (*rng.pick(&["", "/", "a//b", "a/", "/a", "a/b//", "//", "v1//x.json"])).to_owned(),
        2 => (*rng.pick(&[".", "a/./b", "./a", "a/.", "./.", "v1/./x.json"])).to_owned(),
        3 => (*rng.pick(&[
            "..", "../x", "a/../b", "a/../../x", "../../esc", "a/b/../../../esc", "../../../top",
            "v1/..", "../root/a", "..//x", "a/..", "../.cbh-tmp-x",
        ]))
        .to_owned(),
        4 => (*rng.pick(&[
            "/etc/cbh-escape", "/verif/target/scratch/escape-canary-abs", "//x", "/tmp/cbh-escape",
        ]))
        .to_owned(),
        5 => (*rng.pick(&[
            "a\\b", "..\\x", "C:\\Windows\\x", "\\\\server\\share\\f", "a/..\\..\\b", "\\", "v1\\..\\..\\x",
        ]))
        .to_owned(),
        6 => (*rng.pick(&["a\0b", "a\0/b", "\0", "v1/x.json\0", "a/b\0c/d"])).to_owned(),
        7 => match rng.below(7) {
            0 => long255,
            1 => long256,
            2 => long300,
            3 => format!("a/{long255}"),
            4 => format!("a/{long256}/x.json"),
            5 => format!("nodir/{long300}/x"),
            _ => "P".repeat(5000),
        },
        8 => (*rng.pick(&[
            ".cbh-tmp-x", "a/.cbh-tmp-1-2-3", ".cbh-tmp-dir/obj", "v1/.cbh-tmp-", ".cbh-tmp", "a/x.cbh-tmp-1",
        ]))
        .to_owned(),
        _ => (*rng.pick(&[
            "ключ/значение.json", "日本/🦀.json", "e\u{301}", "a\u{202e}b", " spaced ", "tab\tname", "new\nline",
            "-dash", "~", "*?", "...", "..a", ".hidden", "a.", "a/...", "%2e%2e/x", "a:b", "CON", "é/É",
        ]))
        .to_owned(),
    }
}

/// Independent statement of key well-formedness: every `/`-separated segment is an ordinary name.
pub fn key_is_wellformed(key: &str) -> bool {
    key.split('/').all(|s| !s.is_empty() && s != "." && s != "..")
}

pub fn key_could_escape(key: &str) -> bool {
    key.split('/').any(|s| s == "..") || key.starts_with('/')
}

pub fn leaf_is_reserved(key: &str) -> bool {
    key.rsplit('/').next().is_some_and(|leaf| leaf.starts_with(TEMP_PREFIX))
}

pub fn show(s: &str) -> String {
    if s.len() > 48 {
        let head: String = s.chars().take(16).collect();
        format!("{:?}..({} bytes)", head, s.len())
    } else {
        format!("{s:?}")
    }
}

// ------------------------------------------------------------------------------------------------
// Operations and results
// ------------------------------------------------------------------------------------------------

#[derive(Clone, Debug, Serialize, Deserialize, PartialEq, Eq)]
pub enum Op {
    Put { key: String, payload: Payload },
    PutOverwrite { key: String, payload: Payload },
    Get { key: String },
    List { prefix: String },
    Delete { key: String },
}

impl Op {
    pub fn key(&self) -> &str {
        match self {
            Op::Put { key, .. } | Op::PutOverwrite { key, .. } | Op::Get { key } | Op::Delete { key } => key,
            Op::List { prefix } => prefix,
        }
    }

    pub fn payload(&self) -> Option<&Payload> {
        match self {
            Op::Put { payload, .. } | Op::PutOverwrite { payload, .. } => Some(payload),
            _ => None,
        }
    }

    pub fn is_write(&self) -> bool {
        self.payload().is_some()
    }

    pub fn code(&self) -> u64 {
        let tag = match self {
            Op::Put { .. } => 1,
            Op::PutOverwrite { .. } => 2,
            Op::Get { .. } => 3,
            Op::List { .. } => 4,
            Op::Delete { .. } => 5,
        };
        simkit::mix(tag, simkit::hash_str(self.key()))
    }

    pub fn short(&self) -> String {
        match self {
            Op::Put { key, payload } => format!("put {} {}", show(key), payload.short()),
            Op::PutOverwrite { key, payload } => format!("put_overwrite {} {}", show(key), payload.short()),
            Op::Get { key } => format!("get {}", show(key)),
            Op::List { prefix } => format!("list {}", show(prefix)),
            Op::Delete { key } => format!("delete {}", show(key)),
        }
    }

    /// Simpler variants for the minimiser.
    pub fn simpler(&self) -> Vec<Op> {
        let mut out = Vec::new();
        if let Some(p) = self.payload() {
            let mut smaller = Vec::new();
            if p.len() > 0 {
                smaller.push(p.with_len(0));
            }
            if p.len() > 64 {
                smaller.push(p.with_len(64));
            }
            if p.len() > 4096 {
                smaller.push(p.with_len(p.len() / 2));
            }
            for np in smaller {
                out.push(match self {
                    Op::Put { key, .. } => Op::Put { key: key.clone(), payload: np },
                    Op::PutOverwrite { key, .. } => Op::PutOverwrite { key: key.clone(), payload: np },
                    _ => unreachable!(),
                });
            }
        }
        out
    }

    pub fn weight(&self) -> usize {
        let p = self.payload().map_or(0, |p| (32 - p.len().leading_zeros()) as usize);
        4 + p + usize::from(self.key().len() > 16)
    }
}

/// Outcome of one store operation, in the terms a caller can distinguish.
#[derive(Clone, Debug, Serialize, Deserialize, PartialEq, Eq)]
pub enum Res {
    Ok,
    Data { len: u64, hash: u64 },
    Keys(Vec<String>),
    Exists,
    NotFound,
    Invalid,
    Other(String),
}

impl Res {
    pub fn code(&self) -> u64 {
        match self {
            Res::Ok => 1,
            Res::Data { len, hash } => simkit::mix(2 + *len, *hash),
            Res::Keys(k) => k.iter().fold(3, |h, s| simkit::mix(h, simkit::hash_str(s))),
            Res::Exists => 4,
            Res::NotFound => 5,
            Res::Invalid => 6,
            Res::Other(_) => 7,
        }
    }

    pub fn short(&self) -> String {
        match self {
            Res::Ok => "ok".into(),
            Res::Data { len, hash } => format!("data len={len} hash={hash:016x}"),
            Res::Keys(k) => format!("keys[{}] {}", k.len(), k.iter().take(6).map(|s| show(s)).collect::<Vec<_>>().join(",")),
            Res::Exists => "already-exists".into(),
            Res::NotFound => "not-found".into(),
            Res::Invalid => "invalid-key".into(),
            Res::Other(s) => format!("io-error({})", &s[..s.len().min(90)]),
        }
    }
}

pub fn classify_err(e: &StorageError) -> Res {
    if e.is_not_found() {
        return Res::NotFound;
    }
    if e.already_existing_key().is_some() {
        return Res::Exists;
    }
    let text = format!("{e}");
    if text.contains("invalid storage key") {
        return Res::Invalid;
    }
    // Keep only the stable part (no temp names, no pids): first line, paths masked.
    let mut first = text.lines().next().unwrap_or("").to_owned();
    if let Some(pos) = first.find(SCRATCH_BASE) {
        first.truncate(pos);
        first.push_str("<path>");
    }
    let kind = if text.contains("File too large") {
        " [EFBIG]"
    } else if text.contains("injected fault") {
        " [injected]"
    } else {
        ""
    };
    Res::Other(format!("{first}{kind}"))
}

/// Executes one operation against the real store. Returns the caller-visible outcome and, for a
/// successful `get`, the bytes.
pub async fn exec(store: &LocalStorage, op: &Op) -> (Res, Option<Vec<u8>>) {
    match op {
        Op::Put { key, payload } => {
            let bytes = payload.bytes();
            match store.put(key, &bytes).await {
                Ok(()) => (Res::Ok, None),
                Err(e) => (classify_err(&e), None),
            }
        }
        Op::PutOverwrite { key, payload } => {
            let bytes = payload.bytes();
            match store.put_overwrite(key, &bytes).await {
                Ok(()) => (Res::Ok, None),
                Err(e) => (classify_err(&e), None),
            }
        }
        Op::Get { key } => match store.get(key).await {
            Ok(bytes) => (Res::Data { len: bytes.len() as u64, hash: hash_bytes(&bytes) }, Some(bytes)),
            Err(e) => (classify_err(&e), None),
        },
        Op::List { prefix } => match store.list(prefix).await {
            Ok(keys) => (Res::Keys(keys), None),
            Err(e) => (classify_err(&e), None),
        },
        Op::Delete { key } => match store.delete(key).await {
            Ok(()) => (Res::Ok, None),
            Err(e) => (classify_err(&e), None),
        },
    }
}

// ------------------------------------------------------------------------------------------------
// Scratch store on the real filesystem
// ------------------------------------------------------------------------------------------------

static SCRATCH_COUNTER: AtomicU64 = AtomicU64::new(0);

pub fn runtime() -> &'static tokio::runtime::Runtime {
    static RT: OnceLock<tokio::runtime::Runtime> = OnceLock::new();
    RT.get_or_init(|| {
        tokio::runtime::Builder::new_current_thread()
            .build()
            .expect("current-thread runtime")
    })
}

/// `/verif/target/scratch/<pid>-<n>/o1/o2/root`: the store root sits three levels below the
/// scratch directory so that up to three `..` segments still land inside what is scanned.
pub struct Scratch {
    pub top: PathBuf,
    pub root: PathBuf,
}

impl Scratch {
    pub fn new() -> Scratch {
        let n = SCRATCH_COUNTER.fetch_add(1, Ordering::Relaxed);
        let top = PathBuf::from(SCRATCH_BASE).join(format!("{}-{n}", std::process::id()));
        let _ = std::fs::remove_dir_all(&top);
        let root = top.join("o1").join("o2").join("root");
        std::fs::create_dir_all(&root).expect("create scratch directory");
        Scratch { top, root }
    }

    pub fn store(&self) -> LocalStorage {
        LocalStorage::verif_new(&self.root)
    }
}

impl Drop for Scratch {
    fn drop(&mut self) {
        let _ = std::fs::remove_dir_all(&self.top);
    }
}

/// What is on disk, seen through `std::fs` (independent of the store's own listing).
#[derive(Debug, Default, Clone, PartialEq, Eq)]
pub struct Tree {
    /// Files under the root by `/`-joined relative path, with their size.
    pub files: BTreeMap<String, u64>,
    /// Directories under the root (relative).
    pub dirs: BTreeSet<String>,
    /// Anything inside the scratch directory that is not the `o1/o2/root` chain or below the root.
    pub outside: Vec<String>,
}

impl Tree {
    pub fn temp_files(&self) -> Vec<&String> {
        self.files
            .keys()
            .filter(|k| leaf_is_reserved(k))
            .collect()
    }
}

pub fn scan(scratch: &Scratch) -> Tree {
    fn walk(dir: &Path, rel: &str, tree: &mut Tree) {
        let Ok(rd) = std::fs::read_dir(dir) else { return };
        for entry in rd.flatten() {
            let name = entry.file_name().to_string_lossy().into_owned();
            let rel_child = if rel.is_empty() { name.clone() } else { format!("{rel}/{name}") };
            let Ok(ft) = entry.file_type() else { continue };
            if ft.is_dir() {
                tree.dirs.insert(rel_child.clone());
                walk(&entry.path(), &rel_child, tree);
            } else {
                let size = entry.metadata().map_or(0, |m| m.len());
                tree.files.insert(rel_child, size);
            }
        }
    }
    let mut tree = Tree::default();
    // The chain above the root: each level may contain exactly the next link.
    let chain = ["o1", "o2", "root"];
    let mut dir = scratch.top.clone();
    let mut rel = String::new();
    for link in chain {
        if let Ok(rd) = std::fs::read_dir(&dir) {
            for entry in rd.flatten() {
                let name = entry.file_name().to_string_lossy().into_owned();
                if name != link {
                    tree.outside.push(format!("{rel}{name}"));
                }
            }
        }
        dir = dir.join(link);
        rel.push_str(link);
        rel.push('/');
    }
    walk(&scratch.root, "", &mut tree);
    if Path::new(ABS_CANARY).exists() {
        tree.outside.push(ABS_CANARY.to_owned());
    }
    tree.outside.sort();
    tree
}

// ------------------------------------------------------------------------------------------------
// Reference model
// ------------------------------------------------------------------------------------------------

#[derive(Clone, Debug, Default)]
pub struct Model {
    pub objects: BTreeMap<String, Arc<Vec<u8>>>,
    /// Directory skeleton as last observed on disk (directories are not part of the property;
    /// the model only needs them to predict `ENOTDIR`/`EISDIR`-style refusals).
    pub dirs: BTreeSet<String>,
}

#[derive(Clone, Copy, Debug, PartialEq, Eq)]
pub enum Node {
    Dir,
    File,
    Missing,
    /// Path resolution fails with something other than "not found" (a file used as a directory,
    /// an over-long name, an interior NUL).
    Bad,
}

/// What the model expects of an operation.
#[derive(Clone, Debug, PartialEq, Eq)]
pub enum Expect {
    Invalid,
    /// A write that must succeed and store the payload.
    Stored,
    /// Write-once refusal, object unchanged.
    Exists,
    /// Refused with `already exists` or an I/O error (the key names a directory); nothing changes.
    Refused,
    /// An I/O error; nothing changes.
    IoError,
    NotFound,
    Data(Arc<Vec<u8>>),
    Deleted,
    Keys(Vec<String>),
}

impl Model {
    fn path_len_ok(&self, root_len: usize, segs: &[&str]) -> bool {
        let total: usize = root_len + segs.iter().map(|s| s.len() + 1).sum::<usize>();
        total < PATH_MAX
    }

    pub fn resolve(&self, root_len: usize, segs: &[&str]) -> Node {
        if segs.iter().any(|s| s.contains('\0')) || !self.path_len_ok(root_len, segs) {
            return Node::Bad;
        }
        let mut cur = String::new();
        for (i, seg) in segs.iter().enumerate() {
            if seg.len() > NAME_MAX {
                return Node::Bad;
            }
            if !cur.is_empty() {
                cur.push('/');
            }
            cur.push_str(seg);
            let last = i + 1 == segs.len();
            if self.objects.contains_key(&cur) {
                return if last { Node::File } else { Node::Bad };
            }
            if self.dirs.contains(&cur) {
                continue;
            }
            return Node::Missing;
        }
        Node::Dir
    }

    /// Effect of `create_dir_all` on these segments under the root: whether it succeeds, and the
    /// directories that exist afterwards because of it. (On failure at a bad component — over-long
    /// name, a file in the way — every component before it exists: either it did already, or the
    /// kernel reported the missing one first and the recursion created it.)
    fn mkdirs(&self, root_len: usize, segs: &[&str]) -> (bool, Vec<String>) {
        if segs.iter().any(|s| s.contains('\0')) || !self.path_len_ok(root_len, segs) {
            return (false, Vec::new());
        }
        let mut made = Vec::new();
        let mut cur = String::new();
        for seg in segs {
            if seg.len() > NAME_MAX {
                return (false, made);
            }
            if !cur.is_empty() {
                cur.push('/');
            }
            cur.push_str(seg);
            if self.objects.contains_key(&cur) {
                return (false, made);
            }
            made.push(cur.clone());
        }
        (true, made)
    }

    pub fn listable(&self, prefix: &str) -> Vec<String> {
        self.objects
            .keys()
            .filter(|k| k.starts_with(prefix) && !leaf_is_reserved(k))
            .cloned()
            .collect()
    }

    pub fn expect(&self, root_len: usize, op: &Op) -> Expect {
        match op {
            Op::List { prefix } => {
                // The walk starts at the deepest directory the prefix's complete plain segments name.
                let mut segs: Vec<&str> = Vec::new();
                if let Some((parents, _partial)) = prefix.rsplit_once('/') {
                    for s in parents.split('/') {
                        if s.is_empty() || s == "." || s == ".." {
                            break;
                        }
                        segs.push(s);
                    }
                }
                match self.resolve(root_len, &segs) {
                    Node::Dir | Node::Missing => Expect::Keys(self.listable(prefix)),
                    Node::File | Node::Bad => Expect::IoError,
                }
            }
            _ => {
                let key = op.key();
                if !key_is_wellformed(key) {
                    return Expect::Invalid;
                }
                let segs: Vec<&str> = key.split('/').collect();
                let node = self.resolve(root_len, &segs);
                match op {
                    Op::Put { payload, .. } | Op::PutOverwrite { payload, .. } => {
                        if !self.mkdirs(root_len, &segs[..segs.len() - 1]).0 {
                            return Expect::IoError;
                        }
                        let overwrite = matches!(op, Op::PutOverwrite { .. });
                        let _ = payload;
                        match (node, overwrite) {
                            (Node::Bad, _) => Expect::IoError,
                            (Node::Dir, false) => Expect::Refused,
                            (Node::Dir, true) => Expect::IoError,
                            (Node::File, false) => Expect::Exists,
                            (Node::File, true) | (Node::Missing, _) => Expect::Stored,
                        }
                    }
                    Op::Get { .. } => match node {
                        Node::File => Expect::Data(Arc::clone(&self.objects[key])),
                        Node::Missing => Expect::NotFound,
                        Node::Dir | Node::Bad => Expect::IoError,
                    },
                    Op::Delete { .. } => match node {
                        Node::File => Expect::Deleted,
                        Node::Missing => Expect::NotFound,
                        Node::Dir | Node::Bad => Expect::IoError,
                    },
                    Op::List { .. } => unreachable!(),
                }
            }
        }
    }

    /// Compares an observed outcome with the expectation and applies the operation to the model.
    /// `data` is the bytes of a successful get when available (in-process), otherwise the hash in
    /// `res` is compared. `failed_write` = an injected/real write error is expected for this op.
    pub fn check_and_apply(
        &mut self,
        root_len: usize,
        i: usize,
        op: &Op,
        res: &Res,
        data: Option<&[u8]>,
        failed_write: bool,
    ) -> Result<(), Violation> {
        let mut exp = self.expect(root_len, op);
        if failed_write && exp == Expect::Stored {
            exp = Expect::IoError;
        }
        let what = || format!("op {i} `{}` -> {}", op.short(), res.short());
        if op.is_write() && exp != Expect::Invalid {
            let segs: Vec<&str> = op.key().split('/').collect();
            let (_, made) = self.mkdirs(root_len, &segs[..segs.len() - 1]);
            self.dirs.extend(made);
        }
        match (&exp, res) {
            (Expect::Invalid, Res::Invalid) => {}
            (Expect::Invalid, _) => {
                if key_could_escape(op.key()) {
                    check!(false, "escaping-key-accepted", "{}: a key that could escape the root was not rejected", what());
                }
                check!(false, "nonplain-key-accepted", "{}: a key with an empty or `.` segment was not rejected", what());
            }
            (_, Res::Invalid) => {
                check!(false, "wellformed-key-rejected", "{}: well-formed key rejected as invalid", what());
            }
            (Expect::Stored, Res::Ok) => {
                let bytes = op.payload().expect("write op").bytes();
                self.objects.insert(op.key().to_owned(), Arc::new(bytes));
            }
            (Expect::Stored, Res::Exists) => {
                check!(false, "put-refused-on-empty-key", "{}: refused although the key holds nothing", what());
            }
            (Expect::Stored, _) => {
                check!(false, "write-failed", "{}: a write the model expects to succeed failed", what());
            }
            (Expect::Exists, Res::Exists) => {}
            (Expect::Exists, Res::Ok) => {
                check!(false, "write-once-violated", "{}: plain put on a key that already holds an object succeeded", what());
            }
            (Expect::Exists, _) => {
                check!(false, "wrong-refusal", "{}: expected already-exists", what());
            }
            (Expect::Refused, Res::Exists | Res::Other(_)) => {}
            (Expect::IoError, Res::Other(_)) => {}
            (Expect::Refused | Expect::IoError, _) => {
                check!(false, "expected-io-error", "{}: model expects an I/O refusal ({exp:?})", what());
            }
            (Expect::NotFound, Res::NotFound) => {}
            (Expect::NotFound, Res::Data { .. }) => {
                check!(false, "phantom-object", "{}: key holds nothing in the model", what());
            }
            (Expect::NotFound, _) => {
                check!(false, "expected-not-found", "{}: expected not-found", what());
            }
            (Expect::Data(want), Res::Data { len, hash }) => {
                let same = match data {
                    Some(d) => d == want.as_slice(),
                    None => *len == want.len() as u64 && *hash == hash_bytes(want),
                };
                check!(
                    same,
                    "readback-mismatch",
                    "{}: stored object does not read back byte-identical (want len {} hash {:016x})",
                    what(),
                    want.len(),
                    hash_bytes(want)
                );
            }
            (Expect::Data(_), Res::NotFound) => {
                check!(false, "object-lost", "{}: the model holds an object at this key", what());
            }
            (Expect::Data(_), _) => {
                check!(false, "object-unreadable", "{}: a stored object cannot be read (partial or corrupt?)", what());
            }
            (Expect::Deleted, Res::Ok) => {
                self.objects.remove(op.key());
            }
            (Expect::Deleted, _) => {
                check!(false, "delete-failed", "{}: delete of an existing object failed", what());
            }
            (Expect::Keys(want), Res::Keys(got)) => {
                if let Some(t) = got.iter().find(|k| leaf_is_reserved(k) && !self.objects.contains_key(*k)) {
                    check!(false, "temp-file-listed", "{}: listing shows temporary file {}", what(), show(t));
                }
                check!(
                    got == want,
                    "list-mismatch",
                    "{}: listing differs from the model: want {:?}",
                    what(),
                    want.iter().map(|s| show(s)).collect::<Vec<_>>()
                );
            }
            (Expect::Keys(_), _) => {
                check!(false, "list-failed", "{}: listing failed", what());
            }
        }
        Ok(())
    }

    /// Compares the raw disk contents with the model. `allow_orphans`: after a crash, reserved
    /// temp files may remain on disk (they must stay invisible to `list`, which is checked elsewhere).
    /// `op_keys`: the keys of the writes just executed (new directories must be ancestors of one).
    pub fn check_disk(
        &mut self,
        tree: &Tree,
        allow_orphans: bool,
        op_keys: &[&str],
        at: &str,
    ) -> Result<(), Violation> {
        check!(
            tree.outside.is_empty(),
            "escaped-root",
            "{at}: something appeared outside the store root: {:?}",
            tree.outside
        );
        for f in tree.files.keys() {
            if self.objects.contains_key(f) {
                continue;
            }
            if leaf_is_reserved(f) {
                check!(allow_orphans, "temp-file-left-behind", "{at}: temp file {} left on disk without a crash", show(f));
                continue;
            }
            check!(false, "stray-file", "{at}: file {} on disk is not an object of the model", show(f));
        }
        for k in self.objects.keys() {
            check!(tree.files.contains_key(k), "object-file-missing", "{at}: object {} has no file on disk", show(k));
        }
        for d in &self.dirs {
            check!(tree.dirs.contains(d), "directory-vanished", "{at}: directory {} vanished", show(d));
        }
        for d in &tree.dirs {
            if self.dirs.contains(d) {
                continue;
            }
            let ok = op_keys
                .iter()
                .any(|k| k.len() > d.len() && k.starts_with(d.as_str()) && k.as_bytes()[d.len()] == b'/');
            check!(ok, "unexpected-directory", "{at}: directory {} appeared (written keys {:?})", show(d), op_keys);
        }
        self.dirs = tree.dirs.clone();
        Ok(())
    }
}

/// Final sweep through the public API and the raw files: every object of the model reads back
/// byte-identical, on disk it is a complete gzip member of exactly that payload, and the full
/// listing equals the model.
pub fn final_sweep(scratch: &Scratch, model: &Model, at: &str) -> Result<(), Violation> {
    let store = scratch.store();
    let rt = runtime();
    for (k, want) in &model.objects {
        let got = rt.block_on(store.get(k));
        match got {
            Ok(bytes) => check!(
                bytes == **want,
                "readback-mismatch",
                "{at}: object {} does not read back byte-identical (len {} vs {})",
                show(k),
                bytes.len(),
                want.len()
            ),
            Err(e) => check!(false, "object-unreadable", "{at}: object {} cannot be read: {e}", show(k)),
        }
        let mut path = scratch.root.clone();
        for s in k.split('/') {
            path.push(s);
        }
        let raw = std::fs::read(&path)
            .map_err(|e| Violation::new("object-file-missing", format!("{at}: {}: {e}", show(k))))?;
        match cbh_codec::decompress(&raw) {
            Ok(plain) => check!(plain == **want, "raw-object-mismatch", "{at}: file of {} holds other bytes", show(k)),
            Err(e) => check!(false, "raw-object-corrupt", "{at}: file of {} is not a complete gzip member: {e}", show(k)),
        }
    }
    let listed = rt.block_on(store.list(""));
    match listed {
        Ok(keys) => {
            if let Some(t) = keys.iter().find(|k| leaf_is_reserved(k) && !model.objects.contains_key(*k)) {
                check!(false, "temp-file-listed", "{at}: listing shows temporary file {}", show(t));
            }
            let want = model.listable("");
            check!(keys == want, "list-mismatch", "{at}: full listing {:?} differs from the model {:?}", keys, want);
        }
        Err(e) => check!(false, "list-failed", "{at}: full listing failed: {e}"),
    }
    Ok(())
}
