//! Modes `crash` and `error`.
//!
//! A scenario is: `setup` operations (in-process, fault-free), then one or two *rounds*, each a
//! short operation list executed under a fault plan, then `post` operations (in-process,
//! fault-free: "later operations work").
//!
//! * `Plan::Crash` and `Plan::Fsize` rounds run in a child process (real `abort()`, real
//!   `RLIMIT_FSIZE`); the parent then opens the store afresh.
//! * `Plan::Inject` rounds run in-process with a handler that returns the injected `io::Error`.
//!
//! Oracle after a crash inside a write of key K (old = what the model held, new = the payload):
//! `get(K)` returns exactly old or exactly new (not-found only when there was no old); when the
//! interrupted operation would have been refused anyway, only old is admissible. Every other key
//! is untouched, the full listing equals the model and shows no reserved temp name, nothing
//! appeared outside the root. Orphaned temp files may remain *on disk* after a crash (the property
//! allows that) but never after a mere error.

use serde::{Deserialize, Serialize};
use simkit::{Ctx, Rng, Scenario, Violation, check, hash_bytes, hash_str, mix};

use cbh_storage::Storage as _;

use crate::child::{
    ChildJob, FaultState, INJECT_KINDS, Inject, POINTS, Plan, SharedFaults, clear_handler, install_handler,
    point_in_window, point_is_effective, run_child,
};
use crate::common::{
    Expect, Model, Op, Payload, Res, Scratch, any_key, exec, final_sweep, good_key, leaf_key, runtime, scan,
};
use crate::seq::gen_prefix;

#[derive(Clone, Debug, Serialize, Deserialize)]
pub struct Round {
    pub ops: Vec<Op>,
    pub plan: Plan,
}

#[derive(Clone, Debug, Serialize, Deserialize)]
pub struct FaultScenario {
    pub setup: Vec<Op>,
    pub rounds: Vec<Round>,
    pub post: Vec<Op>,
}

fn pool_key(rng: &mut Rng, pool: &[String]) -> String {
    if rng.chance(8, 100) { any_key(rng) } else { rng.pick(pool).clone() }
}

fn gen_write(rng: &mut Rng, pool: &[String], payload: Payload) -> Op {
    let key = pool_key(rng, pool);
    if rng.chance(55, 100) { Op::Put { key, payload } } else { Op::PutOverwrite { key, payload } }
}

fn gen_other(rng: &mut Rng, pool: &[String]) -> Op {
    match rng.weighted(&[4, 3, 2]) {
        0 => Op::Get { key: pool_key(rng, pool) },
        1 => Op::List { prefix: gen_prefix(rng, pool) },
        _ => Op::Delete { key: pool_key(rng, pool) },
    }
}

fn unexpected_child_end() -> ! {
    unreachable!("in-process rounds never crash")
}

fn no_crash(_: &str, _: u32) -> ! {
    unexpected_child_end()
}

impl Scenario for FaultScenario {
    fn generate(rng: &mut Rng, mode: &str) -> Self {
        let n_pool = rng.range_usize(1, 4);
        let pool: Vec<String> = (0..n_pool)
            .map(|_| if rng.chance(3, 4) { leaf_key(rng) } else { good_key(rng) })
            .collect();
        let n_setup = rng.range_usize(0, 5);
        let setup = (0..n_setup)
            .map(|_| {
                if rng.chance(3, 4) {
                    let payload = Payload::generate(rng, 0);
                    gen_write(rng, &pool, payload)
                } else {
                    gen_other(rng, &pool)
                }
            })
            .collect();
        let n_rounds = rng.weighted(&[7, 3]) + 1;
        let mut rounds = Vec::new();
        for _ in 0..n_rounds {
            let n_ops = rng.range_usize(1, 5);
            let write_at = rng.below_usize(n_ops);
            let kind = if mode == "crash" { 0 } else { 1 + rng.weighted(&[2, 1]) };
            let fsize_limit: u64 = *rng.pick(&[0, 1, 19, 20, 21, 100, 1000, 4096, 8192, 65_536, 100_000, 1 << 20]);
            let mut ops = Vec::new();
            for j in 0..n_ops {
                if j == write_at || rng.chance(1, 2) {
                    let payload = match kind {
                        // Crash: sometimes a payload large enough that a write handed to the
                        // runtime's blocking pool is still in flight a moment later.
                        0 if rng.chance(1, 8) => {
                            let len = *rng.pick(&[300_000_u32, 1 << 20, 2 << 20, (2 << 20) + 70_000, 4 << 20]);
                            Payload::Random { seed: rng.next_u64() >> 16, len }
                        }
                        // File-size limit: payloads around the limit, incompressible so that the
                        // stored size is predictable (the model compresses to know exactly).
                        2 if rng.chance(2, 3) => {
                            let around = fsize_limit.min(300_000) as u32;
                            let len = match rng.below(4) {
                                0 => around / 2,
                                1 => around.saturating_add(rng.range(1, 64) as u32),
                                2 => around.saturating_mul(2).saturating_add(100).min(600_000),
                                _ => around.saturating_mul(4).saturating_add(5000).min(1_300_000),
                            };
                            Payload::Random { seed: rng.next_u64() >> 16, len }
                        }
                        _ => Payload::generate(rng, 0),
                    };
                    ops.push(gen_write(rng, &pool, payload));
                } else {
                    ops.push(gen_other(rng, &pool));
                }
            }
            let n_writes = ops.iter().filter(|o| o.is_write()).count() as u64;
            let pick_point = |rng: &mut Rng| -> String {
                // Window points twice as likely as the others.
                let weights: Vec<u32> = POINTS.iter().map(|p| if point_in_window(p) { 2 } else { 1 }).collect();
                POINTS[rng.weighted(&weights)].to_owned()
            };
            // Flavour "death right after publication of a large object": the only window in which
            // bytes still in flight inside the runtime's blocking pool would be visible at the key.
            let late_death = kind == 0 && rng.chance(1, 12);
            if late_death {
                let len = *rng.pick(&[700_000_u32, 1 << 20, (2 << 20) + 300_000, 3 << 20, 4 << 20]);
                let payload = Payload::Random { seed: rng.next_u64() >> 16, len };
                let key = format!("late/{}", leaf_key(rng));
                ops.insert(0, if rng.bool() { Op::PutOverwrite { key, payload } } else { Op::Put { key, payload } });
            }
            let plan = match kind {
                0 if late_death => Plan::Crash { point: "write:after-rename".to_owned(), occurrence: 1 },
                0 => Plan::Crash {
                    point: pick_point(rng),
                    occurrence: if rng.chance(3, 5) { 1 } else { rng.range(1, n_writes.max(1)) as u32 },
                },
                1 => {
                    let n_faults = rng.range_usize(1, 3);
                    let mut faults: Vec<Inject> = Vec::new();
                    for _ in 0..n_faults {
                        let mut f = Inject {
                            point: pick_point(rng),
                            occurrence: rng.range(1, n_writes.max(1)) as u32,
                            kind: (*rng.pick(INJECT_KINDS)).to_owned(),
                        };
                        if f.point == "write:before-rename" && rng.bool() {
                            f.kind = "temp-vanishes".to_owned();
                        }
                        if !faults.iter().any(|g| g.point == f.point && g.occurrence == f.occurrence) {
                            faults.push(f);
                        }
                    }
                    Plan::Inject { faults }
                }
                _ => Plan::Fsize { limit: fsize_limit },
            };
            rounds.push(Round { ops, plan });
        }
        let n_post = rng.range_usize(2, 6);
        let mut post: Vec<Op> = (0..n_post)
            .map(|_| {
                if rng.chance(1, 2) {
                    let payload = Payload::generate(rng, 0);
                    gen_write(rng, &pool, payload)
                } else {
                    gen_other(rng, &pool)
                }
            })
            .collect();
        post.push(Op::List { prefix: String::new() });
        Self { setup, rounds, post }
    }

    fn run(&self, ctx: &mut Ctx) -> Result<bool, Violation> {
        clear_handler();
        let scratch = Scratch::new();
        *crate::child::VANISH_ROOT.lock().expect("root") = Some(scratch.root.clone());
        let root_len = scratch.root.as_os_str().len();
        let store = scratch.store();
        let rt = runtime();
        let mut model = Model::default();
        let mut crashed_before = false;
        let mut nontrivial = false;

        let plain = |model: &mut Model, ctx: &mut Ctx, phase: &str, ops: &[Op], orphans_ok: bool| -> Result<(), Violation> {
            for (i, op) in ops.iter().enumerate() {
                let (res, data) = rt.block_on(exec(&store, op));
                ctx.event(mix(hash_str(phase), mix(op.code(), res.code())), || {
                    format!("{phase} {i}: {} -> {}", op.short(), res.short())
                });
                model.check_and_apply(root_len, i, op, &res, data.as_deref(), false)
                    .map_err(|v| Violation::new(&v.class, format!("[{phase}] {}", v.detail)))?;
                let tree = scan(&scratch);
                let written: Vec<&str> = if op.is_write() { vec![op.key()] } else { Vec::new() };
                model.check_disk(&tree, orphans_ok, &written, &format!("{phase} after op {i} `{}`", op.short()))?;
            }
            Ok(())
        };

        plain(&mut model, ctx, "setup", &self.setup, false)?;

        for (r, round) in self.rounds.iter().enumerate() {
            let phase = format!("round{r}");
            ctx.event(hash_str(&format!("{:?}", round.plan)), || format!("{phase}: plan {:?}", round.plan));
            match &round.plan {
                Plan::None | Plan::Inject { .. } => {
                    let state: SharedFaults = std::sync::Arc::new(std::sync::Mutex::new(FaultState::default()));
                    install_handler(&round.plan, &state, no_crash);
                    let result = (|| -> Result<(), Violation> {
                        for (i, op) in round.ops.iter().enumerate() {
                            let fired_before = state.lock().expect("fault state").fired.len();
                            let (res, data) = rt.block_on(exec(&store, op));
                            let fired: Vec<(String, u32, String)> =
                                state.lock().expect("fault state").fired[fired_before..].to_vec();
                            let mut failed_write = false;
                            for (point, _occ, _kind) in &fired {
                                ctx.fault(&format!("inject:{point}"));
                                if point_is_effective(point) {
                                    failed_write = true;
                                    if point_in_window(point) {
                                        nontrivial = true;
                                    }
                                } else {
                                    ctx.probe("inject-at-ignored-point-no-effect");
                                }
                            }
                            ctx.event(mix(op.code(), mix(res.code(), fired.len() as u64)), || {
                                format!("{phase} {i}: {} -> {} fired {:?}", op.short(), res.short(), fired)
                            });
                            model
                                .check_and_apply(root_len, i, op, &res, data.as_deref(), failed_write)
                                .map_err(|v| {
                                    let class = if failed_write && v.class == "expected-io-error" {
                                        "injected-error-swallowed".to_owned()
                                    } else {
                                        v.class
                                    };
                                    Violation::new(&class, format!("[{phase}, injected {fired:?}] {}", v.detail))
                                })?;
                            let tree = scan(&scratch);
                            let written: Vec<&str> = if op.is_write() { vec![op.key()] } else { Vec::new() };
                            model
                                .check_disk(&tree, crashed_before, &written, &format!("{phase} after op {i} `{}` (injected {fired:?})", op.short()))
                                .map_err(|v| {
                                    if failed_write { Violation::new(&format!("failed-write-half-happened/{}", v.class), v.detail) } else { v }
                                })?;
                        }
                        Ok(())
                    })();
                    clear_handler();
                    result?;
                    final_sweep(&scratch, &model, &format!("after {phase}"))
                        .map_err(|v| Violation::new(&format!("failed-write-half-happened/{}", v.class), v.detail))?;
                }
                Plan::Crash { .. } | Plan::Fsize { .. } => {
                    let job = ChildJob {
                        root: scratch.root.to_string_lossy().into_owned(),
                        ops: round.ops.clone(),
                        plan: round.plan.clone(),
                    };
                    let outcome = run_child(&job);
                    let limit = if let Plan::Fsize { limit } = &round.plan { Some(*limit) } else { None };
                    // 1. Everything the child reported as completed.
                    for (n, (i, res, _reached)) in outcome.done.iter().enumerate() {
                        check!(*i == n && n < round.ops.len(), "child-protocol", "{phase}: result lines out of order");
                        let op = &round.ops[n];
                        let mut failed_write = false;
                        if let (Some(limit), Some(p)) = (limit, op.payload()) {
                            if model.expect(root_len, op) == Expect::Stored {
                                let stored = cbh_codec::compress(&p.bytes()).len() as u64;
                                if stored > limit {
                                    failed_write = true;
                                    ctx.fault("efbig");
                                    if limit > 0 {
                                        ctx.fault("efbig-after-short-write");
                                        nontrivial = true;
                                    }
                                    if let Res::Other(text) = res {
                                        if text.contains("EFBIG") {
                                            ctx.probe("efbig-confirmed-in-error-text");
                                        }
                                    }
                                } else {
                                    ctx.probe("write-within-file-size-limit");
                                }
                            }
                        }
                        ctx.event(mix(op.code(), res.code()), || format!("{phase} child {n}: {} -> {}", op.short(), res.short()));
                        model
                            .check_and_apply(root_len, n, op, res, None, failed_write)
                            .map_err(|v| {
                                let class = if failed_write && v.class == "expected-io-error" {
                                    "short-write-swallowed".to_owned()
                                } else {
                                    v.class
                                };
                                Violation::new(&class, format!("[{phase}, child, {:?}] {}", round.plan, v.detail))
                            })?;
                    }
                    // 2. How the child ended.
                    if let Some((i, point, occ)) = &outcome.crash {
                        check!(outcome.aborted, "child-protocol", "{phase}: crash announced but exit was {}", outcome.status);
                        check!(*i == outcome.done.len() && *i < round.ops.len(), "child-protocol", "{phase}: crash inside op {i} but {} results", outcome.done.len());
                        ctx.fault(&format!("crash:{point}"));
                        crashed_before = true;
                        if point_in_window(point) {
                            nontrivial = true;
                        }
                        let op = &round.ops[*i];
                        check!(op.is_write(), "child-protocol", "{phase}: crash point inside a non-write op");
                        let key = op.key();
                        let new = op.payload().expect("write").bytes();
                        let old = model.objects.get(key).cloned();
                        let exp = model.expect(root_len, op);
                        let new_admissible = exp == Expect::Stored;
                        let verdict = if !matches!(exp, Expect::Stored | Expect::Exists) {
                            // The interrupted operation was bound to fail (the key names a
                            // directory, a file is in the way, the name is unusable): the key
                            // must look exactly as the model says it did before.
                            let probe = Op::Get { key: key.to_owned() };
                            let (res, data) = rt.block_on(exec(&store, &probe));
                            model.check_and_apply(root_len, *i, &probe, &res, data.as_deref(), false).map_err(|v| {
                                Violation::new(
                                    &format!("crash-changed-unwritable-key/{}", v.class),
                                    format!("{phase}: after crash at {point}#{occ} inside `{}`: {}", op.short(), v.detail),
                                )
                            })?;
                            "unchanged(op-was-bound-to-fail)"
                        } else {
                            match rt.block_on(store.get(key)) {
                            Ok(bytes) => {
                                if old.as_ref().is_some_and(|o| **o == bytes) {
                                    "old"
                                } else if bytes == new {
                                    check!(
                                        new_admissible,
                                        "write-once-violated",
                                        "{phase}: crash at {point}#{occ} inside `{}` (which must be refused) left the new object",
                                        op.short()
                                    );
                                    model.objects.insert(key.to_owned(), std::sync::Arc::new(new.clone()));
                                    "new"
                                } else {
                                    check!(
                                        false,
                                        "crash-left-foreign-object",
                                        "{phase}: after crash at {point}#{occ} inside `{}` the key reads back {} bytes (hash {:016x}) that are neither the old nor the new object",
                                        op.short(),
                                        bytes.len(),
                                        hash_bytes(&bytes)
                                    );
                                    unreachable!()
                                }
                            }
                            Err(e) if e.is_not_found() => {
                                check!(
                                    old.is_none(),
                                    "crash-lost-old-object",
                                    "{phase}: after crash at {point}#{occ} inside `{}` the previous object is gone",
                                    op.short()
                                );
                                "none"
                            }
                            Err(e) => {
                                check!(
                                    false,
                                    "crash-left-partial-object",
                                    "{phase}: after crash at {point}#{occ} inside `{}` the key holds something unreadable: {e}",
                                    op.short()
                                );
                                unreachable!()
                            }
                            }
                        };
                        ctx.probe(&format!("after-crash-key-holds:{verdict}"));
                        ctx.event(mix(hash_str(point), mix(u64::from(*occ), hash_str(verdict))), || {
                            format!("{phase}: child aborted at {point}#{occ} inside op {i} `{}`; key now holds {verdict}", op.short())
                        });
                    } else {
                        check!(
                            outcome.finished && outcome.done.len() == round.ops.len(),
                            "child-died",
                            "{phase}: child ended with {} after {} of {} ops without reaching a planned crash point",
                            outcome.status,
                            outcome.done.len(),
                            round.ops.len()
                        );
                        if matches!(round.plan, Plan::Crash { .. }) {
                            ctx.probe("crash-point-not-reached");
                        }
                        ctx.event(7, || format!("{phase}: child finished"));
                    }
                    // 3. The store as a fresh process sees it.
                    let tree = scan(&scratch);
                    let orphans = tree.temp_files().iter().filter(|f| !model.objects.contains_key(**f)).count();
                    if orphans > 0 {
                        ctx.probe_n("orphan-temp-file-on-disk", orphans as u64);
                    }
                    let touched: Vec<&str> = round.ops.iter().filter(|o| o.is_write()).map(Op::key).collect();
                    model
                        .check_disk(&tree, crashed_before, &touched, &format!("after {phase} ({:?})", round.plan))
                        .map_err(|v| {
                            if limit.is_some() && !crashed_before {
                                Violation::new(&format!("failed-write-half-happened/{}", v.class), v.detail)
                            } else {
                                v
                            }
                        })?;
                    final_sweep(&scratch, &model, &format!("after {phase} ({:?})", round.plan))?;
                }
            }
        }

        plain(&mut model, ctx, "post", &self.post, crashed_before)?;
        final_sweep(&scratch, &model, "end")?;
        ctx.event(model.objects.len() as u64, || format!("end: {} objects", model.objects.len()));
        Ok(nontrivial)
    }

    fn shrink(&self) -> Vec<Self> {
        let mut out = Vec::new();
        // Fewer rounds.
        if self.rounds.len() > 1 {
            for i in 0..self.rounds.len() {
                let mut s = self.clone();
                s.rounds.remove(i);
                out.push(s);
            }
        }
        for ops in simkit::shrink::remove_chunks(&self.post) {
            out.push(Self { post: ops, ..self.clone() });
        }
        for ops in simkit::shrink::remove_chunks(&self.setup) {
            out.push(Self { setup: ops, ..self.clone() });
        }
        for (r, round) in self.rounds.iter().enumerate() {
            for ops in simkit::shrink::remove_chunks(&round.ops) {
                let mut s = self.clone();
                s.rounds[r].ops = ops;
                out.push(s);
            }
            if let Plan::Inject { faults } = &round.plan {
                if faults.len() > 1 {
                    for f in simkit::shrink::remove_chunks(faults) {
                        if !f.is_empty() {
                            let mut s = self.clone();
                            s.rounds[r].plan = Plan::Inject { faults: f };
                            out.push(s);
                        }
                    }
                }
            }
            if let Plan::Crash { point, occurrence } = &round.plan {
                if *occurrence > 1 {
                    let mut s = self.clone();
                    s.rounds[r].plan = Plan::Crash { point: point.clone(), occurrence: occurrence - 1 };
                    out.push(s);
                }
            }
            for ops in simkit::shrink::simplify_each(&round.ops, Op::simpler) {
                let mut s = self.clone();
                s.rounds[r].ops = ops;
                out.push(s);
            }
        }
        for ops in simkit::shrink::simplify_each(&self.setup, Op::simpler) {
            out.push(Self { setup: ops, ..self.clone() });
        }
        for ops in simkit::shrink::simplify_each(&self.post, Op::simpler) {
            out.push(Self { post: ops, ..self.clone() });
        }
        let size = self.size();
        out.retain(|c| c.size() < size);
        out
    }

    fn size(&self) -> usize {
        let ops = |v: &[Op]| v.iter().map(Op::weight).sum::<usize>();
        ops(&self.setup)
            + ops(&self.post)
            + self
                .rounds
                .iter()
                .map(|r| {
                    50 + ops(&r.ops)
                        + match &r.plan {
                            Plan::Inject { faults } => faults.len() * 3,
                            Plan::Crash { occurrence, .. } => *occurrence as usize,
                            _ => 0,
                        }
                })
                .sum::<usize>()
    }
}
