//! Mode `strict`: fault-free sequential histories against the reference map, with keys drawn from
//! every syntactically possible shape and payloads from empty to multi-megabyte.

use serde::{Deserialize, Serialize};
use simkit::{Ctx, Rng, Scenario, Violation, check, mix};

use crate::child::clear_handler;
use crate::common::{
    Expect, Model, Op, Payload, Res, Scratch, any_key, exec, final_sweep, good_key, key_could_escape,
    key_is_wellformed, leaf_is_reserved, runtime, scan, show,
};

#[derive(Clone, Debug, Serialize, Deserialize)]
pub struct StrictScenario {
    pub ops: Vec<Op>,
}

pub fn gen_prefix(rng: &mut Rng, pool: &[String]) -> String {
    match rng.weighted(&[3, 5, 2, 2]) {
        0 => String::new(),
        1 => {
            let k = rng.pick(pool);
            let mut cut = rng.below_usize(k.len() + 1);
            while !k.is_char_boundary(cut) {
                cut -= 1;
            }
            k[..cut].to_owned()
        }
        2 => format!("{}/", rng.pick(pool)),
        _ => any_key(rng),
    }
}

pub fn gen_op(rng: &mut Rng, pool: &[String], fresh_key_pct: u64, big_per_mille: u64) -> Op {
    let key = if rng.chance(fresh_key_pct, 100) { any_key(rng) } else { rng.pick(pool).clone() };
    match rng.weighted(&[35, 12, 22, 12, 12]) {
        0 => Op::Put { key, payload: Payload::generate(rng, big_per_mille) },
        1 => Op::PutOverwrite { key, payload: Payload::generate(rng, big_per_mille) },
        2 => Op::Get { key },
        3 => Op::List { prefix: gen_prefix(rng, pool) },
        _ => Op::Delete { key },
    }
}

impl Scenario for StrictScenario {
    fn generate(rng: &mut Rng, _mode: &str) -> Self {
        let n_pool = rng.range_usize(2, 5);
        let pool: Vec<String> = (0..n_pool)
            .map(|_| if rng.chance(2, 3) { good_key(rng) } else { any_key(rng) })
            .collect();
        let n = rng.range_usize(3, 28);
        let ops = (0..n).map(|_| gen_op(rng, &pool, 20, 4)).collect();
        Self { ops }
    }

    fn run(&self, ctx: &mut Ctx) -> Result<bool, Violation> {
        clear_handler();
        let scratch = Scratch::new();
        let root_len = scratch.root.as_os_str().len();
        let store = scratch.store();
        let rt = runtime();
        let mut model = Model::default();
        let mut prev = scan(&scratch);
        let mut read_back = 0_u32;
        for (i, op) in self.ops.iter().enumerate() {
            let expectation = model.expect(root_len, op);
            let existed = model.objects.contains_key(op.key());
            let (res, data) = rt.block_on(exec(&store, op));
            ctx.event(mix(op.code(), res.code()), || format!("{i}: {} -> {}", op.short(), res.short()));
            model.check_and_apply(root_len, i, op, &res, data.as_deref(), false)?;
            let tree = scan(&scratch);
            if expectation == Expect::Invalid {
                check!(
                    tree == prev,
                    "rejected-key-had-effect",
                    "op {i} `{}`: a rejected key changed the disk",
                    op.short()
                );
            }
            let at = format!("after op {i} `{}`", op.short());
            let written: Vec<&str> = if op.is_write() { vec![op.key()] } else { Vec::new() };
            model.check_disk(&tree, false, &written, &at)?;
            prev = tree;

            // Probes: which mechanisms this history reached.
            let key = op.key();
            if !matches!(op, Op::List { .. }) {
                if !key_is_wellformed(key) {
                    ctx.probe(if key_could_escape(key) { "key:escape-rejected" } else { "key:nonplain-rejected" });
                } else if key.contains('\0') {
                    ctx.probe("key:nul");
                } else if key.split('/').any(|s| s.len() > 255) {
                    ctx.probe("key:overlong-name");
                } else if key.contains('\\') {
                    ctx.probe("key:backslash");
                } else if !key.is_ascii() {
                    ctx.probe("key:unicode");
                }
            }
            match (&expectation, &res) {
                (Expect::Stored, Res::Ok) => {
                    if leaf_is_reserved(key) {
                        ctx.probe("reserved-leaf-stored");
                    }
                    if matches!(op, Op::PutOverwrite { .. }) && existed {
                        ctx.probe("overwrite");
                    }
                    let len = op.payload().map_or(0, Payload::len);
                    if len == 0 {
                        ctx.probe("payload:empty");
                    } else if len >= 1 << 20 {
                        ctx.probe("payload:>=1MiB");
                    } else if len >= 65_535 {
                        ctx.probe("payload:>=64KiB");
                    }
                }
                (Expect::Exists, _) => ctx.probe("write-once-refusal"),
                (Expect::Refused, _) => ctx.probe("put-on-directory"),
                (Expect::IoError, _) => ctx.probe("io-refusal"),
                (Expect::Data(_), _) => {
                    read_back += 1;
                    ctx.probe("readback");
                }
                (Expect::Deleted, _) => ctx.probe("delete"),
                (Expect::Keys(k), _) => {
                    if !k.is_empty() {
                        ctx.probe("list-nonempty");
                    }
                    if let Op::List { prefix } = op {
                        if model.objects.keys().any(|o| o.starts_with(prefix.as_str()) && leaf_is_reserved(o)) {
                            ctx.probe("reserved-leaf-object-hidden-from-list");
                        }
                    }
                }
                _ => {}
            }
        }
        final_sweep(&scratch, &model, "end of history")?;
        ctx.event(model.objects.len() as u64, || {
            format!("end: {} objects {:?}", model.objects.len(), model.objects.keys().map(|k| show(k)).collect::<Vec<_>>())
        });
        Ok(self.ops.len() >= 3 && (read_back > 0 || !model.objects.is_empty()))
    }

    fn shrink(&self) -> Vec<Self> {
        let mut out: Vec<Self> = simkit::shrink::remove_chunks(&self.ops)
            .into_iter()
            .map(|ops| Self { ops })
            .collect();
        out.extend(
            simkit::shrink::simplify_each(&self.ops, Op::simpler)
                .into_iter()
                .map(|ops| Self { ops }),
        );
        out
    }

    fn size(&self) -> usize {
        self.ops.iter().map(Op::weight).sum()
    }
}
