//! Self-test harness for the framework itself: a toy bounded stack with a planted bug that only
//! shows after a specific multi-step history (mode `buggy`) or a specific two-thread interleaving
//! of a non-atomic counter (mode `racy`, meaningful under Miri), plus a correct configuration
//! (mode `clean`). `check selftest` requires: clean stays silent, buggy is found, minimised to the
//! known minimal history and replays exactly; batches are bit-for-bit deterministic.

use serde::{Deserialize, Serialize};
use simkit::{Ctx, Rng, Scenario, Violation, check, entry};

#[derive(Clone, Debug, Serialize, Deserialize, PartialEq)]
enum Op {
    Push(u32),
    Pop,
    Clear,
}

#[derive(Clone, Debug, Serialize, Deserialize)]
struct StackScenario {
    buggy: bool,
    ops: Vec<Op>,
}

/// The "system under test": a stack that (when buggy) forgets its third element after a Clear
/// that followed at least one Pop.
struct ToyStack {
    items: Vec<u32>,
    popped_before_clear: bool,
    poisoned: bool,
    buggy: bool,
}

impl ToyStack {
    fn push(&mut self, v: u32) {
        if self.buggy && self.poisoned && self.items.len() == 2 {
            return; // planted bug
        }
        self.items.push(v);
    }
    fn pop(&mut self) -> Option<u32> {
        self.popped_before_clear = true;
        self.items.pop()
    }
    fn clear(&mut self) {
        if self.popped_before_clear {
            self.poisoned = true;
        }
        self.items.clear();
    }
}

impl Scenario for StackScenario {
    fn generate(rng: &mut Rng, mode: &str) -> Self {
        let n = rng.range_usize(1, 40);
        let ops = (0..n)
            .map(|_| match rng.weighted(&[6, 3, 1]) {
                0 => Op::Push(rng.below(100) as u32),
                1 => Op::Pop,
                _ => Op::Clear,
            })
            .collect();
        Self {
            buggy: mode == "buggy",
            ops,
        }
    }

    fn run(&self, ctx: &mut Ctx) -> Result<bool, Violation> {
        let mut sut = ToyStack {
            items: Vec::new(),
            popped_before_clear: false,
            poisoned: false,
            buggy: self.buggy,
        };
        let mut model: Vec<u32> = Vec::new();
        for (i, op) in self.ops.iter().enumerate() {
            match op {
                Op::Push(v) => {
                    sut.push(*v);
                    model.push(*v);
                    ctx.event(u64::from(*v) + 10, || format!("{i}: push {v}"));
                }
                Op::Pop => {
                    let got = sut.pop();
                    let want = model.pop();
                    ctx.event(1, || format!("{i}: pop -> {got:?}"));
                    check!(got == want, "wrong-pop", "op {i}: pop returned {got:?}, model {want:?}");
                }
                Op::Clear => {
                    sut.clear();
                    model.clear();
                    ctx.event(2, || format!("{i}: clear"));
                }
            }
            check!(
                sut.items.len() == model.len(),
                "wrong-len",
                "op {i}: len {} but model {}",
                sut.items.len(),
                model.len()
            );
        }
        if model.len() >= 3 {
            ctx.probe("depth>=3");
        }
        Ok(self.ops.len() >= 3)
    }

    fn shrink(&self) -> Vec<Self> {
        let mut out: Vec<Self> = simkit::shrink::remove_chunks(&self.ops)
            .into_iter()
            .map(|ops| Self { buggy: self.buggy, ops })
            .collect();
        // Simplify arguments: Push(v) -> Push(0).
        for (i, op) in self.ops.iter().enumerate() {
            if let Op::Push(v) = op {
                if *v != 0 {
                    let mut ops = self.ops.clone();
                    ops[i] = Op::Push(0);
                    out.push(Self { buggy: self.buggy, ops });
                }
            }
        }
        out
    }

    fn size(&self) -> usize {
        self.ops.len() * 2
            + self
                .ops
                .iter()
                .filter(|o| matches!(o, Op::Push(v) if *v != 0))
                .count()
    }
}

/// Two threads increment a counter `n` times each; the racy variant uses a non-atomic
/// read-modify-write through a raw pointer (a data race Miri reports on any schedule).
#[derive(Clone, Debug, Serialize, Deserialize)]
struct CounterScenario {
    racy: bool,
    n: u32,
}

struct SharedCell(std::cell::UnsafeCell<u64>);
// SAFETY: deliberately wrong for the racy self-test variant.
unsafe impl Sync for SharedCell {}

impl Scenario for CounterScenario {
    fn generate(rng: &mut Rng, mode: &str) -> Self {
        Self {
            racy: mode == "racy",
            n: rng.range(1, 5) as u32,
        }
    }

    fn run(&self, ctx: &mut Ctx) -> Result<bool, Violation> {
        use std::sync::Arc;
        use std::sync::atomic::{AtomicU64, Ordering};
        let atomic = Arc::new(AtomicU64::new(0));
        let cell = Arc::new(SharedCell(std::cell::UnsafeCell::new(0)));
        let n = self.n;
        let racy = self.racy;
        let hs: Vec<_> = (0..2)
            .map(|_| {
                let atomic = Arc::clone(&atomic);
                let cell = Arc::clone(&cell);
                std::thread::spawn(move || {
                    for _ in 0..n {
                        atomic.fetch_add(1, Ordering::Relaxed);
                        if racy {
                            // SAFETY: none — this is the planted defect.
                            unsafe { *cell.0.get() += 1 };
                        }
                    }
                })
            })
            .collect();
        for h in hs {
            h.join().expect("worker");
        }
        let total = atomic.load(Ordering::Relaxed);
        ctx.event(total, || format!("total {total}"));
        check!(total == u64::from(2 * n), "lost-increment", "total {total}");
        Ok(true)
    }
}

fn main() {
    simkit::cli_main(
        "h_selftest",
        vec![
            entry::<StackScenario>("SELFTEST", "clean", "toy stack, correct"),
            entry::<StackScenario>("SELFTEST", "buggy", "toy stack, planted multi-step bug"),
            entry::<CounterScenario>("SELFTEST", "threads", "two-thread atomic counter"),
            entry::<CounterScenario>("SELFTEST", "racy", "two-thread non-atomic counter (Miri)"),
        ],
    )
}
