//! C07 — the single-threaded one-shot event (`events_once::LocalEvent` family) under any
//! re-entrant waker callback.
//!
//! The simulator owns the `RawWakerVTable`. A program is a top-level script over the sender and
//! receiver operations plus a *callback plan*: for each of {clone, wake, wake_by_ref, drop} at each
//! invocation index, a list of operations that safe user code could perform from inside that
//! callback. The two endpoints live in harness-owned `Option` slots; an endpoint is taken out of
//! its slot for the duration of an operation on it, so a callback can only ever reach the *other*
//! endpoint — which is exactly what safe code (say `Rc<RefCell<Option<Receiver>>>`) could do.
//!
//! Oracles (evaluated during the run, at every operation exit, inside every callback and at
//! quiescence): C05's outcome model, exactly-once payload hand-off, per-instance waker accounting
//! (every clone released exactly once, never used after release), no lost wake-up, exactly one
//! release of the event storage (hook H2) that happens only when neither endpoint can reach the
//! event any more, and no access after release: embedded storage (owned by the harness) is
//! overwritten with a poison pattern (natively) / de-initialised (under Miri) inside the release
//! notification, pooled storage is re-rented by `PoolTouch` actions and `len()` is compared with
//! the model after every top-level operation.

use std::cell::RefCell;
use std::future::Future;
use std::mem::{ManuallyDrop, MaybeUninit};
use std::panic::{AssertUnwindSafe, catch_unwind};
use std::pin::Pin;
use std::task::{Context, Poll, RawWaker, RawWakerVTable, Waker};

use events_once::{
    BoxedLocalReceiver, BoxedLocalSender, Disconnected, EmbeddedLocalEvent, IntoValueError,
    LocalEvent, LocalEventLake, LocalEventPool, PooledLocalReceiver, PooledLocalSender,
    RawLocalEventLake, RawLocalEventPool, RawLocalPooledReceiver, RawLocalPooledSender,
    RawLocalReceiver, RawLocalSender,
};
use serde::{Deserialize, Serialize};
use simkit::{Ctx, Rng, Scenario, Violation, entry};

/// Keys of known defects (DESIGN §6) whose trigger the ordinary modes must not generate. None is
/// known for C07.
const AVOID_KNOWN: &[&str] = &[];

/// Callbacks nested deeper than this perform no actions.
const MAX_DEPTH: u8 = 3;

/// Number of waker identities (A, B, C).
const IDENTITIES: u8 = 3;

// ------------------------------------------------------------------------------------------------
// Scenario description
// ------------------------------------------------------------------------------------------------

#[derive(Clone, Copy, Debug, Serialize, Deserialize, PartialEq, Eq)]
enum Strategy {
    Boxed,
    Embedded,
    Pooled,
    RawPooled,
    Lake,
    RawLake,
}

const STRATEGIES: [Strategy; 6] = [
    Strategy::Boxed,
    Strategy::Embedded,
    Strategy::Pooled,
    Strategy::RawPooled,
    Strategy::Lake,
    Strategy::RawLake,
];

impl Strategy {
    fn name(self) -> &'static str {
        match self {
            Strategy::Boxed => "boxed",
            Strategy::Embedded => "embedded",
            Strategy::Pooled => "pooled",
            Strategy::RawPooled => "raw-pooled",
            Strategy::Lake => "lake",
            Strategy::RawLake => "raw-lake",
        }
    }

    fn rank(self) -> usize {
        STRATEGIES.iter().position(|s| *s == self).unwrap_or(0)
    }

    fn is_pooled(self) -> bool {
        !matches!(self, Strategy::Boxed | Strategy::Embedded)
    }
}

/// An endpoint operation (top level or from inside a callback).
#[derive(Clone, Copy, Debug, Serialize, Deserialize, PartialEq, Eq)]
enum Op {
    /// `sender.send(value)`.
    Send,
    /// `drop(sender)`.
    DropSender,
    /// `receiver.poll(cx)` with the waker of the given identity; on `Ready` the receiver is done.
    Poll(u8),
    /// `receiver.is_ready()`.
    IsReady,
    /// `receiver.into_value()`.
    IntoValue,
    /// `drop(receiver)`.
    DropReceiver,
    /// Pooled strategies only: `len()`/`is_empty()`/`inspect_awaiters()` on the pool or lake, then
    /// rent one more event from it and drop both of its endpoints (receiver first if the flag is
    /// set). After the main event was released this re-initialises the slot it occupied.
    PoolTouch(bool),
}

const OP_KINDS: usize = 7;

impl Op {
    fn idx(self) -> usize {
        match self {
            Op::Send => 0,
            Op::DropSender => 1,
            Op::Poll(_) => 2,
            Op::IsReady => 3,
            Op::IntoValue => 4,
            Op::DropReceiver => 5,
            Op::PoolTouch(_) => 6,
        }
    }

    fn name(self) -> &'static str {
        [
            "send",
            "drop_sender",
            "poll",
            "is_ready",
            "into_value",
            "drop_receiver",
            "pool_touch",
        ][self.idx()]
    }

    fn weight(self) -> usize {
        match self {
            Op::Poll(i) => usize::from(i) + 1,
            Op::PoolTouch(b) => usize::from(b) + 1,
            _ => 1,
        }
    }
}

#[derive(Clone, Copy, Debug, Serialize, Deserialize, PartialEq, Eq)]
enum Cb {
    Clone,
    Wake,
    WakeByRef,
    Drop,
}

impl Cb {
    fn idx(self) -> usize {
        match self {
            Cb::Clone => 0,
            Cb::Wake => 1,
            Cb::WakeByRef => 2,
            Cb::Drop => 3,
        }
    }

    fn name(self) -> &'static str {
        ["clone", "wake", "wake_by_ref", "drop"][self.idx()]
    }
}

/// What the `index`-th invocation (counted per kind, over the whole run) of a callback does.
#[derive(Clone, Debug, Serialize, Deserialize)]
struct PlanEntry {
    kind: Cb,
    index: u32,
    actions: Vec<Op>,
}

#[derive(Clone, Debug, Serialize, Deserialize)]
struct Program {
    strategy: Strategy,
    /// Pooled strategies: events rented (and held by the harness) before the event under test, so
    /// that it does not always live in the first slot.
    neighbours: u8,
    value: u32,
    script: Vec<Op>,
    plan: Vec<PlanEntry>,
}

// ------------------------------------------------------------------------------------------------
// Payload, endpoints, containers
// ------------------------------------------------------------------------------------------------

/// The value sent through the event. Its destructor reports to the world; the heap token makes a
/// bitwise duplicate a double free and a loss a leak for Miri as well.
struct Payload {
    id: u32,
    token: ManuallyDrop<Box<u32>>,
}

impl Payload {
    fn new(id: u32) -> Self {
        Self {
            id,
            token: ManuallyDrop::new(Box::new(id)),
        }
    }
}

impl Drop for Payload {
    fn drop(&mut self) {
        let first = with(|w| {
            if !w.active {
                return true;
            }
            w.payload_drops += 1;
            let n = w.payload_drops;
            w.ctx.event(code(20, u64::from(n), 0, 0), || {
                format!("payload destroyed (#{n})")
            });
            n == 1
        });
        if first {
            // SAFETY: the token is dropped at most once: only on the first destruction of the
            // (single) payload of a run.
            unsafe { ManuallyDrop::drop(&mut self.token) };
        } else {
            bail(
                "payload-double-drop",
                "the payload was destroyed more than once".into(),
            );
        }
    }
}

enum Tx {
    Boxed(BoxedLocalSender<Payload>),
    Raw(RawLocalSender<Payload>),
    Pooled(PooledLocalSender<Payload>),
    RawPooled(RawLocalPooledSender<Payload>),
}

impl Tx {
    fn send(self, p: Payload) {
        match self {
            Tx::Boxed(s) => s.send(p),
            Tx::Raw(s) => s.send(p),
            Tx::Pooled(s) => s.send(p),
            Tx::RawPooled(s) => s.send(p),
        }
    }
}

enum Rx {
    Boxed(BoxedLocalReceiver<Payload>),
    Raw(RawLocalReceiver<Payload>),
    Pooled(PooledLocalReceiver<Payload>),
    RawPooled(RawLocalPooledReceiver<Payload>),
}

fn map_iv<R>(
    r: Result<Payload, IntoValueError<R>>,
    f: impl FnOnce(R) -> Rx,
) -> Result<Payload, IntoValueError<Rx>> {
    match r {
        Ok(p) => Ok(p),
        Err(IntoValueError::Pending(r)) => Err(IntoValueError::Pending(f(r))),
        Err(IntoValueError::Disconnected) => Err(IntoValueError::Disconnected),
    }
}

impl Rx {
    fn poll(&mut self, cx: &mut Context<'_>) -> Poll<Result<Payload, Disconnected>> {
        match self {
            Rx::Boxed(r) => Pin::new(r).poll(cx),
            Rx::Raw(r) => Pin::new(r).poll(cx),
            Rx::Pooled(r) => Pin::new(r).poll(cx),
            Rx::RawPooled(r) => Pin::new(r).poll(cx),
        }
    }

    fn is_ready(&self) -> bool {
        match self {
            Rx::Boxed(r) => r.is_ready(),
            Rx::Raw(r) => r.is_ready(),
            Rx::Pooled(r) => r.is_ready(),
            Rx::RawPooled(r) => r.is_ready(),
        }
    }

    fn into_value(self) -> Result<Payload, IntoValueError<Rx>> {
        match self {
            Rx::Boxed(r) => map_iv(r.into_value(), Rx::Boxed),
            Rx::Raw(r) => map_iv(r.into_value(), Rx::Raw),
            Rx::Pooled(r) => map_iv(r.into_value(), Rx::Pooled),
            Rx::RawPooled(r) => map_iv(r.into_value(), Rx::RawPooled),
        }
    }
}

/// Where the event under test lives. Raw containers and the embedded storage are owned through
/// raw pointers so that the harness never holds a reference across library calls.
#[derive(Clone)]
enum Container {
    None,
    Boxed,
    Embedded(*mut EmbeddedLocalEvent<Payload>),
    Pool(LocalEventPool<Payload>),
    RawPool(*mut RawLocalEventPool<Payload>),
    Lake(LocalEventLake),
    RawLake(*mut RawLocalEventLake),
}

impl Container {
    fn rent(&self) -> Option<(Tx, Rx)> {
        match self {
            Container::None | Container::Boxed | Container::Embedded(_) => None,
            Container::Pool(p) => {
                let (s, r) = p.rent();
                Some((Tx::Pooled(s), Rx::Pooled(r)))
            }
            Container::Lake(l) => {
                let (s, r) = l.rent::<Payload>();
                Some((Tx::Pooled(s), Rx::Pooled(r)))
            }
            Container::RawPool(p) => {
                // SAFETY: the pool is heap-allocated, never moved, and freed only at quiescence,
                // after every endpoint rented from it is gone (or it is leaked on abort).
                let (s, r) = unsafe { Pin::new_unchecked(&**p).rent() };
                Some((Tx::RawPooled(s), Rx::RawPooled(r)))
            }
            Container::RawLake(l) => {
                // SAFETY: as for the raw pool.
                let (s, r) = unsafe { (**l).rent::<Payload>() };
                Some((Tx::RawPooled(s), Rx::RawPooled(r)))
            }
        }
    }

    fn len(&self) -> Option<(usize, bool)> {
        match self {
            Container::None | Container::Boxed | Container::Embedded(_) => None,
            Container::Pool(p) => Some((p.len(), p.is_empty())),
            Container::Lake(l) => Some((l.len(), l.is_empty())),
            // SAFETY: see `rent`.
            Container::RawPool(p) => Some(unsafe { ((**p).len(), (**p).is_empty()) }),
            // SAFETY: see `rent`.
            Container::RawLake(l) => Some(unsafe { ((**l).len(), (**l).is_empty()) }),
        }
    }

    /// Number of awaited events the debug-only diagnostic registry reports.
    #[cfg(debug_assertions)]
    fn awaited(&self) -> Option<usize> {
        let mut n = 0_usize;
        match self {
            Container::None | Container::Boxed | Container::Embedded(_) => return None,
            Container::Pool(p) => p.inspect_awaiters(|_| n += 1),
            Container::Lake(l) => l.inspect_awaiters(|_| n += 1),
            // SAFETY: see `rent`.
            Container::RawPool(p) => unsafe { (**p).inspect_awaiters(|_| n += 1) },
            // SAFETY: see `rent`.
            Container::RawLake(l) => unsafe { (**l).inspect_awaiters(|_| n += 1) },
        }
        Some(n)
    }

    #[cfg(not(debug_assertions))]
    fn awaited(&self) -> Option<usize> {
        None
    }

    /// Frees the harness-owned storage (quiescence only).
    fn free(self) {
        match self {
            Container::None | Container::Boxed => {}
            // SAFETY: produced by `Box::into_raw` in `create`, freed exactly once, after both
            // endpoints are gone.
            Container::Embedded(p) => {
                drop(unsafe { Box::from_raw(p.cast::<MaybeUninit<EmbeddedLocalEvent<Payload>>>()) })
            }
            Container::Pool(p) => drop(p),
            Container::Lake(l) => drop(l),
            // SAFETY: as above.
            Container::RawPool(p) => drop(unsafe { Box::from_raw(p) }),
            // SAFETY: as above.
            Container::RawLake(l) => drop(unsafe { Box::from_raw(l) }),
        }
    }
}

fn create(strategy: Strategy) -> (Container, Tx, Rx) {
    match strategy {
        Strategy::Boxed => {
            let (s, r) = LocalEvent::<Payload>::boxed();
            (Container::Boxed, Tx::Boxed(s), Rx::Boxed(r))
        }
        Strategy::Embedded => {
            let raw = Box::into_raw(Box::new(EmbeddedLocalEvent::<Payload>::new()));
            // SAFETY: the storage is fresh, heap-allocated (stable address) and is neither moved,
            // reused nor freed before both endpoints are gone; the harness does not touch it
            // except inside the release notification, after which the library must not either.
            let (s, r) = unsafe { LocalEvent::placed(Pin::new_unchecked(&mut *raw)) };
            (Container::Embedded(raw), Tx::Raw(s), Rx::Raw(r))
        }
        Strategy::Pooled => {
            let c = Container::Pool(LocalEventPool::new());
            let (s, r) = c.rent().expect("pooled");
            (c, s, r)
        }
        Strategy::RawPooled => {
            let c = Container::RawPool(Box::into_raw(Box::new(RawLocalEventPool::new())));
            let (s, r) = c.rent().expect("pooled");
            (c, s, r)
        }
        Strategy::Lake => {
            let c = Container::Lake(LocalEventLake::new());
            let (s, r) = c.rent().expect("pooled");
            (c, s, r)
        }
        Strategy::RawLake => {
            let c = Container::RawLake(Box::into_raw(Box::new(RawLocalEventLake::new())));
            let (s, r) = c.rent().expect("pooled");
            (c, s, r)
        }
    }
}

// ------------------------------------------------------------------------------------------------
// The world: slots, model, accounting
// ------------------------------------------------------------------------------------------------

#[derive(Clone, Copy, PartialEq, Eq, Debug)]
enum RxBusy {
    Idle,
    Poll,
    IsReady,
    IntoValue,
    Drop,
}

struct Inst {
    identity: u8,
    alive: bool,
    woken: bool,
    original: bool,
    /// Sequence number of the receiver poll during which this clone was made (0 = none).
    born_poll: u32,
}

struct World {
    active: bool,
    ctx: Ctx,
    // configuration
    strategy: Strategy,
    value: u32,
    plan: Vec<PlanEntry>,
    container: Container,
    embedded_addr: usize,
    // the two slots
    tx: Option<Tx>,
    rx: Option<Rx>,
    neighbours: Vec<(Tx, Rx)>,
    // model
    sent: bool,
    sender_dropped: bool,
    rx_done: bool,
    rx_busy: RxBusy,
    polled_ever: bool,
    /// Waker instances the event holds on behalf of the receiver's most recent Pending poll.
    awaiting: Vec<usize>,
    poll_seq: u32,
    cur_poll: u32,
    // waker accounting
    inst: Vec<Inst>,
    cb_count: [u32; 4],
    depth: u8,
    /// Labels (see `LABELS`) of the operations in progress, innermost last.
    op_stack: Vec<u8>,
    // payload accounting
    payload_drops: u32,
    payload_received: u32,
    // release accounting
    releases: u32,
    release_addr: usize,
    extra_window: bool,
    extra_releases: u32,
    // non-triviality
    callbacks: u32,
    performed: u32,
    violation: Option<Violation>,
}

impl World {
    fn idle() -> Self {
        Self {
            active: false,
            ctx: Ctx::new(false),
            strategy: Strategy::Boxed,
            value: 0,
            plan: Vec::new(),
            container: Container::None,
            embedded_addr: 0,
            tx: None,
            rx: None,
            neighbours: Vec::new(),
            sent: false,
            sender_dropped: false,
            rx_done: false,
            rx_busy: RxBusy::Idle,
            polled_ever: false,
            awaiting: Vec::new(),
            poll_seq: 0,
            cur_poll: 0,
            inst: Vec::new(),
            cb_count: [0; 4],
            depth: 0,
            op_stack: Vec::new(),
            payload_drops: 0,
            payload_received: 0,
            releases: 0,
            release_addr: 0,
            extra_window: false,
            extra_releases: 0,
            callbacks: 0,
            performed: 0,
            violation: None,
        }
    }

    fn sender_acted(&self) -> bool {
        self.sent || self.sender_dropped
    }

    /// Leaks everything that still refers to library state (after an aborted run the storage may
    /// be poisoned or freed, so no destructor may run).
    fn scrub(&mut self) {
        std::mem::forget(self.tx.take());
        std::mem::forget(self.rx.take());
        std::mem::forget(std::mem::take(&mut self.neighbours));
        std::mem::forget(std::mem::replace(&mut self.container, Container::None));
        self.active = false;
    }
}

thread_local! {
    static WORLD: RefCell<World> = RefCell::new(World::idle());
}

/// Short exclusive access to the world. Never call into the library (or drop a payload, waker or
/// endpoint) inside the closure: callbacks re-enter here.
fn with<R>(f: impl FnOnce(&mut World) -> R) -> R {
    WORLD.with(|w| f(&mut w.borrow_mut()))
}

/// Panic payload used to abandon a run after a violation was recorded.
struct AbortRun;

/// Records a violation (first one wins) and abandons the run by unwinding. During an unwind that
/// is already in progress it only records.
fn bail(class: &str, detail: String) {
    with(|w| {
        if w.violation.is_none() {
            w.violation = Some(Violation::new(class, detail));
        }
    });
    if !std::thread::panicking() {
        std::panic::panic_any(AbortRun);
    }
}

fn try_with<R: Default>(f: impl FnOnce(&mut World) -> Result<R, (&'static str, String)>) -> R {
    match with(f) {
        Ok(r) => r,
        Err((class, detail)) => {
            bail(class, detail);
            R::default()
        }
    }
}

fn code(tag: u64, a: u64, b: u64, c: u64) -> u64 {
    (tag << 48) ^ (a << 32) ^ (b << 16) ^ c
}

/// A probe name assembled on the stack (no table, no allocation: a large static table of strings
/// is pathologically slow to index under Miri's borrow tracking).
struct Name {
    buf: [u8; 64],
    len: usize,
}

impl Name {
    fn join(parts: &[&str]) -> Self {
        let mut n = Name {
            buf: [0; 64],
            len: 0,
        };
        for (i, part) in parts.iter().enumerate() {
            if i > 0 {
                n.push(":");
            }
            n.push(part);
        }
        n
    }

    fn push(&mut self, s: &str) {
        let bytes = s.as_bytes();
        let end = (self.len + bytes.len()).min(self.buf.len());
        let take = end - self.len;
        self.buf[self.len..end].copy_from_slice(&bytes[..take]);
        self.len = end;
    }

    fn as_str(&self) -> &str {
        std::str::from_utf8(&self.buf[..self.len]).unwrap_or("probe-name-error")
    }
}

/// Probe names `act:<callback>:<op>:d<depth>` / `skip:<callback>:<op>:d<depth>`.
fn action_probe(performed: bool, kind: Cb, op: Op, depth: u8) -> Name {
    let d = ["d0", "d1", "d2", "d3"][usize::from(depth.min(MAX_DEPTH))];
    Name::join(&[
        if performed { "act" } else { "skip" },
        kind.name(),
        op.name(),
        d,
    ])
}

/// Labels of enclosing operations for the `in:<enclosing op>:<callback>:<action>` probes. `repoll`
/// is a poll that starts while a waker of an earlier poll is still registered.
const LABELS: [&str; 8] = [
    "send",
    "drop_sender",
    "poll",
    "repoll",
    "is_ready",
    "into_value",
    "drop_receiver",
    "pool_touch",
];
const L_SEND: u8 = 0;
const L_DROP_SENDER: u8 = 1;
const L_POLL: u8 = 2;
const L_REPOLL: u8 = 3;
const L_IS_READY: u8 = 4;
const L_INTO_VALUE: u8 = 5;
const L_DROP_RECEIVER: u8 = 6;
const L_POOL_TOUCH: u8 = 7;

/// Probe names `in:<enclosing op>:<callback>:<action>` for actions a callback performed.
fn context_probe(enclosing: u8, kind: Cb, op: Op) -> Name {
    Name::join(&[
        "in",
        LABELS[usize::from(enclosing) % LABELS.len()],
        kind.name(),
        op.name(),
    ])
}

fn push_op(label: u8) {
    with(|w| w.op_stack.push(label));
}

fn pop_op() {
    with(|w| {
        w.op_stack.pop();
    });
}

// ------------------------------------------------------------------------------------------------
// The simulator-owned waker vtable
// ------------------------------------------------------------------------------------------------

static VTABLE: RawWakerVTable = RawWakerVTable::new(vt_clone, vt_wake, vt_wake_by_ref, vt_drop);

fn raw_waker(inst: usize) -> RawWaker {
    RawWaker::new(std::ptr::without_provenance::<()>(inst + 1), &VTABLE)
}

unsafe fn vt_clone(p: *const ()) -> RawWaker {
    raw_waker(callback(Cb::Clone, p.addr().wrapping_sub(1)))
}

unsafe fn vt_wake(p: *const ()) {
    callback(Cb::Wake, p.addr().wrapping_sub(1));
}

unsafe fn vt_wake_by_ref(p: *const ()) {
    callback(Cb::WakeByRef, p.addr().wrapping_sub(1));
}

unsafe fn vt_drop(p: *const ()) {
    callback(Cb::Drop, p.addr().wrapping_sub(1));
}

/// One invocation of a waker callback on instance `i`: accounting first, then the planned actions.
/// Returns the new instance for `clone`.
fn callback(kind: Cb, i: usize) -> usize {
    if std::thread::panicking() {
        // A run is being abandoned; library frames are unwinding and dropping what they hold.
        return i;
    }
    let (new_inst, entry) = try_with(|w| {
        if !w.active {
            return Ok((i, None));
        }
        let depth = w.depth;
        let Some(inst) = w.inst.get_mut(i) else {
            return Err((
                "waker-unknown-instance",
                format!("{} on an instance that was never created", kind.name()),
            ));
        };
        if !inst.alive {
            let class = if kind == Cb::Drop {
                "waker-double-drop"
            } else {
                "waker-use-after-drop"
            };
            return Err((
                class,
                format!(
                    "{} called on waker instance {i} after it was released",
                    kind.name()
                ),
            ));
        }
        if inst.original && matches!(kind, Cb::Wake | Cb::Drop) {
            return Err((
                "original-waker-consumed",
                format!(
                    "{} consumed the caller's own waker (instance {i})",
                    kind.name()
                ),
            ));
        }
        let identity = inst.identity;
        let mut new_inst = i;
        match kind {
            Cb::Clone => {}
            Cb::Wake => {
                inst.alive = false;
                inst.woken = true;
            }
            Cb::WakeByRef => inst.woken = true,
            Cb::Drop => inst.alive = false,
        }
        if kind == Cb::Clone {
            new_inst = w.inst.len();
            let born_poll = w.cur_poll;
            w.inst.push(Inst {
                identity,
                alive: true,
                woken: false,
                original: false,
                born_poll,
            });
        }
        if matches!(kind, Cb::Wake | Cb::WakeByRef) && !w.sender_acted() {
            w.ctx.probe("wake-before-completion");
        }
        let index = w.cb_count[kind.idx()];
        w.cb_count[kind.idx()] += 1;
        w.callbacks += 1;
        w.ctx.event(
            code(
                10,
                kind.idx() as u64,
                u64::from(index),
                (u64::from(depth) << 8) | u64::from(identity),
            ),
            || {
                format!(
                    "{}callback {}#{index} on waker {}{} (instance {i})",
                    "  ".repeat(usize::from(depth) + 1),
                    kind.name(),
                    (b'A' + identity) as char,
                    if new_inst != i {
                        format!(" -> instance {new_inst}")
                    } else {
                        String::new()
                    }
                )
            },
        );
        w.ctx
            .probe(["cb:clone", "cb:wake", "cb:wake_by_ref", "cb:drop"][kind.idx()]);
        let entry = if depth < MAX_DEPTH {
            w.plan
                .iter()
                .position(|e| e.kind == kind && e.index == index)
        } else {
            None
        };
        Ok((new_inst, entry))
    });
    if let Some(pi) = entry {
        with(|w| w.depth += 1);
        let mut k = 0;
        while let Some(op) = with(|w| w.plan[pi].actions.get(k).copied()) {
            exec(op, Some(kind));
            k += 1;
        }
        with(|w| w.depth -= 1);
    }
    new_inst
}

/// Hook H2: called by the library at the end of every `release_event()`.
fn on_release(addr: usize) {
    if std::thread::panicking() {
        return;
    }
    let poison = try_with(|w| {
        if !w.active {
            return Ok(None);
        }
        if w.extra_window {
            w.extra_releases += 1;
            return Ok(None);
        }
        w.releases += 1;
        let n = w.releases;
        let by_receiver = w.rx_busy != RxBusy::Idle && !w.rx_done;
        let depth = w.depth;
        w.ctx.event(
            code(30, u64::from(n), u64::from(by_receiver), u64::from(depth)),
            || {
                format!(
                    "{}storage released (#{n}) by the {}",
                    "  ".repeat(usize::from(depth)),
                    if by_receiver { "receiver" } else { "sender" }
                )
            },
        );
        if n > 1 {
            return Err((
                "double-release",
                format!("release_event ran {n} times for one event"),
            ));
        }
        w.release_addr = addr;
        if !w.sender_acted() {
            return Err((
                "release-with-live-sender",
                "storage released although the sender has neither sent nor been dropped".into(),
            ));
        }
        if !(w.rx_done || matches!(w.rx_busy, RxBusy::Poll | RxBusy::IntoValue | RxBusy::Drop)) {
            return Err((
                "release-with-live-receiver",
                "storage released although the receiver is alive and not completing".into(),
            ));
        }
        w.ctx.probe(if by_receiver {
            "released-by:receiver"
        } else {
            "released-by:sender"
        });
        if depth > 0 {
            w.ctx.probe("released-inside-callback");
        }
        if w.embedded_addr != 0 {
            // The event lives at the start of the container (checked: same address).
            if addr != w.embedded_addr {
                return Err((
                    "release-address-mismatch",
                    "released address is not the embedded storage".into(),
                ));
            }
            return Ok(Some(w.embedded_addr));
        }
        Ok(None)
    });
    if poison.is_some() {
        poison_embedded();
    }
}

/// Overwrites the harness-owned embedded storage at the instant of release, so that any later
/// access by the library reads an impossible state (native: `unreachable!` / `RefCell` panic) or
/// uninitialised memory (Miri: undefined behaviour).
fn poison_embedded() {
    let raw = with(|w| match &w.container {
        Container::Embedded(p) => Some(*p),
        _ => None,
    });
    let Some(raw) = raw else { return };
    #[cfg(miri)]
    {
        // SAFETY: `raw` is the root pointer of the allocation (from `Box::into_raw`); the harness
        // owns the storage and the library has just declared that it will not access it again.
        unsafe {
            raw.cast::<MaybeUninit<EmbeddedLocalEvent<Payload>>>()
                .write(MaybeUninit::uninit())
        };
    }
    #[cfg(not(miri))]
    {
        // SAFETY: as above; the container has no destructor and is freed as `MaybeUninit`.
        unsafe {
            std::ptr::write_bytes(
                raw.cast::<u8>(),
                0xA5,
                size_of::<EmbeddedLocalEvent<Payload>>(),
            )
        };
    }
}

// ------------------------------------------------------------------------------------------------
// Operations
// ------------------------------------------------------------------------------------------------

fn indent(depth: u8) -> String {
    "  ".repeat(usize::from(depth))
}

/// Notes that an operation is skipped (its endpoint is borrowed by a running operation, already
/// consumed, or the strategy has no pool) or performed; returns the current depth.
fn note(op: Op, origin: Option<Cb>, performed: bool) -> u8 {
    with(|w| {
        let depth = w.depth;
        if let Some(kind) = origin {
            w.ctx
                .probe(action_probe(performed, kind, op, depth).as_str());
            if performed {
                if let Some(enclosing) = w.op_stack.last() {
                    w.ctx.probe(context_probe(*enclosing, kind, op).as_str());
                }
                if !matches!(op, Op::PoolTouch(_)) {
                    w.performed += 1;
                }
            }
        }
        if !performed {
            w.ctx
                .event(code(1, op.idx() as u64, u64::from(depth), 0), || {
                    format!(
                        "{}{} skipped (endpoint not reachable)",
                        indent(depth),
                        op.name()
                    )
                });
        }
        depth
    })
}

/// State captured when a sender operation starts, for the lost-wake-up check at its end.
#[derive(Default)]
struct SenderEntry {
    receiver_waiting: bool,
    awaiting: Vec<usize>,
}

fn sender_enter(w: &mut World) -> SenderEntry {
    let receiver_waiting = w.rx.is_some() && !w.rx_done && !w.awaiting.is_empty();
    SenderEntry {
        receiver_waiting,
        awaiting: if receiver_waiting {
            w.awaiting.clone()
        } else {
            Vec::new()
        },
    }
}

fn sender_exit(w: &mut World, e: &SenderEntry, what: &str) -> Result<(), (&'static str, String)> {
    if e.receiver_waiting && !e.awaiting.iter().any(|i| w.inst[*i].woken) {
        return Err((
            "lost-wakeup",
            format!(
                "{what} completed while the receiver was parked on waker instance(s) {:?}, none of which was woken",
                e.awaiting
            ),
        ));
    }
    if e.receiver_waiting {
        w.ctx.probe("woke-parked-receiver");
    }
    Ok(())
}

fn exec(op: Op, origin: Option<Cb>) {
    match op {
        Op::Send | Op::DropSender => {
            let Some(tx) = with(|w| w.tx.take()) else {
                note(op, origin, false);
                return;
            };
            let depth = note(op, origin, true);
            let send = op == Op::Send;
            push_op(if send { L_SEND } else { L_DROP_SENDER });
            let (entry, value) = with(|w| {
                let e = sender_enter(w);
                if send {
                    w.sent = true;
                } else {
                    w.sender_dropped = true;
                }
                let parked = e.receiver_waiting;
                w.ctx.event(
                    code(2, u64::from(send), u64::from(depth), u64::from(parked)),
                    || {
                        format!(
                            "{}{} begins{}",
                            indent(depth),
                            op.name(),
                            if parked { " (receiver parked)" } else { "" }
                        )
                    },
                );
                (e, w.value)
            });
            if send {
                tx.send(Payload::new(value));
            } else {
                drop(tx);
            }
            pop_op();
            try_with(|w| {
                w.ctx
                    .event(code(3, u64::from(send), u64::from(depth), 0), || {
                        format!("{}{} returned", indent(depth), op.name())
                    });
                sender_exit(w, &entry, op.name())
            });
        }
        Op::Poll(identity) => {
            let identity = identity % IDENTITIES;
            let Some(rx) = with(|w| w.rx.take()) else {
                note(op, origin, false);
                return;
            };
            let depth = note(op, origin, true);
            let mut rx = ManuallyDrop::new(rx);
            let (seq, before, prev_poll) = with(|w| {
                w.poll_seq += 1;
                let seq = w.poll_seq;
                let prev = std::mem::replace(&mut w.cur_poll, seq);
                w.rx_busy = RxBusy::Poll;
                if w.polled_ever && !w.awaiting.is_empty() {
                    w.ctx.probe("repoll-while-registered");
                    w.op_stack.push(L_REPOLL);
                } else {
                    w.op_stack.push(L_POLL);
                }
                w.polled_ever = true;
                let before = w.sender_acted();
                w.ctx.event(
                    code(4, u64::from(identity), u64::from(depth), u64::from(before)),
                    || {
                        format!(
                            "{}poll with waker {} begins",
                            indent(depth),
                            (b'A' + identity) as char
                        )
                    },
                );
                (seq, before, prev)
            });
            // The caller's own waker: instance `identity`, never released through the vtable.
            // SAFETY: the vtable functions uphold the `RawWaker` contract (no memory is owned).
            let waker =
                ManuallyDrop::new(unsafe { Waker::from_raw(raw_waker(usize::from(identity))) });
            let result = rx.poll(&mut Context::from_waker(&waker));
            with(|w| {
                w.cur_poll = prev_poll;
                w.rx_busy = RxBusy::Idle;
                w.op_stack.pop();
            });
            match result {
                Poll::Ready(Ok(p)) => {
                    finish_receiver(Some(p), depth, "poll", before);
                    // After `Ready` the receiver object is inert; dropping it must do nothing.
                    drop(ManuallyDrop::into_inner(rx));
                }
                Poll::Ready(Err(Disconnected)) => {
                    finish_receiver(None, depth, "poll", before);
                    drop(ManuallyDrop::into_inner(rx));
                }
                Poll::Pending => {
                    try_with(|w| {
                        let during = w.sender_acted() && !before;
                        w.ctx
                            .event(code(5, 2, u64::from(depth), u64::from(during)), || {
                                format!("{}poll -> Pending", indent(depth))
                            });
                        if before {
                            return Err(("pending-after-completion", "poll returned Pending although the sender had already sent or been dropped before the poll began".into()));
                        }
                        if w.releases > 0 {
                            return Err((
                                "released-while-pending",
                                "storage was released during a poll that returned Pending".into(),
                            ));
                        }
                        let mine: Vec<usize> = (0..w.inst.len())
                            .filter(|i| {
                                w.inst[*i].born_poll == seq && w.inst[*i].identity == identity
                            })
                            .collect();
                        if during {
                            if !mine.iter().any(|i| w.inst[*i].woken) {
                                return Err((
                                    "lost-wakeup",
                                    format!(
                                        "the sender completed during a poll that returned Pending, but no waker cloned by this poll was woken (clones: {mine:?})"
                                    ),
                                ));
                            }
                            w.ctx.probe("pending-but-already-woken");
                        } else if !mine.iter().any(|i| w.inst[*i].alive) {
                            return Err((
                                "pending-without-registration",
                                format!(
                                    "poll returned Pending without keeping a clone of the caller's waker (clones: {mine:?})"
                                ),
                            ));
                        }
                        w.awaiting = mine.into_iter().filter(|i| w.inst[*i].alive).collect();
                        Ok(())
                    });
                    with(|w| w.rx = Some(ManuallyDrop::into_inner(rx)));
                }
            }
        }
        Op::IsReady => {
            let Some(rx) = with(|w| w.rx.take()) else {
                note(op, origin, false);
                return;
            };
            let depth = note(op, origin, true);
            let rx = ManuallyDrop::new(rx);
            with(|w| w.rx_busy = RxBusy::IsReady);
            push_op(L_IS_READY);
            let ready = rx.is_ready();
            pop_op();
            try_with(|w| {
                w.rx_busy = RxBusy::Idle;
                w.ctx
                    .event(code(6, u64::from(ready), u64::from(depth), 0), || {
                        format!("{}is_ready -> {ready}", indent(depth))
                    });
                if ready != w.sender_acted() {
                    return Err((
                        "is_ready-mismatch",
                        format!(
                            "is_ready returned {ready}; sent={} sender_dropped={}",
                            w.sent, w.sender_dropped
                        ),
                    ));
                }
                Ok(())
            });
            with(|w| w.rx = Some(ManuallyDrop::into_inner(rx)));
        }
        Op::IntoValue => {
            let Some(rx) = with(|w| w.rx.take()) else {
                note(op, origin, false);
                return;
            };
            let depth = note(op, origin, true);
            let before = with(|w| {
                w.rx_busy = RxBusy::IntoValue;
                w.ctx.event(code(7, 0, u64::from(depth), 0), || {
                    format!("{}into_value begins", indent(depth))
                });
                w.sender_acted()
            });
            push_op(L_INTO_VALUE);
            let result = rx.into_value();
            pop_op();
            with(|w| w.rx_busy = RxBusy::Idle);
            match result {
                Ok(p) => finish_receiver(Some(p), depth, "into_value", before),
                Err(IntoValueError::Disconnected) => {
                    finish_receiver(None, depth, "into_value", before)
                }
                Err(IntoValueError::Pending(rx)) => {
                    try_with(|w| {
                        w.ctx.event(code(5, 3, u64::from(depth), 0), || {
                            format!("{}into_value -> Pending (receiver returned)", indent(depth))
                        });
                        if before {
                            return Err(("into_value-mismatch", "into_value returned Pending although the sender had already sent or been dropped".into()));
                        }
                        Ok(())
                    });
                    with(|w| w.rx = Some(rx));
                }
            }
        }
        Op::DropReceiver => {
            let Some(rx) = with(|w| w.rx.take()) else {
                note(op, origin, false);
                return;
            };
            let depth = note(op, origin, true);
            with(|w| {
                w.rx_busy = RxBusy::Drop;
                // Nobody is left to be woken.
                w.awaiting.clear();
                let acted = w.sender_acted();
                w.ctx
                    .event(code(8, u64::from(acted), u64::from(depth), 0), || {
                        format!("{}drop receiver begins", indent(depth))
                    });
                if acted {
                    w.ctx.probe("receiver-dropped-after-completion");
                } else {
                    w.ctx.probe("receiver-dropped-first");
                }
            });
            push_op(L_DROP_RECEIVER);
            drop(rx);
            pop_op();
            with(|w| {
                w.rx_busy = RxBusy::Idle;
                w.rx_done = true;
                w.ctx.event(code(9, 0, u64::from(depth), 0), || {
                    format!("{}drop receiver returned", indent(depth))
                });
            });
        }
        Op::PoolTouch(receiver_first) => {
            let container = with(|w| w.container.clone());
            if container.len().is_none() {
                note(op, origin, false);
                return;
            }
            let depth = note(op, origin, true);
            push_op(L_POOL_TOUCH);
            check_pool(&container, "pool_touch");
            with(|w| w.extra_window = true);
            let before = with(|w| w.extra_releases);
            let (s, r) = container.rent().expect("pooled strategy");
            if receiver_first {
                drop(r);
                drop(s);
            } else {
                drop(s);
                drop(r);
            }
            try_with(|w| {
                w.extra_window = false;
                w.ctx.event(
                    code(11, u64::from(receiver_first), u64::from(depth), 0),
                    || {
                        format!(
                            "{}pool_touch: rented and returned one more event",
                            indent(depth)
                        )
                    },
                );
                if w.releases > 0 {
                    w.ctx.probe("slot-rerented-after-release");
                }
                let n = w.extra_releases - before;
                if n != 1 {
                    return Err((
                        "extra-release-count",
                        format!("an extra event was released {n} times"),
                    ));
                }
                Ok(())
            });
            check_pool(&container, "pool_touch (after)");
            pop_op();
        }
    }
}

/// The receiver obtained a terminal result (`Some` = a payload, `None` = disconnected).
fn finish_receiver(payload: Option<Payload>, depth: u8, what: &str, before: bool) {
    let got = payload.as_ref().map(|p| p.id);
    try_with(|w| {
        w.rx_done = true;
        w.awaiting.clear();
        w.ctx.event(
            code(
                5,
                u64::from(got.is_some()),
                u64::from(depth),
                u64::from(before),
            ),
            || match got {
                Some(v) => format!("{}{what} -> Ok({v})", indent(depth)),
                None => format!("{}{what} -> Disconnected", indent(depth)),
            },
        );
        match got {
            Some(v) => {
                if !w.sent {
                    return Err((
                        "phantom-value",
                        format!("{what} produced a value although nothing was sent"),
                    ));
                }
                if v != w.value {
                    return Err((
                        "wrong-value",
                        format!("{what} produced {v}, sent {}", w.value),
                    ));
                }
                w.payload_received += 1;
                if w.payload_received > 1 {
                    return Err((
                        "payload-double-receive",
                        "the payload was handed to the receiver twice".into(),
                    ));
                }
                if w.payload_drops > 0 {
                    return Err((
                        "payload-double-drop",
                        "the payload was handed to the receiver after it had been destroyed".into(),
                    ));
                }
                w.ctx.probe(if before {
                    "outcome:value"
                } else {
                    "outcome:value-sent-during-poll"
                });
            }
            None => {
                if w.sent {
                    return Err((
                        "wrong-disconnected",
                        format!("{what} reported Disconnected although a value was sent"),
                    ));
                }
                if !w.sender_dropped {
                    return Err((
                        "wrong-disconnected",
                        format!("{what} reported Disconnected although the sender is alive"),
                    ));
                }
                w.ctx.probe(if before {
                    "outcome:disconnected"
                } else {
                    "outcome:disconnected-during-poll"
                });
            }
        }
        Ok(())
    });
    // The harness is now the owner of the payload and destroys it (counted by its destructor).
    drop(payload);
}

/// `len()` / `is_empty()` / the debug-only awaiter registry against the model.
fn check_pool(container: &Container, at: &str) {
    let Some((len, empty)) = container.len() else {
        return;
    };
    let awaited = container.awaited();
    try_with(|w| {
        let want = w.neighbours.len() + usize::from(w.releases == 0);
        if len != want || empty != (want == 0) {
            return Err((
                "pool-len-mismatch",
                format!("{at}: len()={len} is_empty()={empty}, model has {want} rented event(s)"),
            ));
        }
        if let Some(n) = awaited {
            let want = usize::from(w.polled_ever && w.releases == 0);
            if n != want {
                return Err((
                    "inspect-awaiters-mismatch",
                    format!("{at}: inspect_awaiters visited {n} event(s), model says {want}"),
                ));
            }
        }
        Ok(())
    });
}

// ------------------------------------------------------------------------------------------------
// Running a program
// ------------------------------------------------------------------------------------------------

impl Program {
    fn drive(&self) -> bool {
        let (container, tx, rx) = {
            // Neighbours first, so that the event under test is not always in slot 0.
            let (container, tx, rx) = create(self.strategy);
            if self.strategy.is_pooled() && self.neighbours > 0 {
                // Re-create in the right order: release the first rental, rent neighbours, rent again.
                // (Nothing is installed in the world yet, so the release notifications are ignored.)
                drop(tx);
                drop(rx);
                let n: Vec<(Tx, Rx)> = (0..self.neighbours)
                    .map(|_| container.rent().expect("pooled"))
                    .collect();
                let (tx, rx) = container.rent().expect("pooled");
                with(|w| w.neighbours = n);
                (container, tx, rx)
            } else {
                (container, tx, rx)
            }
        };
        with(|w| {
            w.embedded_addr = match &container {
                Container::Embedded(p) => p.addr(),
                _ => 0,
            };
            w.container = container.clone();
            w.tx = Some(tx);
            w.rx = Some(rx);
            w.active = true;
            let s = self.strategy;
            let nb = w.neighbours.len();
            w.ctx.event(code(0, s.rank() as u64, nb as u64, 0), || {
                format!("event created: {} storage, {nb} neighbour(s)", s.name())
            });
        });

        let mut script = self.script.clone();
        // Quiescence needs both endpoints gone; a (shrunk) script that does not end that way is
        // completed here.
        script.push(Op::DropReceiver);
        script.push(Op::DropSender);
        for op in script {
            let reachable = with(|w| match op {
                Op::Send | Op::DropSender => w.tx.is_some(),
                Op::PoolTouch(_) => w.strategy.is_pooled(),
                _ => w.rx.is_some(),
            });
            if !reachable {
                continue; // consumed earlier; not an event
            }
            exec(op, None);
            check_pool(&container, op.name());
            try_with(|w| {
                if w.releases > 0 && !(w.sender_acted() && w.rx_done) {
                    return Err((
                        "released-with-live-endpoint",
                        "storage is released although an endpoint is still alive".into(),
                    ));
                }
                if w.releases == 0 && w.sender_acted() && w.rx_done {
                    return Err((
                        "storage-never-released",
                        "both endpoints are gone but release_event was never called".into(),
                    ));
                }
                Ok(())
            });
        }

        // Quiescence.
        try_with(|w| {
            if w.tx.is_some() || w.rx.is_some() || !w.rx_done || !w.sender_acted() {
                return Err((
                    "harness-bug",
                    "endpoints still present at quiescence".into(),
                ));
            }
            if w.releases != 1 {
                return Err((
                    "storage-never-released",
                    format!("release_event ran {} times", w.releases),
                ));
            }
            for (i, inst) in w.inst.iter().enumerate() {
                if inst.original && !inst.alive {
                    return Err((
                        "original-waker-consumed",
                        format!("the caller's waker {i} was released by the library"),
                    ));
                }
                if !inst.original && inst.alive {
                    return Err((
                        "waker-leaked",
                        format!(
                            "clone instance {i} of waker {} was never released",
                            (b'A' + inst.identity) as char
                        ),
                    ));
                }
            }
            if w.sent {
                if w.payload_drops == 0 {
                    return Err((
                        "payload-leaked",
                        "a value was sent but neither received nor destroyed".into(),
                    ));
                }
                if w.payload_drops > 1 {
                    return Err((
                        "payload-double-drop",
                        "the payload was destroyed more than once".into(),
                    ));
                }
                w.ctx.probe(if w.payload_received == 1 {
                    "payload:received"
                } else {
                    "payload:destroyed-unreceived"
                });
            } else if w.payload_drops != 0 || w.payload_received != 0 {
                return Err((
                    "phantom-value",
                    "a payload was seen although nothing was sent".into(),
                ));
            }
            Ok(())
        });

        // Return the neighbours, then the container must be empty.
        let neighbours = with(|w| {
            w.extra_window = true;
            std::mem::take(&mut w.neighbours)
        });
        let n_neighbours = neighbours.len() as u32;
        let before = with(|w| w.extra_releases);
        drop(neighbours);
        try_with(|w| {
            w.extra_window = false;
            if w.extra_releases - before != n_neighbours {
                return Err((
                    "extra-release-count",
                    format!(
                        "{n_neighbours} neighbour event(s) produced {} release(s)",
                        w.extra_releases - before
                    ),
                ));
            }
            Ok(())
        });
        if let Some((len, empty)) = container.len() {
            if len != 0 || !empty {
                bail(
                    "pool-not-empty",
                    format!("at quiescence len()={len} is_empty()={empty}"),
                );
            }
        }
        with(|w| {
            w.active = false;
            w.container = Container::None;
        });
        container.free();

        with(|w| {
            w.ctx.probe(match w.strategy {
                Strategy::Boxed => "strategy:boxed",
                Strategy::Embedded => "strategy:embedded",
                Strategy::Pooled => "strategy:pooled",
                Strategy::RawPooled => "strategy:raw-pooled",
                Strategy::Lake => "strategy:lake",
                Strategy::RawLake => "strategy:raw-lake",
            });
            if w.plan.is_empty() {
                w.callbacks > 0
            } else {
                w.performed > 0
            }
        })
    }
}

impl Scenario for Program {
    fn generate(rng: &mut Rng, mode: &str) -> Self {
        let _ = AVOID_KNOWN;
        let reentrant = mode != "strict";
        let strategy = *rng.pick(&STRATEGIES);
        let neighbours = if strategy.is_pooled() {
            rng.below(3) as u8
        } else {
            0
        };
        let top_weights: [u32; OP_KINDS] = if strategy.is_pooled() {
            [12, 7, 40, 8, 9, 8, 6]
        } else {
            [12, 7, 40, 8, 9, 8, 0]
        };
        let n = rng.range_usize(1, 7);
        let mut script: Vec<Op> = (0..n).map(|_| draw_op(rng, &top_weights)).collect();
        // Final drops in either order (often already consumed by then).
        if rng.bool() {
            script.push(Op::DropSender);
            script.push(Op::DropReceiver);
        } else {
            script.push(Op::DropReceiver);
            script.push(Op::DropSender);
        }
        let mut plan = Vec::new();
        if reentrant {
            let density = rng.range(20, 70);
            for kind in [Cb::Clone, Cb::Wake, Cb::Drop, Cb::WakeByRef] {
                // Clone and drop callbacks run inside receiver operations (only the sender is
                // reachable); wake callbacks run inside sender operations (only the receiver is).
                // The other side is generated too, with low weight: the slot discipline skips it.
                let mut weights: [u32; OP_KINDS] = match kind {
                    Cb::Clone | Cb::Drop => [45, 35, 4, 3, 3, 4, 6],
                    Cb::Wake | Cb::WakeByRef => [3, 3, 35, 12, 15, 26, 6],
                };
                if !strategy.is_pooled() {
                    weights[6] = 0;
                }
                // A one-shot event wakes at most once and the library never calls wake_by_ref, so
                // only invocation 0 of those is planned (densely for wake); clones and drops
                // happen once per non-terminal poll.
                let slots = if matches!(kind, Cb::WakeByRef | Cb::Wake) {
                    1
                } else {
                    4
                };
                for index in 0..slots {
                    let p = if kind == Cb::Wake {
                        density.max(60) + 15
                    } else {
                        density
                    };
                    if rng.chance(p, 100) {
                        let k = [1, 1, 1, 2, 2, 3][rng.below_usize(6)];
                        let actions = (0..k).map(|_| draw_op(rng, &weights)).collect();
                        plan.push(PlanEntry {
                            kind,
                            index,
                            actions,
                        });
                    }
                }
            }
        }
        Self {
            strategy,
            neighbours,
            value: rng.below(1000) as u32,
            script,
            plan,
        }
    }

    fn run(&self, ctx: &mut Ctx) -> Result<bool, Violation> {
        #[cfg(folo_verif)]
        events_once::verif::set_on_release(Some(on_release));
        let mut mine = Ctx::new(ctx.keep_log);
        std::mem::swap(&mut mine, ctx);
        with(|w| {
            let mut fresh = World::idle();
            fresh.ctx = mine;
            fresh.strategy = self.strategy;
            fresh.value = self.value;
            fresh.plan = self.plan.clone();
            fresh.inst = (0..IDENTITIES)
                .map(|identity| Inst {
                    identity,
                    alive: true,
                    woken: false,
                    original: true,
                    born_poll: 0,
                })
                .collect();
            let mut old = std::mem::replace(w, fresh);
            old.scrub();
        });
        let outcome = catch_unwind(AssertUnwindSafe(|| self.drive()));
        let violation = with(|w| {
            std::mem::swap(&mut w.ctx, ctx);
            if outcome.is_err() || w.violation.is_some() {
                w.scrub();
            }
            w.active = false;
            w.violation.take()
        });
        match (outcome, violation) {
            (_, Some(v)) => Err(v),
            (Ok(nontrivial), None) => Ok(nontrivial),
            (Err(payload), None) => {
                if payload.is::<AbortRun>() {
                    Err(Violation::new(
                        "harness-bug",
                        "run abandoned without a recorded violation",
                    ))
                } else {
                    Err(simkit::panic_violation(&payload))
                }
            }
        }
    }

    fn shrink(&self) -> Vec<Self> {
        let mut out = Vec::new();
        for script in simkit::shrink::remove_chunks(&self.script) {
            out.push(Self {
                script,
                ..self.clone()
            });
        }
        for plan in simkit::shrink::remove_chunks(&self.plan) {
            out.push(Self {
                plan,
                ..self.clone()
            });
        }
        for (i, e) in self.plan.iter().enumerate() {
            if e.actions.len() > 1 {
                for actions in simkit::shrink::remove_chunks(&e.actions) {
                    if actions.is_empty() {
                        continue;
                    }
                    let mut plan = self.plan.clone();
                    plan[i].actions = actions;
                    out.push(Self {
                        plan,
                        ..self.clone()
                    });
                }
            }
        }
        // Earlier invocation index (lets a later script shrink further).
        for (i, e) in self.plan.iter().enumerate() {
            if e.index > 0
                && !self
                    .plan
                    .iter()
                    .any(|o| o.kind == e.kind && o.index == e.index - 1)
            {
                let mut c = self.clone();
                c.plan[i].index -= 1;
                out.push(c);
            }
        }
        if self.neighbours > 0 {
            out.push(Self {
                neighbours: 0,
                ..self.clone()
            });
        }
        for s in STRATEGIES {
            if s.rank() < self.strategy.rank() {
                let mut c = self.clone();
                c.strategy = s;
                if !s.is_pooled() {
                    c.neighbours = 0;
                }
                out.push(c);
            }
        }
        // Simpler arguments: waker A instead of B/C, sender-first drop order in PoolTouch.
        let simpler = |op: &Op| match op {
            Op::Poll(i) if *i > 0 => Some(Op::Poll(0)),
            Op::PoolTouch(true) => Some(Op::PoolTouch(false)),
            _ => None,
        };
        for (i, op) in self.script.iter().enumerate() {
            if let Some(s) = simpler(op) {
                let mut c = self.clone();
                c.script[i] = s;
                out.push(c);
            }
        }
        for (i, e) in self.plan.iter().enumerate() {
            for (j, op) in e.actions.iter().enumerate() {
                if let Some(s) = simpler(op) {
                    let mut c = self.clone();
                    c.plan[i].actions[j] = s;
                    out.push(c);
                }
            }
        }
        if self.value != 0 {
            out.push(Self {
                value: 0,
                ..self.clone()
            });
        }
        out
    }

    fn size(&self) -> usize {
        let ops = |v: &[Op]| v.iter().map(|o| 3 + o.weight()).sum::<usize>();
        ops(&self.script)
            + self
                .plan
                .iter()
                .map(|e| 2 + e.index as usize + ops(&e.actions))
                .sum::<usize>()
            + self.strategy.rank()
            + usize::from(self.neighbours)
            + usize::from(self.value != 0)
    }
}

fn draw_op(rng: &mut Rng, weights: &[u32; OP_KINDS]) -> Op {
    match rng.weighted(weights) {
        0 => Op::Send,
        1 => Op::DropSender,
        2 => Op::Poll(rng.weighted(&[5, 4, 1]) as u8),
        3 => Op::IsReady,
        4 => Op::IntoValue,
        5 => Op::DropReceiver,
        _ => Op::PoolTouch(rng.bool()),
    }
}

fn main() {
    // Isolated: a double release of boxed storage is a double free, which glibc answers with an
    // abort before the release notification runs; minimisation and replay use child processes.
    simkit::cli_main(
        "h_oncelocal",
        vec![
            entry::<Program>(
                "C07",
                "strict",
                "LocalEvent family, top-level scripts only (no callback actions)",
            )
            .isolated(),
            entry::<Program>(
                "C07",
                "reentrant",
                "LocalEvent family, scripts plus re-entrant waker callback plans",
            )
            .isolated(),
        ],
    )
}
