//! Scenarios over the macro-generated statics (`linked::instances!`, `linked::thread_local_rc!`,
//! `linked::thread_local_arc!`): racing first access and dependency graphs of initialisers.
//!
//! Two execution styles share one scenario type:
//! * `concurrent`: 2–4 real threads behind a start gate run their scripts at the same time. Under
//!   Miri the interpreter's seeded scheduler decides every preemption inside the library (and
//!   reports a deadlock exactly); natively the OS does (not deterministic, extra volume only).
//! * sequential: the op-granular coordinator runs one operation of one thread at a time following
//!   the scenario's schedule (deterministic natively).

use std::cell::RefCell;
use std::collections::{BTreeMap, BTreeSet};
use std::sync::Arc;
use std::sync::atomic::{AtomicBool, Ordering};

use serde::{Deserialize, Serialize};
use simkit::coord::{Coordinator, ExecError};
use simkit::{Ctx, Rng, Scenario, Violation, check};

use crate::bank::{self, Dep, Held, KIND_I, PER_KIND, SLOTS};
use crate::tracked::{self, Obs, Tracked};
use crate::{KEY_NESTED, avoiding};

#[derive(Clone, Debug, Serialize, Deserialize, PartialEq)]
pub struct NodeDep {
    pub node: usize,
    /// rc/arc statics: reach through `.to_rc()`/`.to_arc()` instead of `.with()`.
    pub via_handle: bool,
}

#[derive(Clone, Debug, Serialize, Deserialize, PartialEq)]
pub struct Node {
    /// Slot in the bank (`kind * 64 + index`).
    pub slot: u32,
    /// What this static's initialiser touches (edges only go to higher node numbers: acyclic).
    pub deps: Vec<NodeDep>,
}

#[derive(Clone, Debug, Serialize, Deserialize, PartialEq)]
pub enum SOp {
    /// Access the static of `node` (first access on this thread initialises).
    Touch { node: usize, via_handle: bool, hold: bool },
    /// `yield_now` n times (stagger; only meaningful in concurrent runs).
    Yield(u8),
    /// Drop the oldest object this thread still holds.
    Release,
}

#[derive(Clone, Debug, Serialize, Deserialize)]
pub struct StaticsScenario {
    pub nodes: Vec<Node>,
    pub threads: Vec<Vec<SOp>>,
    pub concurrent: bool,
    /// Sequential runs: which thread performs its next operation (leftovers run round-robin).
    pub sched: Vec<u8>,
    /// `Arc`s obtained from `thread_local_arc!` statics and still held at script end are handed to
    /// the main thread and dropped after every thread has exited.
    pub keep_arcs: bool,
    /// Sequential runs: bound for one operation before it counts as blocked.
    pub op_timeout_ms: u32,
}

#[derive(Clone, Copy, Debug)]
struct TObs {
    thread: u32,
    op: u32,
    node: usize,
    obs: Obs,
    begin: u64,
    end: u64,
}

thread_local! {
    static HELD: RefCell<Vec<Held>> = const { RefCell::new(Vec::new()) };
}

fn depth_of(nodes: &[Node], n: usize, memo: &mut Vec<Option<u32>>) -> u32 {
    if let Some(d) = memo[n] {
        return d;
    }
    let mut d = 1;
    for e in &nodes[n].deps {
        if e.node > n && e.node < nodes.len() {
            d = d.max(1 + depth_of(nodes, e.node, memo));
        }
    }
    memo[n] = Some(d);
    d
}

fn max_depth(nodes: &[Node]) -> u32 {
    let mut memo = vec![None; nodes.len()];
    (0..nodes.len()).map(|n| depth_of(nodes, n, &mut memo)).max().unwrap_or(0)
}

/// Post-order (dependencies first) list of everything `n` transitively depends on, then `n`.
fn post_order(nodes: &[Node], n: usize, out: &mut Vec<usize>) {
    for e in &nodes[n].deps {
        if e.node > n && e.node < nodes.len() {
            post_order(nodes, e.node, out);
        }
    }
    if !out.contains(&n) {
        out.push(n);
    }
}

impl StaticsScenario {
    fn gen_nodes(rng: &mut Rng, with_graph: bool) -> Vec<Node> {
        let n = if with_graph { rng.range_usize(2, 6) } else { rng.range_usize(1, 3) };
        let mut slots: Vec<u32> = Vec::new();
        while slots.len() < n {
            let kind = rng.weighted(&[3, 2, 2]) as u32;
            let s = kind * PER_KIND + rng.below(u64::from(PER_KIND)) as u32;
            if !slots.contains(&s) {
                slots.push(s);
            }
        }
        let mut nodes: Vec<Node> = slots.into_iter().map(|slot| Node { slot, deps: Vec::new() }).collect();
        if with_graph {
            for i in 0..n - 1 {
                let fan = rng.weighted(&[2, 5, 3]);
                for _ in 0..fan {
                    let j = rng.range_usize(i + 1, n - 1);
                    if nodes[i].deps.iter().any(|d| d.node == j) {
                        continue;
                    }
                    nodes[i].deps.push(NodeDep { node: j, via_handle: rng.bool() });
                    if max_depth(&nodes) > 3 {
                        nodes[i].deps.pop();
                    }
                }
            }
        }
        nodes
    }

    fn gen_threads(rng: &mut Rng, nodes: &[Node], avoid_nested: bool) -> Vec<Vec<SOp>> {
        let nt = rng.range_usize(2, 4);
        let mut threads = Vec::new();
        // One node is the focus of the race: every thread touches it early.
        let focus = rng.below_usize(nodes.len());
        for _ in 0..nt {
            let mut script = Vec::new();
            let mut touched: Vec<usize> = Vec::new();
            let n_ops = rng.range_usize(1, 5);
            if rng.chance(1, 2) {
                script.push(SOp::Yield(rng.range(1, 6) as u8));
            }
            for k in 0..n_ops {
                let node = if k == 0 && rng.chance(3, 4) { focus } else { rng.below_usize(nodes.len()) };
                if avoid_nested {
                    // Known finding c12-nested-static-init-deadlock: an initialiser must find
                    // every static it uses already cached on the thread that runs it.
                    let mut order = Vec::new();
                    post_order(nodes, node, &mut order);
                    for d in order {
                        if d != node && !touched.contains(&d) {
                            touched.push(d);
                            script.push(SOp::Touch { node: d, via_handle: rng.bool(), hold: false });
                        }
                    }
                }
                if !touched.contains(&node) {
                    touched.push(node);
                }
                script.push(SOp::Touch { node, via_handle: rng.bool(), hold: rng.chance(1, 3) });
                match rng.weighted(&[5, 2, 2]) {
                    1 => script.push(SOp::Yield(rng.range(1, 4) as u8)),
                    2 => script.push(SOp::Release),
                    _ => {}
                }
            }
            threads.push(script);
        }
        threads
    }

    pub fn generate_mode(rng: &mut Rng, mode: &str) -> Self {
        if mode == "known-c12-nested-static-init-deadlock" {
            // Directed: OUTER's initialiser uses INNER, which the thread has not seen yet.
            let kinds = [rng.below(3) as u32, rng.below(3) as u32];
            let a = kinds[0] * PER_KIND + rng.below(u64::from(PER_KIND)) as u32;
            let mut b = kinds[1] * PER_KIND + rng.below(u64::from(PER_KIND)) as u32;
            if b == a {
                b = (b + 1) % SLOTS as u32;
            }
            return Self {
                nodes: vec![
                    Node { slot: a, deps: vec![NodeDep { node: 1, via_handle: rng.bool() }] },
                    Node { slot: b, deps: vec![] },
                ],
                threads: vec![vec![SOp::Touch { node: 0, via_handle: false, hold: false }]],
                concurrent: false,
                sched: vec![0],
                keep_arcs: false,
                op_timeout_ms: 1500,
            };
        }
        let concurrent = mode == "race";
        let with_graph = rng.chance(1, 2);
        let nodes = Self::gen_nodes(rng, with_graph);
        let threads = Self::gen_threads(rng, &nodes, avoiding(KEY_NESTED));
        let total: usize = threads.iter().map(Vec::len).sum();
        let sched = (0..total + 4).map(|_| rng.below(threads.len() as u64) as u8).collect();
        Self {
            nodes,
            threads,
            concurrent,
            sched,
            keep_arcs: rng.chance(1, 3),
            op_timeout_ms: 10_000,
        }
    }

    fn configure(&self) {
        tracked::reset_run();
        bank::reset();
        for (i, n) in self.nodes.iter().enumerate() {
            let deps: Vec<Dep> = n
                .deps
                .iter()
                .filter(|d| d.node > i && d.node < self.nodes.len())
                .map(|d| Dep { slot: self.nodes[d.node].slot, via_handle: d.via_handle })
                .collect();
            bank::set_deps(n.slot, &deps);
        }
    }

    /// Performs one script operation on the current (simulated) thread.
    fn do_op(nodes: &[Node], thread: u32, op_idx: u32, op: &SOp) -> Option<TObs> {
        match op {
            SOp::Touch { node, via_handle, hold } => {
                let n = nodes.get(*node)?;
                let begin = tracked::stamp();
                let (obs, held) = bank::touch(n.slot, *via_handle, *hold);
                let end = tracked::stamp();
                if let Some(h) = held {
                    HELD.with_borrow_mut(|v| v.push(h));
                }
                Some(TObs { thread, op: op_idx, node: *node, obs, begin, end })
            }
            SOp::Yield(n) => {
                for _ in 0..*n {
                    std::thread::yield_now();
                }
                None
            }
            SOp::Release => {
                let h = HELD.with_borrow_mut(|v| if v.is_empty() { None } else { Some(v.remove(0)) });
                drop(h);
                None
            }
        }
    }

    /// Takes what the thread still holds; `Arc`s are returned (when asked), the rest is dropped.
    fn finish_thread(keep_arcs: bool) -> Vec<Arc<Tracked>> {
        let held = HELD.with_borrow_mut(std::mem::take);
        let mut arcs = Vec::new();
        for h in held {
            match h {
                Held::Arc(a) if keep_arcs => arcs.push(a),
                other => drop(other),
            }
        }
        arcs
    }

    /// Oracles over everything observed so far (by scripts and by initialisers).
    fn check_observations(&self, all: &[TObs]) -> Result<(), Violation> {
        // (slot) -> first tag; (slot, thread) -> instance for rc/arc kinds
        let mut tag_of: BTreeMap<u32, (u64, u32)> = BTreeMap::new();
        let mut per_thread: BTreeMap<(u32, u32), u64> = BTreeMap::new();
        let mut owner_of_inst: BTreeMap<(u32, u64), u32> = BTreeMap::new();
        let mut fresh: BTreeSet<(u32, u64)> = BTreeSet::new();
        let mut items: Vec<(u32, u32, Obs)> = all
            .iter()
            .map(|o| (self.nodes[o.node].slot, o.thread, o.obs))
            .collect();
        for io in bank::init_observations() {
            items.push((io.dep, io.tid, io.obs));
        }
        for (slot, thread, obs) in items {
            check!(
                obs.owner == slot,
                "wrong-static",
                "thread {thread} accessed static slot {slot} ({}) and got an instance of the family of slot {}",
                bank::kind_name(slot),
                obs.owner
            );
            let first = *tag_of.entry(slot).or_insert((obs.tag, thread));
            check!(
                first.0 == obs.tag,
                "family-split",
                "static slot {slot} ({}): thread {} saw family tag {} but thread {thread} saw family tag {}: two initial instances were exposed",
                bank::kind_name(slot),
                first.1,
                first.0,
                obs.tag
            );
            check!(
                obs.created_on == thread,
                "created-on-wrong-thread",
                "static slot {slot}: thread {thread} was given instance {} which was created on thread {}",
                obs.inst,
                obs.created_on
            );
            if bank::kind_of(slot) == KIND_I {
                check!(
                    fresh.insert((slot, obs.inst)),
                    "instance-not-fresh",
                    "static slot {slot}: get() returned instance {} twice",
                    obs.inst
                );
            } else {
                let inst = *per_thread.entry((slot, thread)).or_insert(obs.inst);
                check!(
                    inst == obs.inst,
                    "second-instance-on-thread",
                    "static slot {slot} ({}): thread {thread} saw instance {inst} and later instance {}",
                    bank::kind_name(slot),
                    obs.inst
                );
                let owner = *owner_of_inst.entry((slot, obs.inst)).or_insert(thread);
                check!(
                    owner == thread,
                    "instance-shared-between-threads",
                    "static slot {slot}: instance {} was handed to threads {owner} and {thread}",
                    obs.inst
                );
            }
        }
        Ok(())
    }

    /// Final oracles, after every thread has exited and everything held was dropped.
    fn check_final(&self, ctx: &mut Ctx, all: &[TObs]) -> Result<(), Violation> {
        self.check_observations(all)?;
        let fams = tracked::families();
        let touched: BTreeSet<u32> = all.iter().map(|o| self.nodes[o.node].slot).collect();
        for slot in &touched {
            let runs = bank::init_runs(*slot);
            check!(runs >= 1, "no-initialiser-run", "static slot {slot} was accessed but its initialiser never ran");
            let n_fams = fams.iter().filter(|f| f.owner == *slot).count() as u32;
            check!(n_fams == runs, "harness-bookkeeping", "slot {slot}: {runs} initialiser runs but {n_fams} families");
            if runs > 1 {
                ctx.probe("initialiser-ran-more-than-once");
            }
        }
        for f in &fams {
            for i in f.instances() {
                check!(
                    !i.is_live(),
                    "instance-leak",
                    "static slot {} ({}): instance {} (family tag {}, created on thread {}) is still alive after every thread exited and every reference was dropped",
                    f.owner,
                    bank::kind_name(f.owner),
                    i.id,
                    i.tag,
                    i.created_on
                );
            }
        }
        check!(tracked::double_drops() == 0, "double-drop", "an instance was destroyed twice");
        Ok(())
    }

    fn probes(&self, ctx: &mut Ctx, all: &[TObs]) -> bool {
        let mut by_slot: BTreeMap<usize, Vec<&TObs>> = BTreeMap::new();
        for o in all {
            by_slot.entry(o.node).or_default().push(o);
        }
        let mut shared = false;
        let mut overlapped = false;
        for v in by_slot.values() {
            let threads: BTreeSet<u32> = v.iter().map(|o| o.thread).collect();
            if threads.len() >= 2 {
                shared = true;
            }
            // First access of each thread: did two of them overlap in (stamp) time?
            let mut firsts: BTreeMap<u32, &TObs> = BTreeMap::new();
            for o in v {
                let e = firsts.entry(o.thread).or_insert(o);
                if o.begin < e.begin {
                    *e = o;
                }
            }
            let f: Vec<&&TObs> = firsts.values().collect();
            for a in 0..f.len() {
                for b in a + 1..f.len() {
                    if f[a].begin < f[b].end && f[b].begin < f[a].end {
                        overlapped = true;
                    }
                }
            }
        }
        if shared {
            ctx.probe("static-touched-by-2+-threads");
        }
        if overlapped {
            ctx.probe("first-access-overlapped");
        }
        // Initialisers that ran nested inside another initialiser (only possible when an
        // initialiser first-touches a static: excluded while c12-nested-static-init-deadlock is avoided).
        let depth = bank::max_depth();
        if depth >= 2 {
            ctx.probe("initialiser-ran-inside-initialiser");
        }
        if depth >= 3 {
            ctx.probe("initialiser-nesting-depth>=3");
        }
        let used = !bank::init_observations().is_empty();
        if used {
            ctx.probe("initialiser-used-another-static");
        }
        let gdepth = if used { max_depth(&self.nodes) } else { 1 };
        if gdepth >= 2 {
            ctx.probe("graph-depth>=2");
        }
        if gdepth >= 3 {
            ctx.probe("graph-depth>=3");
        }
        let kinds: BTreeSet<u32> = self.nodes.iter().map(|n| bank::kind_of(n.slot)).collect();
        if kinds.len() >= 2 {
            ctx.probe("mixed-kinds");
        }
        shared || gdepth >= 2
    }

    fn run_concurrent(&self, ctx: &mut Ctx) -> Result<bool, Violation> {
        self.configure();
        let gate = Arc::new(AtomicBool::new(false));
        let mut handles = Vec::new();
        for (t, script) in self.threads.iter().enumerate() {
            let gate = Arc::clone(&gate);
            let script = script.clone();
            let nodes = self.nodes.clone();
            let keep = self.keep_arcs;
            handles.push(std::thread::spawn(move || {
                tracked::set_tid(t as u32);
                while !gate.load(Ordering::Acquire) {
                    std::thread::yield_now();
                }
                let mut out = Vec::new();
                for (i, op) in script.iter().enumerate() {
                    if let Some(o) = Self::do_op(&nodes, t as u32, i as u32, op) {
                        out.push(o);
                    }
                }
                (out, Self::finish_thread(keep))
            }));
        }
        gate.store(true, Ordering::Release);
        let mut all: Vec<TObs> = Vec::new();
        let mut arcs = Vec::new();
        let mut panicked: Option<String> = None;
        for h in handles {
            match h.join() {
                Ok((o, a)) => {
                    all.extend(o);
                    arcs.extend(a);
                }
                Err(p) => panicked = Some(simkit::panic_message(&p)),
            }
        }
        if let Some(msg) = panicked {
            return Err(Violation::new("thread-panicked", format!("a thread panicked: {msg}")));
        }
        all.sort_by_key(|o| o.begin);
        for o in &all {
            ctx.event(
                simkit::mix(u64::from(o.thread) << 32 | u64::from(o.op), simkit::mix(o.obs.tag, o.obs.inst)),
                || {
                    format!(
                        "[{}..{}] thread {} op {}: slot {} ({}) -> family tag {} instance {} (created on {})",
                        o.begin,
                        o.end,
                        o.thread,
                        o.op,
                        self.nodes[o.node].slot,
                        bank::kind_name(self.nodes[o.node].slot),
                        o.obs.tag,
                        o.obs.inst,
                        o.obs.created_on
                    )
                },
            );
        }
        for io in bank::init_observations() {
            ctx.event(simkit::mix(u64::from(io.outer) << 16 | u64::from(io.dep), io.obs.tag), || {
                format!(
                    "initialiser of slot {} on thread {} used slot {} -> family tag {} instance {}",
                    io.outer, io.tid, io.dep, io.obs.tag, io.obs.inst
                )
            });
        }
        if !arcs.is_empty() {
            ctx.probe("arc-outlived-its-thread");
        }
        drop(arcs);
        self.check_final(ctx, &all)?;
        Ok(self.probes(ctx, &all))
    }

    fn run_sequential(&self, ctx: &mut Ctx) -> Result<bool, Violation> {
        self.configure();
        let nt = self.threads.len();
        let mut coord = Coordinator::new(nt);
        coord.op_timeout = std::time::Duration::from_millis(u64::from(self.op_timeout_ms.max(100)));
        for t in 0..nt {
            let _ = coord.exec(t, move || tracked::set_tid(t as u32));
        }
        let mut pc = vec![0_usize; nt];
        let mut all: Vec<TObs> = Vec::new();
        let total: usize = self.threads.iter().map(Vec::len).sum();
        let mut picks: Vec<usize> = self.sched.iter().map(|t| usize::from(*t) % nt).collect();
        // leftovers round-robin
        for k in 0..total * nt {
            picks.push(k % nt);
        }
        for t in picks {
            if pc[t] >= self.threads[t].len() {
                continue;
            }
            let op = self.threads[t][pc[t]].clone();
            let idx = pc[t] as u32;
            pc[t] += 1;
            let nodes = self.nodes.clone();
            let op2 = op.clone();
            let r = coord.exec(t, move || Self::do_op(&nodes, t as u32, idx, &op2));
            match r {
                Ok(Some(o)) => {
                    ctx.event(
                        simkit::mix(u64::from(o.thread) << 32 | u64::from(o.op), simkit::mix(o.obs.tag, o.obs.inst)),
                        || {
                            format!(
                                "thread {t} op {idx}: {op:?} slot {} ({}) -> family tag {} instance {} (created on {})",
                                self.nodes[o.node].slot,
                                bank::kind_name(self.nodes[o.node].slot),
                                o.obs.tag,
                                o.obs.inst,
                                o.obs.created_on
                            )
                        },
                    );
                    all.push(o);
                    self.check_observations(&all)?;
                }
                Ok(None) => ctx.event(u64::from(idx) + 7, || format!("thread {t} op {idx}: {op:?}")),
                Err(ExecError::Blocked) => {
                    ctx.event(99, || format!("thread {t} op {idx}: {op:?} BLOCKED"));
                    return Err(Violation::new(
                        "first-access-blocked",
                        format!(
                            "thread {t} op {idx} ({op:?}) did not return within {} ms while no other thread was running: first access does not terminate",
                            self.op_timeout_ms
                        ),
                    ));
                }
                Err(ExecError::Panicked(msg)) => {
                    return Err(Violation::new("op-panicked", format!("thread {t} op {idx} ({op:?}) panicked: {msg}")));
                }
                Err(ExecError::Dead) => {
                    return Err(Violation::new("harness-bookkeeping", "simulated thread is gone"));
                }
            }
        }
        let mut arcs = Vec::new();
        let keep = self.keep_arcs;
        for t in 0..nt {
            if let Ok(a) = coord.exec(t, move || Self::finish_thread(keep)) {
                arcs.extend(a);
            }
        }
        // Threads exit in the order the schedule's tail dictates (thread-local destructors run).
        let first = self.sched.last().map_or(0, |t| usize::from(*t) % nt);
        for k in 0..nt {
            let t = (first + k) % nt;
            if let Err(ExecError::Panicked(msg)) = coord.exit_thread(t) {
                return Err(Violation::new("thread-exit-panicked", format!("thread {t} panicked while exiting: {msg}")));
            }
            ctx.event(1000 + t as u64, || format!("thread {t} exited"));
        }
        if !arcs.is_empty() {
            ctx.probe("arc-outlived-its-thread");
        }
        drop(arcs);
        self.check_final(ctx, &all)?;
        Ok(self.probes(ctx, &all))
    }
}

impl Scenario for StaticsScenario {
    fn generate(rng: &mut Rng, mode: &str) -> Self {
        Self::generate_mode(rng, mode)
    }

    fn run(&self, ctx: &mut Ctx) -> Result<bool, Violation> {
        if self.nodes.is_empty() || self.threads.is_empty() {
            return Ok(false);
        }
        if self.concurrent { self.run_concurrent(ctx) } else { self.run_sequential(ctx) }
    }

    fn shrink(&self) -> Vec<Self> {
        let mut out = Vec::new();
        // fewer threads
        if self.threads.len() > 1 {
            for t in 0..self.threads.len() {
                let mut c = self.clone();
                c.threads.remove(t);
                out.push(c);
            }
        }
        // fewer operations per thread
        for t in 0..self.threads.len() {
            for ops in simkit::shrink::remove_chunks(&self.threads[t]) {
                let mut c = self.clone();
                c.threads[t] = ops;
                out.push(c);
            }
        }
        // fewer dependency edges
        for n in 0..self.nodes.len() {
            for d in 0..self.nodes[n].deps.len() {
                let mut c = self.clone();
                c.nodes[n].deps.remove(d);
                out.push(c);
            }
        }
        // simpler operations
        for t in 0..self.threads.len() {
            for (i, op) in self.threads[t].iter().enumerate() {
                if let SOp::Touch { node, via_handle, hold } = op {
                    if *hold || *via_handle {
                        let mut c = self.clone();
                        c.threads[t][i] = SOp::Touch { node: *node, via_handle: false, hold: false };
                        out.push(c);
                    }
                }
            }
        }
        if self.keep_arcs {
            let mut c = self.clone();
            c.keep_arcs = false;
            out.push(c);
        }
        out
    }

    fn size(&self) -> usize {
        let ops: usize = self
            .threads
            .iter()
            .flatten()
            .map(|op| match op {
                SOp::Touch { via_handle, hold, .. } => 4 + usize::from(*via_handle) + usize::from(*hold),
                _ => 4,
            })
            .sum();
        let edges: usize = self.nodes.iter().map(|n| n.deps.len()).sum();
        ops + 3 * edges + 10 * self.threads.len() + usize::from(self.keep_arcs)
    }
}
