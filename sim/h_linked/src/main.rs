//! See `lib.rs`.
fn main() {
    h_linked::run()
}
