//! 2–3 real threads work on one `InstancePerThreadSync` at the same time: acquire, clone, use,
//! drop, and move `RefSync` values to each other through channels (the Sync form is what safe code
//! can move). Meant for Miri, whose seeded scheduler interleaves the library's lock / reference
//! count steps; natively it is extra (non-deterministic) volume.
//!
//! While known finding `c12-refsync-foreign-thread-drop` is avoided every thread keeps an *anchor*
//! reference to its own instance until all threads have dropped everything else (two barriers), so
//! a reference dropped on a foreign thread is never the last one aligned to its instance. Without
//! the anchors (`anchored == false`) any drop anywhere may be the last one.

use std::sync::atomic::{AtomicU32, Ordering};
use std::sync::mpsc::{Receiver, Sender, channel};
use std::sync::{Arc, Mutex};

use linked::{InstancePerThreadSync, RefSync};
use serde::{Deserialize, Serialize};
use simkit::{Ctx, Rng, Scenario, Violation, check};

use crate::tracked::{self, Tracked};
use crate::{KEY_FOREIGN, avoiding};

#[derive(Clone, Debug, Serialize, Deserialize, PartialEq)]
pub enum ROp {
    Acquire,
    /// Clone the k-th reference this thread holds (modulo).
    CloneHeld(u8),
    UseHeld(u8),
    DropHeld(u8),
    /// Move the k-th held reference to thread `to`.
    Send { to: u8, k: u8 },
    /// Take every reference other threads have sent so far.
    Recv,
    Yield(u8),
    /// Wait (bounded) until two threads have reached rendezvous point `id`: lines two threads up so
    /// that what they do next - typically dropping the last two references to one instance -
    /// happens at the same time.
    Rendezvous(u8),
}

#[derive(Clone, Debug, Serialize, Deserialize)]
pub struct WraceScenario {
    pub threads: Vec<Vec<ROp>>,
    pub anchored: bool,
}

struct H {
    r: RefSync<Tracked>,
    inst: u64,
    origin: u32,
    born: u64,
}

#[derive(Clone, Debug)]
enum Ev {
    Acq { t: u32, begin: u64, end: u64, inst: u64, created_on: u32, tag: u64 },
    /// A reference to `inst` (aligned to `origin`) existed from `born` until at least `dying`.
    Life { t: u32, inst: u64, origin: u32, born: u64, dying: u64 },
    Use { t: u32, at: u64, inst: u64, seen: u64 },
    Moved { t: u32, at: u64, to: u32, inst: u64 },
}

impl Ev {
    fn at(&self) -> u64 {
        match self {
            Ev::Acq { begin, .. } => *begin,
            Ev::Life { dying, .. } => *dying,
            Ev::Use { at, .. } | Ev::Moved { at, .. } => *at,
        }
    }
}

fn barrier(counter: &AtomicU32, n: u32) {
    counter.fetch_add(1, Ordering::AcqRel);
    while counter.load(Ordering::Acquire) < n {
        std::thread::yield_now();
    }
}

fn drop_h(t: u32, h: H, log: &mut Vec<Ev>) {
    let dying = tracked::stamp();
    log.push(Ev::Life { t, inst: h.inst, origin: h.origin, born: h.born, dying });
    drop(h.r);
}

impl WraceScenario {
    fn thread_body(
        t: u32,
        n: u32,
        script: &[ROp],
        anchored: bool,
        wrapper: InstancePerThreadSync<Tracked>,
        txs: Vec<Sender<H>>,
        rx: Receiver<H>,
        sync: &[AtomicU32; 3],
        rv: &[AtomicU32; 16],
        leftovers: &Mutex<Vec<H>>,
    ) -> Vec<Ev> {
        tracked::set_tid(t);
        let mut log: Vec<Ev> = Vec::new();
        let mut held: Vec<H> = Vec::new();
        let acquire = |log: &mut Vec<Ev>| {
            let begin = tracked::stamp();
            let r = wrapper.acquire();
            let end = tracked::stamp();
            let o = r.obs();
            log.push(Ev::Acq { t, begin, end, inst: o.inst, created_on: o.created_on, tag: o.tag });
            H { r, inst: o.inst, origin: o.created_on, born: end }
        };
        barrier(&sync[0], n);
        let anchor = anchored.then(|| acquire(&mut log));
        for op in script {
            match op {
                ROp::Acquire => held.push(acquire(&mut log)),
                ROp::CloneHeld(k) => {
                    if !held.is_empty() {
                        let i = usize::from(*k) % held.len();
                        let c = held[i].r.clone();
                        let born = tracked::stamp();
                        held.push(H { r: c, inst: held[i].inst, origin: held[i].origin, born });
                    }
                }
                ROp::UseHeld(k) => {
                    if !held.is_empty() {
                        let i = usize::from(*k) % held.len();
                        let seen = held[i].r.obs().inst;
                        log.push(Ev::Use { t, at: tracked::stamp(), inst: held[i].inst, seen });
                    }
                }
                ROp::DropHeld(k) => {
                    if !held.is_empty() {
                        let i = usize::from(*k) % held.len();
                        let h = held.remove(i);
                        drop_h(t, h, &mut log);
                    }
                }
                ROp::Send { to, k } => {
                    let to = u32::from(*to) % n;
                    if !held.is_empty() && to != t {
                        let i = usize::from(*k) % held.len();
                        let h = held.remove(i);
                        log.push(Ev::Moved { t, at: tracked::stamp(), to, inst: h.inst });
                        if let Err(back) = txs[to as usize].send(h) {
                            held.push(back.0);
                        }
                    }
                }
                ROp::Recv => {
                    while let Ok(h) = rx.try_recv() {
                        held.push(h);
                    }
                }
                ROp::Yield(k) => {
                    for _ in 0..*k {
                        std::thread::yield_now();
                    }
                }
                ROp::Rendezvous(id) => {
                    let c = &rv[usize::from(*id) % rv.len()];
                    // Relaxed: lines the threads up without ordering their memory accesses.
                    c.fetch_add(1, Ordering::Relaxed);
                    let mut spins = 0_u32;
                    while c.load(Ordering::Relaxed) < 2 && spins < 3000 {
                        std::thread::yield_now();
                        spins += 1;
                    }
                }
            }
        }
        if anchored {
            for h in held.drain(..) {
                drop_h(t, h, &mut log);
            }
            barrier(&sync[1], n);
            // what was sent to this thread after its script ended
            while let Ok(h) = rx.try_recv() {
                drop_h(t, h, &mut log);
            }
            barrier(&sync[2], n);
            if let Some(a) = anchor {
                drop_h(t, a, &mut log);
            }
        } else {
            // No clean-up discipline: a random half is dropped here, the rest (and whatever is
            // still in this thread's channel) is dropped by the main thread after the joins.
            let mut keep = Vec::new();
            for (i, h) in held.drain(..).enumerate() {
                if i % 2 == 0 {
                    drop_h(t, h, &mut log);
                } else {
                    keep.push(h);
                }
            }
            while let Ok(h) = rx.try_recv() {
                keep.push(h);
            }
            leftovers.lock().unwrap_or_else(std::sync::PoisonError::into_inner).extend(keep);
        }
        drop(wrapper);
        log
    }
}

impl Scenario for WraceScenario {
    fn generate(rng: &mut Rng, _mode: &str) -> Self {
        let n = rng.range_usize(2, 3);
        let anchored = avoiding(KEY_FOREIGN);
        if !anchored && rng.chance(1, 3) {
            // Directed shape: the last two references aligned to one instance are dropped by two
            // threads at the same moment (the count test and the map clean-up of a reference drop
            // must be atomic with respect to each other).
            // Several rounds per scenario: each round lines the two threads up again.
            let rounds = rng.range_usize(3, 7);
            let mut t0 = Vec::new();
            let mut t1 = Vec::new();
            for r in 0..rounds {
                let (a, b) = ((2 * r) as u8, (2 * r + 1) as u8);
                t0.extend([ROp::Acquire, ROp::CloneHeld(0), ROp::Send { to: 1, k: 1 }, ROp::Rendezvous(a), ROp::Rendezvous(b)]);
                t1.extend([ROp::Rendezvous(a), ROp::Recv, ROp::Rendezvous(b)]);
                for t in [&mut t0, &mut t1] {
                    if rng.chance(1, 3) {
                        t.push(ROp::Yield(rng.range(1, 2) as u8));
                    }
                    t.push(ROp::DropHeld(0));
                }
            }
            let mut threads = vec![t0, t1];
            if n == 3 {
                threads.push(vec![ROp::Acquire, ROp::Yield(2), ROp::DropHeld(0)]);
            }
            return Self { threads, anchored };
        }
        let threads = (0..n)
            .map(|_| {
                let len = rng.range_usize(2, 8);
                let mut s = vec![ROp::Acquire];
                for _ in 0..len {
                    s.push(match rng.weighted(&[3, 2, 2, 4, 4, 3, 2]) {
                        0 => ROp::Acquire,
                        1 => ROp::CloneHeld(rng.below(4) as u8),
                        2 => ROp::UseHeld(rng.below(4) as u8),
                        3 => ROp::DropHeld(rng.below(4) as u8),
                        4 => ROp::Send { to: rng.below(n as u64) as u8, k: rng.below(4) as u8 },
                        5 => ROp::Recv,
                        _ => ROp::Yield(rng.range(1, 4) as u8),
                    });
                }
                s
            })
            .collect();
        Self { threads, anchored: avoiding(KEY_FOREIGN) }
    }

    fn run(&self, ctx: &mut Ctx) -> Result<bool, Violation> {
        let n = self.threads.len();
        if !(1..=3).contains(&n) {
            return Ok(false);
        }
        tracked::reset_run();
        let first = Tracked::new(10_000);
        let family_tag = first.obs().tag;
        let wrapper = InstancePerThreadSync::new(first);
        let sync: Arc<[AtomicU32; 3]> = Arc::new([AtomicU32::new(0), AtomicU32::new(0), AtomicU32::new(0)]);
        let rv: Arc<[AtomicU32; 16]> = Arc::new([const { AtomicU32::new(0) }; 16]);
        if self.threads.iter().any(|s| s.iter().any(|o| matches!(o, ROp::Rendezvous(_)))) {
            ctx.probe("two-threads-lined-up-before-dropping");
        }
        let leftovers: Arc<Mutex<Vec<H>>> = Arc::new(Mutex::new(Vec::new()));
        let mut txs = Vec::new();
        let mut rxs = Vec::new();
        for _ in 0..n {
            let (tx, rx) = channel::<H>();
            txs.push(tx);
            rxs.push(rx);
        }
        let mut handles = Vec::new();
        for (t, rx) in rxs.into_iter().enumerate() {
            let script = self.threads[t].clone();
            let w = wrapper.clone();
            let txs = txs.clone();
            let sync = Arc::clone(&sync);
            let rv = Arc::clone(&rv);
            let leftovers = Arc::clone(&leftovers);
            let anchored = self.anchored;
            handles.push(std::thread::spawn(move || {
                Self::thread_body(t as u32, n as u32, &script, anchored, w, txs, rx, &sync, &rv, &leftovers)
            }));
        }
        drop(txs);
        let mut log: Vec<Ev> = Vec::new();
        let mut panicked = None;
        for h in handles {
            match h.join() {
                Ok(l) => log.extend(l),
                Err(p) => panicked = Some(simkit::panic_message(&p)),
            }
        }
        if let Some(msg) = panicked {
            let short: String = msg.chars().take(60).collect();
            return Err(Violation::new(&format!("thread-panicked: {short}"), format!("a thread panicked: {msg}")));
        }
        // Main thread (a foreign thread for every instance) drops what is left, then the wrapper.
        let rest = std::mem::take(&mut *leftovers.lock().unwrap_or_else(std::sync::PoisonError::into_inner));
        let main_dropped = rest.len();
        for h in rest {
            drop_h(tracked::MAIN_TID, h, &mut log);
        }
        let r = std::panic::catch_unwind(std::panic::AssertUnwindSafe(move || drop(wrapper)));
        if let Err(p) = r {
            let msg = simkit::panic_message(&p);
            let short: String = msg.chars().take(60).collect();
            return Err(Violation::new(&format!("wrapper-drop-panicked: {short}"), format!("dropping the last wrapper panicked: {msg}")));
        }

        log.sort_by_key(Ev::at);
        for e in &log {
            let code = match e {
                Ev::Acq { t, inst, .. } => simkit::mix(1, u64::from(*t) << 32 | inst),
                Ev::Life { t, inst, .. } => simkit::mix(2, u64::from(*t) << 32 | inst),
                Ev::Use { t, inst, .. } => simkit::mix(3, u64::from(*t) << 32 | inst),
                Ev::Moved { t, to, inst, .. } => simkit::mix(4, u64::from(*t) << 40 | u64::from(*to) << 32 | inst),
            };
            ctx.event(code, || format!("{e:?}"));
        }

        // ---- oracles ----------------------------------------------------------------------
        let mut foreign_drops = 0_u64;
        for e in &log {
            match e {
                Ev::Acq { t, inst, created_on, tag, .. } => {
                    check!(*tag == family_tag, "family-split", "thread {t}: instance {inst} carries family tag {tag}, wrapper family has {family_tag}");
                    check!(created_on == t, "created-on-wrong-thread", "thread {t} acquired instance {inst}, which was created on thread {created_on}");
                }
                Ev::Use { t, inst, seen, .. } => {
                    check!(inst == seen, "ref-points-to-wrong-instance", "thread {t}: reference to instance {inst} dereferenced to instance {seen}");
                }
                Ev::Life { t, origin, .. } => {
                    if t != origin {
                        foreign_drops += 1;
                    }
                }
                Ev::Moved { .. } => {}
            }
        }
        // A reference to instance X of thread T existed during the whole of an acquire on T:
        // that acquire must have returned X.
        for a in &log {
            let Ev::Acq { t, begin, end, inst, .. } = a else { continue };
            for l in &log {
                let Ev::Life { inst: x, origin, born, dying, .. } = l else { continue };
                if origin == t && x != inst && born < begin && end < dying {
                    return Err(Violation::new(
                        "second-live-instance-on-thread",
                        format!("thread {t} acquired instance {inst} during stamps [{begin},{end}] while a reference to its instance {x} existed during [{born},{dying}]"),
                    ));
                }
            }
        }
        // Exactly when the last reference goes: an instance must not be destroyed before the last
        // reference to it starts to be dropped, and must be destroyed in the end.
        let fams = tracked::families();
        for f in &fams {
            for i in f.instances() {
                let last_dying = log
                    .iter()
                    .filter_map(|e| match e {
                        Ev::Life { inst, dying, .. } if *inst == i.id => Some(*dying),
                        _ => None,
                    })
                    .max();
                check!(
                    !i.is_live(),
                    "instance-leak",
                    "instance {} (created on thread {}) is still alive after every reference and every wrapper was dropped",
                    i.id,
                    i.created_on
                );
                if let Some(ld) = last_dying {
                    let da = i.dropped_at.load(Ordering::Relaxed);
                    check!(
                        da > ld,
                        "instance-dropped-early",
                        "instance {} was destroyed at stamp {da}, before its last reference started to be dropped at stamp {ld}",
                        i.id
                    );
                }
            }
        }
        check!(tracked::double_drops() == 0, "double-drop", "an instance was destroyed twice");

        if foreign_drops > 0 {
            ctx.probe("ref-dropped-on-foreign-thread");
        }
        if main_dropped > 0 {
            ctx.probe("ref-dropped-by-main-thread");
        }
        if log.iter().any(|e| matches!(e, Ev::Moved { .. })) {
            ctx.probe("ref-moved-between-threads");
        }
        // two threads' acquires overlapped in stamp time
        let acqs: Vec<(u32, u64, u64)> = log
            .iter()
            .filter_map(|e| match e {
                Ev::Acq { t, begin, end, .. } => Some((*t, *begin, *end)),
                _ => None,
            })
            .collect();
        if acqs.iter().any(|a| acqs.iter().any(|b| a.0 != b.0 && a.1 < b.2 && b.1 < a.2)) {
            ctx.probe("acquires-overlapped");
        }
        let created = fams.iter().map(|f| f.instances().len()).sum::<usize>();
        if created > n + 1 {
            ctx.probe("instance-recreated");
        }
        Ok(foreign_drops > 0)
    }

    fn shrink(&self) -> Vec<Self> {
        let mut out = Vec::new();
        if self.threads.len() > 2 {
            for t in 0..self.threads.len() {
                let mut c = self.clone();
                c.threads.remove(t);
                out.push(c);
            }
        }
        for t in 0..self.threads.len() {
            for ops in simkit::shrink::remove_chunks(&self.threads[t]) {
                let mut c = self.clone();
                c.threads[t] = ops;
                out.push(c);
            }
        }
        out
    }

    fn size(&self) -> usize {
        self.threads.iter().map(|s| 3 + s.len()).sum()
    }
}
