//! A bank of macro-generated linked statics: 64 `linked::instances!`, 64 `linked::thread_local_rc!`
//! and 64 `linked::thread_local_arc!` variables, addressed by slot number
//! (`slot = kind * 64 + index`). Statics are process-global, so a scenario picks the slots it uses
//! and `reset()` clears the library's global registry (doc-hidden
//! `__private_clear_linked_variables_global`) and the harness-side configuration before every run;
//! the per-thread registries and the `thread_local!` storage of the rc/arc forms are fresh because
//! every scenario uses fresh threads and the harness main thread never touches a static.
//!
//! The first-instance expression of every static is `init(kind, index)`: it counts the run, performs
//! the nested accesses the current scenario configured for that slot (this is how dependency graphs
//! of initialisers are built at run time although the expression itself is fixed at compile time)
//! and returns `Tracked::new(slot)`, which stamps a fresh family tag.

use std::cell::Cell;
use std::rc::Rc;
use std::sync::atomic::{AtomicU32, AtomicU64, Ordering};
use std::sync::{Arc, Mutex};

use crate::tracked::{Obs, Tracked, tid};

pub const PER_KIND: u32 = 64;
pub const SLOTS: usize = 192;
pub const KIND_I: u32 = 0;
pub const KIND_R: u32 = 1;
pub const KIND_A: u32 = 2;

#[must_use]
pub fn kind_of(slot: u32) -> u32 {
    slot / PER_KIND
}

#[must_use]
pub fn kind_name(slot: u32) -> &'static str {
    match kind_of(slot) {
        KIND_I => "instances",
        KIND_R => "thread_local_rc",
        _ => "thread_local_arc",
    }
}

/// Something obtained from a static and kept by a thread.
pub enum Held {
    Inst(Tracked),
    Rc(Rc<Tracked>),
    Arc(Arc<Tracked>),
}

static DEPS: [AtomicU64; SLOTS] = [const { AtomicU64::new(0) }; SLOTS];
static INIT_RUNS: [AtomicU32; SLOTS] = [const { AtomicU32::new(0) }; SLOTS];
static MAX_DEPTH: AtomicU32 = AtomicU32::new(0);

/// Observation made by an initialiser of one of its dependencies.
#[derive(Debug, Clone, Copy)]
pub struct InitObs {
    pub outer: u32,
    pub dep: u32,
    pub obs: Obs,
    pub tid: u32,
    pub stamp: u64,
}

static INIT_OBS: Mutex<Vec<InitObs>> = Mutex::new(Vec::new());

thread_local! {
    static DEPTH: Cell<u32> = const { Cell::new(0) };
}

/// One dependency of an initialiser: which slot, and whether rc/arc statics are reached through
/// `.to_rc()`/`.to_arc()` (true) or `.with()` (false).
#[derive(Debug, Clone, Copy)]
pub struct Dep {
    pub slot: u32,
    pub via_handle: bool,
}

fn encode(d: Dep) -> u64 {
    u64::from(d.slot + 1) | (u64::from(d.via_handle) << 12)
}

/// Configures what the initialiser of `slot` touches (at most two dependencies).
pub fn set_deps(slot: u32, deps: &[Dep]) {
    let mut v = 0_u64;
    for (i, d) in deps.iter().take(2).enumerate() {
        v |= encode(*d) << (16 * i);
    }
    DEPS[slot as usize].store(v, Ordering::Relaxed);
}

#[must_use]
pub fn init_runs(slot: u32) -> u32 {
    INIT_RUNS[slot as usize].load(Ordering::Relaxed)
}

#[must_use]
pub fn max_depth() -> u32 {
    MAX_DEPTH.load(Ordering::Relaxed)
}

#[must_use]
pub fn init_observations() -> Vec<InitObs> {
    INIT_OBS.lock().unwrap_or_else(std::sync::PoisonError::into_inner).clone()
}

/// Clears the library's global registry and the harness-side per-slot state.
pub fn reset() {
    linked::__private_clear_linked_variables_global();
    for s in 0..SLOTS {
        DEPS[s].store(0, Ordering::Relaxed);
        INIT_RUNS[s].store(0, Ordering::Relaxed);
    }
    MAX_DEPTH.store(0, Ordering::Relaxed);
    INIT_OBS.lock().unwrap_or_else(std::sync::PoisonError::into_inner).clear();
}

/// The first-instance expression of every static of the bank.
#[must_use]
pub fn init(kind: u32, index: u32) -> Tracked {
    let slot = kind * PER_KIND + index;
    INIT_RUNS[slot as usize].fetch_add(1, Ordering::Relaxed);
    let depth = DEPTH.with(|d| {
        d.set(d.get() + 1);
        d.get()
    });
    MAX_DEPTH.fetch_max(depth, Ordering::Relaxed);
    let cfg = DEPS[slot as usize].load(Ordering::Relaxed);
    for i in 0..2 {
        let e = (cfg >> (16 * i)) & 0xFFFF;
        if e == 0 {
            continue;
        }
        let dep = ((e & 0xFFF) - 1) as u32;
        let via_handle = (e >> 12) & 1 == 1;
        // The nested access: an initialiser that uses another linked static.
        let (obs, held) = touch(dep, via_handle, false);
        drop(held);
        INIT_OBS
            .lock()
            .unwrap_or_else(std::sync::PoisonError::into_inner)
            .push(InitObs { outer: slot, dep, obs, tid: tid(), stamp: crate::tracked::stamp() });
    }
    DEPTH.with(|d| d.set(d.get() - 1));
    Tracked::new(slot)
}

/// Accesses the static in `slot` on the current thread. `instances!`: `.get()`; rc/arc forms:
/// `.with()` or (`via_handle`) `.to_rc()` / `.to_arc()`. Returns what was observed and, if `hold`,
/// the object obtained (instance / `Rc` / `Arc`).
pub fn touch(slot: u32, via_handle: bool, hold: bool) -> (Obs, Option<Held>) {
    let idx = (slot % PER_KIND) as usize;
    match kind_of(slot) {
        KIND_I => {
            let inst = GET_I[idx]();
            let obs = inst.obs();
            (obs, hold.then(|| Held::Inst(inst)))
        }
        KIND_R => {
            if via_handle || hold {
                let rc = TO_RC[idx]();
                let obs = rc.obs();
                (obs, hold.then(|| Held::Rc(rc)))
            } else {
                (WITH_R[idx](), None)
            }
        }
        _ => {
            if via_handle || hold {
                let arc = TO_ARC[idx]();
                let obs = arc.obs();
                (obs, hold.then(|| Held::Arc(arc)))
            } else {
                (WITH_A[idx](), None)
            }
        }
    }
}

macro_rules! bank_instances {
    ($($name:ident = $idx:expr),* $(,)?) => {
        linked::instances! {
            $( static $name: Tracked = crate::bank::init(crate::bank::KIND_I, $idx); )*
        }
        static GET_I: [fn() -> Tracked; 64] = [ $( || $name.get() ),* ];
    };
}

macro_rules! bank_rc {
    ($($name:ident = $idx:expr),* $(,)?) => {
        linked::thread_local_rc! {
            $( static $name: Tracked = crate::bank::init(crate::bank::KIND_R, $idx); )*
        }
        static TO_RC: [fn() -> Rc<Tracked>; 64] = [ $( || $name.to_rc() ),* ];
        static WITH_R: [fn() -> Obs; 64] = [ $( || $name.with(|x| x.obs()) ),* ];
    };
}

macro_rules! bank_arc {
    ($($name:ident = $idx:expr),* $(,)?) => {
        linked::thread_local_arc! {
            $( static $name: Tracked = crate::bank::init(crate::bank::KIND_A, $idx); )*
        }
        static TO_ARC: [fn() -> Arc<Tracked>; 64] = [ $( || $name.to_arc() ),* ];
        static WITH_A: [fn() -> Obs; 64] = [ $( || $name.with(|x| x.obs()) ),* ];
    };
}

bank_instances!(
        SI00 = 0, SI01 = 1, SI02 = 2, SI03 = 3, SI04 = 4, SI05 = 5, SI06 = 6, SI07 = 7,
        SI08 = 8, SI09 = 9, SI10 = 10, SI11 = 11, SI12 = 12, SI13 = 13, SI14 = 14, SI15 = 15,
        SI16 = 16, SI17 = 17, SI18 = 18, SI19 = 19, SI20 = 20, SI21 = 21, SI22 = 22, SI23 = 23,
        SI24 = 24, SI25 = 25, SI26 = 26, SI27 = 27, SI28 = 28, SI29 = 29, SI30 = 30, SI31 = 31,
        SI32 = 32, SI33 = 33, SI34 = 34, SI35 = 35, SI36 = 36, SI37 = 37, SI38 = 38, SI39 = 39,
        SI40 = 40, SI41 = 41, SI42 = 42, SI43 = 43, SI44 = 44, SI45 = 45, SI46 = 46, SI47 = 47,
        SI48 = 48, SI49 = 49, SI50 = 50, SI51 = 51, SI52 = 52, SI53 = 53, SI54 = 54, SI55 = 55,
        SI56 = 56, SI57 = 57, SI58 = 58, SI59 = 59, SI60 = 60, SI61 = 61, SI62 = 62, SI63 = 63
);

bank_rc!(
        SR00 = 0, SR01 = 1, SR02 = 2, SR03 = 3, SR04 = 4, SR05 = 5, SR06 = 6, SR07 = 7,
        SR08 = 8, SR09 = 9, SR10 = 10, SR11 = 11, SR12 = 12, SR13 = 13, SR14 = 14, SR15 = 15,
        SR16 = 16, SR17 = 17, SR18 = 18, SR19 = 19, SR20 = 20, SR21 = 21, SR22 = 22, SR23 = 23,
        SR24 = 24, SR25 = 25, SR26 = 26, SR27 = 27, SR28 = 28, SR29 = 29, SR30 = 30, SR31 = 31,
        SR32 = 32, SR33 = 33, SR34 = 34, SR35 = 35, SR36 = 36, SR37 = 37, SR38 = 38, SR39 = 39,
        SR40 = 40, SR41 = 41, SR42 = 42, SR43 = 43, SR44 = 44, SR45 = 45, SR46 = 46, SR47 = 47,
        SR48 = 48, SR49 = 49, SR50 = 50, SR51 = 51, SR52 = 52, SR53 = 53, SR54 = 54, SR55 = 55,
        SR56 = 56, SR57 = 57, SR58 = 58, SR59 = 59, SR60 = 60, SR61 = 61, SR62 = 62, SR63 = 63
);

bank_arc!(
        SA00 = 0, SA01 = 1, SA02 = 2, SA03 = 3, SA04 = 4, SA05 = 5, SA06 = 6, SA07 = 7,
        SA08 = 8, SA09 = 9, SA10 = 10, SA11 = 11, SA12 = 12, SA13 = 13, SA14 = 14, SA15 = 15,
        SA16 = 16, SA17 = 17, SA18 = 18, SA19 = 19, SA20 = 20, SA21 = 21, SA22 = 22, SA23 = 23,
        SA24 = 24, SA25 = 25, SA26 = 26, SA27 = 27, SA28 = 28, SA29 = 29, SA30 = 30, SA31 = 31,
        SA32 = 32, SA33 = 33, SA34 = 34, SA35 = 35, SA36 = 36, SA37 = 37, SA38 = 38, SA39 = 39,
        SA40 = 40, SA41 = 41, SA42 = 42, SA43 = 43, SA44 = 44, SA45 = 45, SA46 = 46, SA47 = 47,
        SA48 = 48, SA49 = 49, SA50 = 50, SA51 = 51, SA52 = 52, SA53 = 53, SA54 = 54, SA55 = 55,
        SA56 = 56, SA57 = 57, SA58 = 58, SA59 = 59, SA60 = 60, SA61 = 61, SA62 = 62, SA63 = 63
);
