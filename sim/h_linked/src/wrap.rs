//! Programs over `InstancePerThread` / `InstancePerThreadSync` on the op-granular coordinator:
//! acquire, clone a reference, use it, drop it — on the origin thread or (Sync form: what safe code
//! can do) on any other thread —, clone / drop the wrapper, let a thread exit. A reference model is
//! compared with the instance creation/destruction log after every operation.

use std::cell::RefCell;
use std::collections::{BTreeMap, BTreeSet};
use std::sync::{Arc, Mutex};

use linked::{InstancePerThread, InstancePerThreadSync, Ref, RefSync};
use serde::{Deserialize, Serialize};
use simkit::coord::{Coordinator, ExecError};
use simkit::{Ctx, Rng, Scenario, Violation};

use crate::tracked::{self, Obs, Tracked};
use crate::{KEY_FOREIGN, avoiding};

#[derive(Clone, Debug, Serialize, Deserialize, PartialEq)]
pub enum WOp {
    Acquire { t: u8, w: u16, r: u16 },
    CloneRef { t: u8, src: u16, r: u16 },
    UseRef { t: u8, r: u16 },
    DropRef { t: u8, r: u16 },
    CloneWrapper { t: u8, src: u16, w: u16 },
    DropWrapper { t: u8, w: u16 },
    ExitThread { t: u8 },
}

impl WOp {
    fn thread(&self) -> u8 {
        match self {
            WOp::Acquire { t, .. }
            | WOp::CloneRef { t, .. }
            | WOp::UseRef { t, .. }
            | WOp::DropRef { t, .. }
            | WOp::CloneWrapper { t, .. }
            | WOp::DropWrapper { t, .. }
            | WOp::ExitThread { t } => *t,
        }
    }
}

#[derive(Clone, Debug, Serialize, Deserialize)]
pub struct WrapScenario {
    pub n_threads: u8,
    /// One entry per wrapper family: `true` = `InstancePerThreadSync`, `false` = `InstancePerThread`.
    /// Wrapper handle `f` is the original wrapper of family `f`.
    pub families: Vec<bool>,
    pub ops: Vec<WOp>,
    /// Final clean-up drops the remaining wrappers before (true) or after the remaining references.
    pub wrappers_first: bool,
    /// Directed known-finding programs: keep executing after a violation and report the one whose
    /// class starts with this (the defect shows as several symptoms along one program).
    pub symptom: Option<String>,
    /// The program may drop the last reference aligned to an instance on a foreign thread.
    pub foreign_last_drop: bool,
}

enum Wrapper {
    Local(InstancePerThread<Tracked>),
    Sync(InstancePerThreadSync<Tracked>),
}

#[derive(Default)]
struct Shared {
    wrappers: BTreeMap<u16, Wrapper>,
    sync_refs: BTreeMap<u16, RefSync<Tracked>>,
}

thread_local! {
    // `Ref` is !Send: references of the single-threaded form live on the thread that made them
    // and die with it (thread-local destructor) if the program does not drop them earlier.
    static LOCAL_REFS: RefCell<BTreeMap<u16, Ref<Tracked>>> = const { RefCell::new(BTreeMap::new()) };
}

fn lock(m: &Mutex<Shared>) -> std::sync::MutexGuard<'_, Shared> {
    m.lock().unwrap_or_else(std::sync::PoisonError::into_inner)
}

struct MRef {
    fam: usize,
    origin: u8,
    inst: u64,
}

struct MFam {
    sync: bool,
    tag: u64,
    wrappers: BTreeSet<u16>,
    /// thread -> (instance id, references aligned to it)
    per_thread: BTreeMap<u8, (u64, BTreeSet<u16>)>,
}

struct Exec<'a> {
    sc: &'a WrapScenario,
    coord: Coordinator,
    shared: Arc<Mutex<Shared>>,
    alive: Vec<bool>,
    fams: Vec<MFam>,
    refs: BTreeMap<u16, MRef>,
    wrapper_fam: BTreeMap<u16, usize>,
    seen_ids: BTreeSet<u64>,
    viols: Vec<Violation>,
    foreign_drops: u64,
    foreign_last_drops: u64,
}

type R = Result<(), Violation>;

impl Exec<'_> {
    /// Records a violation; returns `Err` unless the scenario asks to keep going.
    fn vio(&mut self, class: &str, detail: String) -> R {
        let v = Violation::new(class, detail);
        if self.sc.symptom.is_none() {
            return Err(v);
        }
        if !self.viols.iter().any(|x| x.class == v.class) {
            self.viols.push(v);
        }
        Ok(())
    }

    fn run_on<T: Send + 'static>(
        &mut self,
        t: u8,
        what: &str,
        f: impl FnOnce() -> T + Send + 'static,
    ) -> Result<Option<T>, Violation> {
        match self.coord.exec(usize::from(t), f) {
            Ok(v) => Ok(Some(v)),
            Err(ExecError::Panicked(msg)) => {
                let short: String = msg.chars().take(60).collect();
                self.vio(&format!("op-panicked: {short}"), format!("{what} on thread {t} panicked: {msg}"))?;
                Ok(None)
            }
            Err(ExecError::Blocked) => Err(Violation::new("op-blocked", format!("{what} on thread {t} did not return"))),
            Err(ExecError::Dead) => Err(Violation::new("harness-bookkeeping", format!("{what}: thread {t} is gone"))),
        }
    }

    /// Compares the creation/destruction log with the model.
    fn sweep(&mut self, after: &str) -> R {
        let mut should_live: BTreeSet<u64> = BTreeSet::new();
        for f in &self.fams {
            for (id, _) in f.per_thread.values() {
                should_live.insert(*id);
            }
        }
        let mut problems: Vec<(String, String)> = Vec::new();
        for fam in tracked::families() {
            let mut live_per_thread: BTreeMap<u32, Vec<u64>> = BTreeMap::new();
            for i in fam.instances() {
                let live = i.is_live();
                if live {
                    live_per_thread.entry(i.created_on).or_default().push(i.id);
                }
                if live && !should_live.contains(&i.id) {
                    problems.push((
                        "instance-outlived-last-ref".into(),
                        format!(
                            "after {after}: instance {} of wrapper family {} (created on thread {}) is still alive although every reference aligned to it has been dropped",
                            i.id,
                            fam.owner - 10_000,
                            i.created_on
                        ),
                    ));
                }
                if !live && should_live.contains(&i.id) {
                    problems.push((
                        "instance-dropped-early".into(),
                        format!(
                            "after {after}: instance {} of wrapper family {} was destroyed (on thread {}) while references aligned to it exist",
                            i.id,
                            fam.owner - 10_000,
                            i.dropped_on()
                        ),
                    ));
                }
            }
            for (t, ids) in live_per_thread {
                if ids.len() > 1 {
                    problems.insert(
                        0,
                        (
                            "second-live-instance-on-thread".into(),
                            format!(
                                "after {after}: wrapper family {} has {} live instances created on thread {t}: {ids:?}",
                                fam.owner - 10_000,
                                ids.len()
                            ),
                        ),
                    );
                }
            }
        }
        if tracked::double_drops() > 0 {
            problems.push(("double-drop".into(), format!("after {after}: an instance was destroyed twice")));
        }
        for (c, d) in problems {
            self.vio(&c, d)?;
        }
        Ok(())
    }

    fn check_obs(&mut self, what: &str, t: u8, fam: usize, expect_inst: Option<u64>, fresh_on: Option<u8>, obs: Obs) -> R {
        let tag = self.fams[fam].tag;
        if obs.tag != tag || obs.owner != 10_000 + fam as u32 {
            self.vio(
                "family-split",
                format!("{what} on thread {t}: instance {} carries family tag {} (owner {}), the wrapper's family has tag {tag}", obs.inst, obs.tag, obs.owner),
            )?;
        }
        if let Some(e) = expect_inst {
            if obs.inst != e {
                let class = if fresh_on.is_none() { "ref-points-to-wrong-instance" } else { "second-live-instance-on-thread" };
                self.vio(class, format!("{what} on thread {t}: got instance {} but the thread's live instance is {e}", obs.inst))?;
            }
        } else if let Some(th) = fresh_on {
            if self.seen_ids.contains(&obs.inst) {
                self.vio(
                    "stale-instance-reused",
                    format!("{what} on thread {t}: no reference aligned to thread {th} existed, yet acquire returned the old instance {} instead of a new one", obs.inst),
                )?;
            }
            if obs.created_on != u32::from(th) {
                self.vio(
                    "created-on-wrong-thread",
                    format!("{what} on thread {t}: new instance {} was created on thread {}", obs.inst, obs.created_on),
                )?;
            }
        }
        self.seen_ids.insert(obs.inst);
        Ok(())
    }

    fn model_drop_ref(&mut self, r: u16) {
        if let Some(m) = self.refs.remove(&r) {
            let fam = &mut self.fams[m.fam];
            let mut gone = false;
            if let Some((id, set)) = fam.per_thread.get_mut(&m.origin) {
                if *id == m.inst {
                    set.remove(&r);
                    gone = set.is_empty();
                }
            }
            if gone {
                fam.per_thread.remove(&m.origin);
            }
        }
    }

    fn is_last(&self, r: u16) -> bool {
        self.refs.get(&r).is_some_and(|m| {
            self.fams[m.fam].per_thread.get(&m.origin).is_some_and(|(id, set)| *id == m.inst && set.len() == 1)
        })
    }

    fn drop_ref(&mut self, ctx: &mut Ctx, t: u8, r: u16, what: &str) -> R {
        let Some(m) = self.refs.get(&r) else { return Ok(()) };
        let (fam, origin) = (m.fam, m.origin);
        let sync = self.fams[fam].sync;
        if !sync && t != origin {
            return Ok(());
        }
        let last = self.is_last(r);
        if t != origin {
            if last && !self.sc.foreign_last_drop {
                return Ok(()); // not generated while the known finding is avoided
            }
            self.foreign_drops += 1;
            if last {
                self.foreign_last_drops += 1;
            }
        }
        let shared = Arc::clone(&self.shared);
        self.run_on(t, what, move || {
            if sync {
                let x = lock(&shared).sync_refs.remove(&r);
                drop(x);
            } else {
                let x = LOCAL_REFS.with_borrow_mut(|m| m.remove(&r));
                drop(x);
            }
        })?;
        ctx.event(simkit::mix(0xD0, u64::from(t) << 20 | u64::from(r) << 1 | u64::from(last)), || {
            format!("thread {t}: {what} r{r} (aligned to thread {origin}, {})", if last { "last reference" } else { "not last" })
        });
        self.model_drop_ref(r);
        Ok(())
    }

    fn step(&mut self, ctx: &mut Ctx, i: usize, op: &WOp) -> R {
        let t = op.thread();
        if usize::from(t) >= self.alive.len() || !self.alive[usize::from(t)] {
            return Ok(());
        }
        let what = format!("op {i} {op:?}");
        match *op {
            WOp::Acquire { w, r, .. } => {
                let Some(&fam) = self.wrapper_fam.get(&w) else { return Ok(()) };
                if self.refs.contains_key(&r) {
                    return Ok(());
                }
                let sync = self.fams[fam].sync;
                let shared = Arc::clone(&self.shared);
                let obs = self.run_on(t, &what, move || {
                    let mut g = lock(&shared);
                    match g.wrappers.get(&w) {
                        Some(Wrapper::Sync(x)) => {
                            let rf = x.acquire();
                            let o = rf.obs();
                            g.sync_refs.insert(r, rf);
                            Some(o)
                        }
                        Some(Wrapper::Local(x)) => {
                            let rf = x.acquire();
                            let o = rf.obs();
                            drop(g);
                            LOCAL_REFS.with_borrow_mut(|m| m.insert(r, rf));
                            Some(o)
                        }
                        None => None,
                    }
                })?;
                let Some(Some(obs)) = obs else { return Ok(()) };
                let existing = self.fams[fam].per_thread.get(&t).map(|(id, _)| *id);
                ctx.event(simkit::mix(0xA0 + u64::from(sync), u64::from(t) << 40 | u64::from(r) << 20 | obs.inst), || {
                    format!("thread {t}: acquire via w{w} -> r{r} = instance {} (created on {}, family tag {})", obs.inst, obs.created_on, obs.tag)
                });
                self.check_obs(&what, t, fam, existing, Some(t), obs)?;
                if existing.is_none() {
                    ctx.probe("instance-created");
                    if self.seen_ids.len() > 1 && self.fams[fam].per_thread.is_empty() {
                        ctx.probe("instance-recreated-after-all-dropped");
                    }
                }
                let entry = self.fams[fam].per_thread.entry(t).or_insert((obs.inst, BTreeSet::new()));
                if existing.is_none() {
                    entry.0 = obs.inst;
                }
                let inst = entry.0;
                entry.1.insert(r);
                self.refs.insert(r, MRef { fam, origin: t, inst });
            }
            WOp::CloneRef { src, r, .. } => {
                let Some(m) = self.refs.get(&src) else { return Ok(()) };
                if self.refs.contains_key(&r) {
                    return Ok(());
                }
                let (fam, origin, inst) = (m.fam, m.origin, m.inst);
                let sync = self.fams[fam].sync;
                if !sync && t != origin {
                    return Ok(());
                }
                let shared = Arc::clone(&self.shared);
                let obs = self.run_on(t, &what, move || {
                    if sync {
                        let mut g = lock(&shared);
                        let c = g.sync_refs.get(&src).map(Clone::clone);
                        c.map(|c| {
                            let o = c.obs();
                            g.sync_refs.insert(r, c);
                            o
                        })
                    } else {
                        LOCAL_REFS.with_borrow_mut(|m| {
                            let c = m.get(&src).map(Clone::clone);
                            c.map(|c| {
                                let o = c.obs();
                                m.insert(r, c);
                                o
                            })
                        })
                    }
                })?;
                let Some(Some(obs)) = obs else { return Ok(()) };
                ctx.event(simkit::mix(0xC0, u64::from(t) << 40 | u64::from(r) << 20 | obs.inst), || {
                    format!("thread {t}: clone r{src} -> r{r} = instance {} (aligned to thread {origin})", obs.inst)
                });
                if t != origin {
                    ctx.probe("ref-cloned-on-foreign-thread");
                }
                self.check_obs(&what, t, fam, Some(inst), None, obs)?;
                if let Some((id, set)) = self.fams[fam].per_thread.get_mut(&origin) {
                    if *id == inst {
                        set.insert(r);
                    }
                }
                self.refs.insert(r, MRef { fam, origin, inst });
            }
            WOp::UseRef { r, .. } => {
                let Some(m) = self.refs.get(&r) else { return Ok(()) };
                let (fam, origin, inst) = (m.fam, m.origin, m.inst);
                let sync = self.fams[fam].sync;
                if !sync && t != origin {
                    return Ok(());
                }
                let shared = Arc::clone(&self.shared);
                let obs = self.run_on(t, &what, move || {
                    if sync {
                        lock(&shared).sync_refs.get(&r).map(|x| x.obs())
                    } else {
                        LOCAL_REFS.with_borrow(|m| m.get(&r).map(|x| x.obs()))
                    }
                })?;
                let Some(Some(obs)) = obs else { return Ok(()) };
                ctx.event(simkit::mix(0xB0, u64::from(t) << 40 | u64::from(r) << 20 | obs.inst), || {
                    format!("thread {t}: use r{r} -> instance {} (aligned to thread {origin})", obs.inst)
                });
                if t != origin {
                    ctx.probe("ref-used-on-foreign-thread");
                }
                self.check_obs(&what, t, fam, Some(inst), None, obs)?;
            }
            WOp::DropRef { r, .. } => {
                self.drop_ref(ctx, t, r, "drop")?;
            }
            WOp::CloneWrapper { src, w, .. } => {
                let Some(&fam) = self.wrapper_fam.get(&src) else { return Ok(()) };
                if self.wrapper_fam.contains_key(&w) {
                    return Ok(());
                }
                let shared = Arc::clone(&self.shared);
                self.run_on(t, &what, move || {
                    let mut g = lock(&shared);
                    let c = match g.wrappers.get(&src) {
                        Some(Wrapper::Sync(x)) => Some(Wrapper::Sync(x.clone())),
                        Some(Wrapper::Local(x)) => Some(Wrapper::Local(x.clone())),
                        None => None,
                    };
                    if let Some(c) = c {
                        g.wrappers.insert(w, c);
                    }
                })?;
                ctx.event(simkit::mix(0xE0, u64::from(t) << 20 | u64::from(w)), || format!("thread {t}: clone wrapper w{src} -> w{w}"));
                self.wrapper_fam.insert(w, fam);
                self.fams[fam].wrappers.insert(w);
            }
            WOp::DropWrapper { w, .. } => {
                let Some(&fam) = self.wrapper_fam.get(&w) else { return Ok(()) };
                let shared = Arc::clone(&self.shared);
                self.run_on(t, &what, move || {
                    let x = lock(&shared).wrappers.remove(&w);
                    drop(x);
                })?;
                ctx.event(simkit::mix(0xE1, u64::from(t) << 20 | u64::from(w)), || format!("thread {t}: drop wrapper w{w}"));
                self.wrapper_fam.remove(&w);
                self.fams[fam].wrappers.remove(&w);
                if self.fams[fam].wrappers.is_empty() && !self.fams[fam].per_thread.is_empty() {
                    ctx.probe("last-wrapper-dropped-while-refs-alive");
                }
            }
            WOp::ExitThread { .. } => {
                if self.alive.iter().filter(|a| **a).count() <= 1 {
                    return Ok(());
                }
                self.exit_thread(ctx, t)?;
            }
        }
        self.sweep(&what)
    }

    fn exit_thread(&mut self, ctx: &mut Ctx, t: u8) -> R {
        // Sync references aligned to `t` would have to be dropped on a foreign thread later on:
        // unless the program may do that, they are dropped here, on `t`, first.
        if !self.sc.foreign_last_drop {
            let mine: Vec<u16> = self
                .refs
                .iter()
                .filter(|(_, m)| m.origin == t && self.fams[m.fam].sync)
                .map(|(r, _)| *r)
                .collect();
            for r in mine {
                self.drop_ref(ctx, t, r, "drop before thread exit")?;
            }
        }
        let had_local = self.refs.values().any(|m| m.origin == t && !self.fams[m.fam].sync);
        match self.coord.exit_thread(usize::from(t)) {
            Ok(()) => {}
            Err(ExecError::Panicked(msg)) => {
                self.vio("thread-exit-panicked", format!("thread {t} panicked while exiting: {msg}"))?;
            }
            Err(_) => return Err(Violation::new("op-blocked", format!("thread {t} did not exit"))),
        }
        self.alive[usize::from(t)] = false;
        ctx.event(simkit::mix(0xF0, u64::from(t)), || format!("thread {t} exits"));
        if had_local {
            ctx.probe("thread-exit-dropped-local-refs");
        }
        // References of the single-threaded form died with the thread.
        let local: Vec<u16> = self
            .refs
            .iter()
            .filter(|(_, m)| m.origin == t && !self.fams[m.fam].sync)
            .map(|(r, _)| *r)
            .collect();
        for r in local {
            self.model_drop_ref(r);
        }
        if self.refs.values().any(|m| m.origin == t) {
            ctx.probe("sync-ref-outlived-its-origin-thread");
        }
        Ok(())
    }

    fn first_alive(&self) -> u8 {
        self.alive.iter().position(|a| *a).unwrap_or(0) as u8
    }

    fn cleanup(&mut self, ctx: &mut Ctx) -> R {
        for phase in 0..2 {
            let wrappers_now = (phase == 0) == self.sc.wrappers_first;
            if wrappers_now {
                let ws: Vec<u16> = self.wrapper_fam.keys().copied().collect();
                for w in ws {
                    let t = self.first_alive();
                    let op = WOp::DropWrapper { t, w };
                    self.step(ctx, 10_000, &op)?;
                }
            } else {
                let rs: Vec<(u16, u8)> = self.refs.iter().map(|(r, m)| (*r, m.origin)).collect();
                for (r, origin) in rs {
                    let t = if self.alive[usize::from(origin)] { origin } else { self.first_alive() };
                    let op = WOp::DropRef { t, r };
                    self.step(ctx, 10_001, &op)?;
                }
            }
        }
        for t in 0..self.alive.len() {
            if self.alive[t] {
                match self.coord.exit_thread(t) {
                    Ok(()) => {}
                    Err(ExecError::Panicked(msg)) => {
                        self.vio("thread-exit-panicked", format!("thread {t} panicked while exiting: {msg}"))?;
                    }
                    Err(_) => return Err(Violation::new("op-blocked", format!("thread {t} did not exit"))),
                }
                self.alive[t] = false;
            }
        }
        let leftover: Vec<u16> = self.refs.keys().copied().collect();
        if !leftover.is_empty() {
            // only possible when clean-up was not allowed to drop on a foreign thread
            return Err(Violation::new("harness-bookkeeping", format!("references {leftover:?} could not be dropped")));
        }
        self.sweep("final clean-up")
    }
}

impl WrapScenario {
    fn directed_foreign(rng: &mut Rng) -> Self {
        let sym = rng.below(4);
        let a = rng.below(2) as u8;
        let b = 1 - a;
        let (ops, symptom) = match sym {
            0 => (
                vec![WOp::Acquire { t: a, w: 0, r: 0 }, WOp::DropRef { t: b, r: 0 }],
                "instance-outlived-last-ref",
            ),
            1 => (
                vec![
                    WOp::Acquire { t: a, w: 0, r: 0 },
                    WOp::Acquire { t: b, w: 0, r: 1 },
                    WOp::DropRef { t: b, r: 0 },
                    WOp::Acquire { t: b, w: 0, r: 2 },
                ],
                "second-live-instance-on-thread",
            ),
            2 => (
                vec![
                    WOp::Acquire { t: a, w: 0, r: 0 },
                    WOp::DropRef { t: b, r: 0 },
                    WOp::DropWrapper { t: a, w: 0 },
                ],
                "op-panicked",
            ),
            _ => (
                vec![
                    WOp::Acquire { t: a, w: 0, r: 0 },
                    WOp::DropRef { t: b, r: 0 },
                    WOp::Acquire { t: a, w: 0, r: 1 },
                ],
                "stale-instance-reused",
            ),
        };
        Self {
            n_threads: 2,
            families: vec![true],
            ops,
            wrappers_first: false,
            symptom: Some(symptom.to_owned()),
            foreign_last_drop: true,
        }
    }

    fn generate_random(rng: &mut Rng, small: bool) -> Self {
        let nt = if small { rng.range(2, 3) } else { rng.range(2, 5) } as u8;
        let nf = rng.range_usize(1, 2);
        let families: Vec<bool> = (0..nf).map(|f| f == 0 && (small || rng.chance(5, 6)) || rng.chance(1, 2)).collect();
        let foreign_last_drop = !avoiding(KEY_FOREIGN);
        let n_ops = if small { rng.range_usize(4, 12) } else { rng.range_usize(4, 36) };
        let mut alive = vec![true; usize::from(nt)];
        let mut wrappers: Vec<(u16, usize)> = (0..nf).map(|f| (f as u16, f)).collect();
        // (handle, family, origin)
        let mut refs: Vec<(u16, usize, u8)> = Vec::new();
        let mut next_w = nf as u16;
        let mut next_r = 0_u16;
        let mut ops = Vec::new();
        let pick_alive = |rng: &mut Rng, alive: &Vec<bool>| -> u8 {
            let a: Vec<u8> = (0..alive.len() as u8).filter(|t| alive[usize::from(*t)]).collect();
            *rng.pick(&a)
        };
        let count_aligned = |refs: &Vec<(u16, usize, u8)>, fam: usize, origin: u8| refs.iter().filter(|x| x.1 == fam && x.2 == origin).count();
        let mut attempts = 0;
        while ops.len() < n_ops && attempts < 400 {
            attempts += 1;
            match rng.weighted(&[7, 3, 3, 7, 1, 1, 1]) {
                0 => {
                    if wrappers.is_empty() {
                        continue;
                    }
                    let (w, fam) = *rng.pick(&wrappers);
                    let t = pick_alive(rng, &alive);
                    ops.push(WOp::Acquire { t, w, r: next_r });
                    refs.push((next_r, fam, t));
                    next_r += 1;
                }
                k @ (1 | 2) => {
                    if refs.is_empty() {
                        continue;
                    }
                    let (r, fam, origin) = *rng.pick(&refs);
                    let t = if families[fam] && rng.chance(2, 3) { pick_alive(rng, &alive) } else { origin };
                    if !alive[usize::from(t)] {
                        continue;
                    }
                    if k == 1 {
                        ops.push(WOp::CloneRef { t, src: r, r: next_r });
                        refs.push((next_r, fam, origin));
                        next_r += 1;
                    } else {
                        ops.push(WOp::UseRef { t, r });
                    }
                }
                3 => {
                    if refs.is_empty() {
                        continue;
                    }
                    let i = rng.below_usize(refs.len());
                    let (r, fam, origin) = refs[i];
                    let mut t = if families[fam] && rng.chance(2, 3) { pick_alive(rng, &alive) } else { origin };
                    let last = count_aligned(&refs, fam, origin) == 1;
                    if t != origin && last && !foreign_last_drop {
                        // known finding c12-refsync-foreign-thread-drop: not generated
                        t = origin;
                    }
                    if !alive[usize::from(t)] {
                        continue;
                    }
                    ops.push(WOp::DropRef { t, r });
                    refs.remove(i);
                }
                4 => {
                    if wrappers.is_empty() {
                        continue;
                    }
                    let (src, fam) = *rng.pick(&wrappers);
                    let t = pick_alive(rng, &alive);
                    ops.push(WOp::CloneWrapper { t, src, w: next_w });
                    wrappers.push((next_w, fam));
                    next_w += 1;
                }
                5 => {
                    if wrappers.is_empty() || (wrappers.len() == 1 && !rng.chance(1, 4)) {
                        continue;
                    }
                    let i = rng.below_usize(wrappers.len());
                    let t = pick_alive(rng, &alive);
                    ops.push(WOp::DropWrapper { t, w: wrappers[i].0 });
                    wrappers.remove(i);
                }
                _ => {
                    if alive.iter().filter(|a| **a).count() <= 1 {
                        continue;
                    }
                    let t = pick_alive(rng, &alive);
                    if !foreign_last_drop {
                        let mine: Vec<u16> = refs.iter().filter(|x| x.2 == t && families[x.1]).map(|x| x.0).collect();
                        for r in mine {
                            ops.push(WOp::DropRef { t, r });
                        }
                    }
                    ops.push(WOp::ExitThread { t });
                    alive[usize::from(t)] = false;
                    if foreign_last_drop {
                        refs.retain(|x| !(x.2 == t && !families[x.1]));
                    } else {
                        refs.retain(|x| x.2 != t);
                    }
                }
            }
        }
        Self {
            n_threads: nt,
            families,
            ops,
            wrappers_first: rng.bool(),
            symptom: None,
            foreign_last_drop,
        }
    }
}

impl Scenario for WrapScenario {
    fn generate(rng: &mut Rng, mode: &str) -> Self {
        match mode {
            "known-c12-refsync-foreign-thread-drop" => Self::directed_foreign(rng),
            "coord-small" => Self::generate_random(rng, true),
            _ => Self::generate_random(rng, false),
        }
    }

    fn run(&self, ctx: &mut Ctx) -> Result<bool, Violation> {
        if self.n_threads == 0 || self.families.is_empty() {
            return Ok(false);
        }
        tracked::reset_run();
        let nt = usize::from(self.n_threads);
        let coord = Coordinator::new(nt);
        for t in 0..nt {
            let _ = coord.exec(t, move || tracked::set_tid(t as u32));
        }
        let shared = Arc::new(Mutex::new(Shared::default()));
        let mut ex = Exec {
            sc: self,
            coord,
            shared: Arc::clone(&shared),
            alive: vec![true; nt],
            fams: Vec::new(),
            refs: BTreeMap::new(),
            wrapper_fam: BTreeMap::new(),
            seen_ids: BTreeSet::new(),
            viols: Vec::new(),
            foreign_drops: 0,
            foreign_last_drops: 0,
        };
        // The wrappers are created on thread 0 from a fresh family each.
        for (f, sync) in self.families.iter().enumerate() {
            let sync = *sync;
            let sh = Arc::clone(&shared);
            let obs = ex
                .run_on(0, "create wrapper", move || {
                    let first = Tracked::new(10_000 + f as u32);
                    let obs = first.obs();
                    let w = if sync {
                        Wrapper::Sync(InstancePerThreadSync::new(first))
                    } else {
                        Wrapper::Local(InstancePerThread::new(first))
                    };
                    lock(&sh).wrappers.insert(f as u16, w);
                    obs
                })?
                .ok_or_else(|| Violation::new("op-panicked", "wrapper creation panicked"))?;
            ctx.event(simkit::mix(0x10 + u64::from(sync), obs.tag), || {
                format!("family {f}: {} created on thread 0, family tag {}", if sync { "InstancePerThreadSync" } else { "InstancePerThread" }, obs.tag)
            });
            ex.seen_ids.insert(obs.inst);
            ex.fams.push(MFam { sync, tag: obs.tag, wrappers: BTreeSet::from([f as u16]), per_thread: BTreeMap::new() });
            ex.wrapper_fam.insert(f as u16, f);
        }
        let mut result = ex.sweep("wrapper creation");
        if result.is_ok() {
            for (i, op) in self.ops.iter().enumerate() {
                result = ex.step(ctx, i, op);
                if result.is_err() {
                    break;
                }
            }
        }
        if result.is_ok() {
            result = ex.cleanup(ctx);
        }
        if ex.foreign_drops > 0 {
            ctx.probe("ref-dropped-on-foreign-thread");
        }
        if ex.foreign_last_drops > 0 {
            ctx.probe("last-ref-dropped-on-foreign-thread");
        }
        let nontrivial = ex.foreign_drops > 0;
        let viols = std::mem::take(&mut ex.viols);
        // Tear down whatever is left (only after a violation is anything left): every object is
        // dropped on a simulated thread with panics caught, so that a consequence of the violation
        // (e.g. the wrapper's drop assertion) cannot replace the violation that was found.
        for t in 0..nt {
            if ex.alive[t] {
                let sh = Arc::clone(&shared);
                let _ = ex.coord.exec(t, move || {
                    let local = LOCAL_REFS.with_borrow_mut(std::mem::take);
                    for (_, r) in local {
                        let _ = std::panic::catch_unwind(std::panic::AssertUnwindSafe(move || drop(r)));
                    }
                    let mut g = lock(&sh);
                    let refs = std::mem::take(&mut g.sync_refs);
                    let wrappers = std::mem::take(&mut g.wrappers);
                    drop(g);
                    for (_, r) in refs {
                        let _ = std::panic::catch_unwind(std::panic::AssertUnwindSafe(move || drop(r)));
                    }
                    for (_, w) in wrappers {
                        let _ = std::panic::catch_unwind(std::panic::AssertUnwindSafe(move || drop(w)));
                    }
                });
            }
        }
        drop(ex);
        result?;
        if let Some(sym) = &self.symptom {
            if let Some(v) = viols.iter().find(|v| v.class.starts_with(sym.as_str())) {
                return Err(v.clone());
            }
            if let Some(v) = viols.into_iter().next() {
                return Err(v);
            }
        }
        Ok(nontrivial)
    }

    fn shrink(&self) -> Vec<Self> {
        let mut out: Vec<Self> = simkit::shrink::remove_chunks(&self.ops)
            .into_iter()
            .map(|ops| Self { ops, ..self.clone() })
            .collect();
        if self.families.len() > 1 {
            // drop the second family and every op that uses its original wrapper
            let mut c = self.clone();
            c.families.truncate(1);
            out.push(c);
        }
        if self.n_threads > 2 {
            let last = self.n_threads - 1;
            if self.ops.iter().all(|o| o.thread() != last) {
                let mut c = self.clone();
                c.n_threads -= 1;
                out.push(c);
            }
        }
        // move an operation to thread 1
        for (i, op) in self.ops.iter().enumerate() {
            if op.thread() > 1 {
                let mut c = self.clone();
                c.ops[i] = match op.clone() {
                    WOp::Acquire { w, r, .. } => WOp::Acquire { t: 1, w, r },
                    WOp::CloneRef { src, r, .. } => WOp::CloneRef { t: 1, src, r },
                    WOp::UseRef { r, .. } => WOp::UseRef { t: 1, r },
                    WOp::DropRef { r, .. } => WOp::DropRef { t: 1, r },
                    WOp::CloneWrapper { src, w, .. } => WOp::CloneWrapper { t: 1, src, w },
                    WOp::DropWrapper { w, .. } => WOp::DropWrapper { t: 1, w },
                    WOp::ExitThread { .. } => WOp::ExitThread { t: 1 },
                };
                out.push(c);
            }
        }
        out
    }

    fn size(&self) -> usize {
        self.ops.iter().map(|o| 10 + usize::from(o.thread())).sum::<usize>()
            + 20 * self.families.len()
            + 5 * usize::from(self.n_threads)
    }
}
