//! The linked object type used by every scenario, and the per-run observation state.
//!
//! `Tracked` is a real `#[linked::object]`. Every run of a first-instance expression
//! (`Tracked::new`) stamps a *fresh family tag* into the shared family state; every instance the
//! library creates from that family (through the `linked::new!` factory closure) registers an
//! `InstRec` (unique id, family tag, simulated thread that created it) and marks it dropped — with
//! the simulated thread that dropped it — when the instance is destroyed.
//!
//! Nothing here is derived from addresses, OS thread ids, time or hash order. Ids and tags come
//! from two counters that are reset at the start of every scenario, so a replay in the same
//! process sees the same numbers.

use std::cell::Cell;
use std::sync::atomic::{AtomicU32, AtomicU64, Ordering};
use std::sync::{Arc, Mutex};

/// `InstRec::dropped_on` while the instance is alive.
pub const LIVE: u32 = u32::MAX;
/// Simulated thread id of a thread that never announced itself (the harness main thread).
pub const MAIN_TID: u32 = 999;

thread_local! {
    // const-initialised and without destructor: readable from other thread-locals' destructors.
    static SIM_TID: Cell<u32> = const { Cell::new(MAIN_TID) };
}

pub fn set_tid(t: u32) {
    SIM_TID.with(|c| c.set(t));
}

#[must_use]
pub fn tid() -> u32 {
    SIM_TID.with(Cell::get)
}

static NEXT_TAG: AtomicU64 = AtomicU64::new(1);
static NEXT_INST: AtomicU64 = AtomicU64::new(1);
static STAMP: AtomicU64 = AtomicU64::new(1);
static DOUBLE_DROPS: AtomicU64 = AtomicU64::new(0);
static FAMILIES: Mutex<Vec<Arc<FamState>>> = Mutex::new(Vec::new());

/// Relaxed global stamp: orders harness-level events of concurrent threads without adding a
/// happens-before edge.
#[must_use]
pub fn stamp() -> u64 {
    STAMP.fetch_add(1, Ordering::Relaxed)
}

fn lock<T>(m: &Mutex<T>) -> std::sync::MutexGuard<'_, T> {
    m.lock().unwrap_or_else(std::sync::PoisonError::into_inner)
}

/// Resets the per-run observation state. Call at the start of every scenario.
pub fn reset_run() {
    NEXT_TAG.store(1, Ordering::Relaxed);
    NEXT_INST.store(1, Ordering::Relaxed);
    STAMP.store(1, Ordering::Relaxed);
    DOUBLE_DROPS.store(0, Ordering::Relaxed);
    lock(&FAMILIES).clear();
}

#[must_use]
pub fn double_drops() -> u64 {
    DOUBLE_DROPS.load(Ordering::Relaxed)
}

/// Every family created since `reset_run` (one per run of a first-instance expression).
#[must_use]
pub fn families() -> Vec<Arc<FamState>> {
    lock(&FAMILIES).clone()
}

#[must_use]
pub fn find_inst(id: u64) -> Option<Arc<InstRec>> {
    for f in lock(&FAMILIES).iter() {
        for i in lock(&f.insts).iter() {
            if i.id == id {
                return Some(Arc::clone(i));
            }
        }
    }
    None
}

/// State shared by all instances of one family (captured by the factory closure).
#[derive(Debug)]
pub struct FamState {
    /// Fresh per run of the first-instance expression.
    pub tag: u64,
    /// What the family belongs to: static slot id, or wrapper family number (+ 10_000).
    pub owner: u32,
    pub insts: Mutex<Vec<Arc<InstRec>>>,
}

impl FamState {
    #[must_use]
    pub fn instances(&self) -> Vec<Arc<InstRec>> {
        lock(&self.insts).clone()
    }
}

#[derive(Debug)]
pub struct InstRec {
    pub id: u64,
    pub tag: u64,
    pub owner: u32,
    pub created_on: u32,
    /// `LIVE`, or the simulated thread on which the instance was destroyed.
    pub dropped_on: AtomicU32,
    /// Relaxed global stamps of creation and destruction (0 = not destroyed).
    pub created_at: u64,
    pub dropped_at: AtomicU64,
}

impl InstRec {
    #[must_use]
    pub fn is_live(&self) -> bool {
        self.dropped_on.load(Ordering::Relaxed) == LIVE
    }
    #[must_use]
    pub fn dropped_on(&self) -> u32 {
        self.dropped_on.load(Ordering::Relaxed)
    }
}

/// Field of every `Tracked` instance; its `Drop` is the instance-destroyed event.
#[derive(Debug)]
pub struct InstGuard(Arc<InstRec>);

impl InstGuard {
    fn register(fam: &Arc<FamState>) -> Self {
        let rec = Arc::new(InstRec {
            id: NEXT_INST.fetch_add(1, Ordering::Relaxed),
            tag: fam.tag,
            owner: fam.owner,
            created_on: tid(),
            dropped_on: AtomicU32::new(LIVE),
            created_at: stamp(),
            dropped_at: AtomicU64::new(0),
        });
        lock(&fam.insts).push(Arc::clone(&rec));
        Self(rec)
    }
}

impl Drop for InstGuard {
    fn drop(&mut self) {
        self.0.dropped_at.store(stamp(), Ordering::Relaxed);
        let prev = self.0.dropped_on.swap(tid(), Ordering::Relaxed);
        if prev != LIVE {
            DOUBLE_DROPS.fetch_add(1, Ordering::Relaxed);
        }
    }
}

/// What a thread sees when it looks at an instance.
#[derive(Debug, Clone, Copy, PartialEq, Eq)]
pub struct Obs {
    pub tag: u64,
    pub inst: u64,
    pub created_on: u32,
    pub owner: u32,
}

#[linked::object]
#[derive(Debug)]
pub struct Tracked {
    fam: Arc<FamState>,
    guard: InstGuard,
}

impl Tracked {
    /// The first-instance expression: a new family with a fresh tag, and its first instance.
    #[must_use]
    pub fn new(owner: u32) -> Self {
        let fam = Arc::new(FamState {
            tag: NEXT_TAG.fetch_add(1, Ordering::Relaxed),
            owner,
            insts: Mutex::new(Vec::new()),
        });
        lock(&FAMILIES).push(Arc::clone(&fam));
        linked::new!(Self {
            fam: Arc::clone(&fam),
            guard: InstGuard::register(&fam),
        })
    }

    #[must_use]
    pub fn obs(&self) -> Obs {
        Obs {
            tag: self.fam.tag,
            inst: self.guard.0.id,
            created_on: self.guard.0.created_on,
            owner: self.fam.owner,
        }
    }
}
