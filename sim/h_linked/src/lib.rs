//! Harness for property C12 (package `linked`): one family per linked static / per-thread wrapper,
//! at most one live instance per thread, created on that thread and destroyed exactly when the last
//! reference aligned to it goes away — wherever that happens; first access always terminates.
//!
//! Modes
//! * `race`   — 2–4 real threads behind a start gate perform (first) accesses to macro-generated
//!   statics of all three kinds, with and without dependency graphs between their initialisers.
//!   Meant for Miri (seeded scheduler, exact deadlock detection); natively it is extra volume.
//! * `seq`    — the same scenarios, one operation at a time on the op-granular coordinator
//!   (deterministic natively).
//! * `coord`, `coord-small` — reference-movement programs over `InstancePerThread` /
//!   `InstancePerThreadSync` on the coordinator (`coord-small`: sized for Miri).
//! * `wrace`  — 2–3 real threads work on one `InstancePerThreadSync` at the same time (Miri).
//! * `known-<key>` — directed reproductions of the defects listed in `AVOID_KNOWN`.

#![recursion_limit = "1024"]

pub mod bank;
pub mod statics;
pub mod tracked;
pub mod wrace;
pub mod wrap;

use simkit::entry;

pub const KEY_FOREIGN: &str = "c12-refsync-foreign-thread-drop";
pub const KEY_NESTED: &str = "c12-nested-static-init-deadlock";

/// Known defects on the unchanged tree (DESIGN §6 #7, #8) whose triggers ordinary modes must not
/// generate. Remove a key when the defect is fixed in /repo: the ordinary modes then cover it.
// Both were fixed in /repo (f4d1d15, 5b9bfb1): nothing is avoided any more, the ordinary modes
// generate foreign last drops and nested first accesses, and the directed modes stay as regressions.
pub const AVOID_KNOWN: &[&str] = &[];

/// Build-time override used to test candidate fixes without editing this file: keys listed
/// (comma separated) in the environment variable `H_LINKED_UNAVOID` at compile time are treated as
/// removed from `AVOID_KNOWN`. Never set by `/verif/check`.
const UNAVOID: &str = match option_env!("H_LINKED_UNAVOID") {
    Some(s) => s,
    None => "",
};

#[must_use]
pub fn avoiding(key: &str) -> bool {
    AVOID_KNOWN.contains(&key) && !UNAVOID.split(',').any(|k| k == key)
}

/// Entry point of the harness binary (everything lives in the library target so that a Miri
/// process only has to compile the two-line `main.rs`; the bank of 192 macro-generated statics
/// makes this crate slow to compile, and Miri compiles the binary crate on every start).
pub fn run() -> ! {
    simkit::cli_main(
        "h_linked",
        vec![
            entry::<statics::StaticsScenario>(
                "C12",
                "race",
                "statics: concurrent (first) access from 2-4 real threads, optional initialiser dependency graph",
            )
            .isolated(),
            entry::<statics::StaticsScenario>(
                "C12",
                "seq",
                "statics: same scenarios on the op-granular coordinator",
            )
            .isolated(),
            entry::<wrap::WrapScenario>(
                "C12",
                "coord",
                "InstancePerThread / InstancePerThreadSync reference-movement programs on the coordinator",
            ),
            entry::<wrap::WrapScenario>("C12", "coord-small", "as coord, sized for Miri"),
            entry::<wrace::WraceScenario>(
                "C12",
                "wrace",
                "2-3 real threads acquire / clone / send / drop RefSync of one InstancePerThreadSync concurrently",
            ),
            entry::<wrap::WrapScenario>(
                "C12",
                "known-c12-refsync-foreign-thread-drop",
                "directed: last RefSync aligned to thread A dropped on thread B",
            ),
            entry::<statics::StaticsScenario>(
                "C12",
                "known-c12-nested-static-init-deadlock",
                "directed: OUTER.get() whose initialiser uses INNER, not yet seen by the thread",
            )
            .isolated(),
        ],
    )
}
