//! h_select — property C09: "processor selection returns exactly what was asked for, or nothing".
//!
//! Code under test: `many_cpus_impl::ProcessorSetBuilder` (`take`, `take_all`, the candidate
//! computation, the quota limit) reached only through the public `many_cpus` API on
//! `many_cpus::fake` hardware.
//!
//! What is and is not simulated (DESIGN §5 C09): there is no schedule, clock, I/O or fault here.
//! The only nondeterminism is the library's own entropy — `rand::rng()` draws and the iteration
//! order of its `foldhash` candidate map. Natively both are unseamed, so a native run is a
//! high-volume *search* whose trace hash covers only the scenario and the verdict (never which
//! processors were chosen), and a native failure may need a few repetitions to show again. Under
//! Miri (single thread, `-Zmiri-seed`) `getrandom`, addresses and the hash seed all derive from
//! the interpreter seed, so `(miri seed, batch arguments)` is one exactly repeatable execution and
//! the trace hash there also covers the chosen processors. Everything else is seeded input
//! generation against an independent oracle computed from the scenario description.
//!
//! The oracle states the property, not the implementation:
//! * candidates = source ∩ ¬except ∩ every filter ∩ class selector ∩ (available for the pinned
//!   thread, when asked), computed from the scenario description alone;
//! * `take(n)`: `None` iff the quota forbids n (n > max(1, ⌊quota⌋), integer arithmetic on
//!   milli-processors) or no qualifying set exists (Any/Prefer*: n > |candidates|; RequireSame:
//!   n > largest region; RequireDifferent: n > number of regions); otherwise exactly n distinct
//!   members, all candidates, truthful attributes, and RequireSame ⇒ 1 region, RequireDifferent ⇒
//!   n regions, PreferSame ⇒ the minimum number of regions any n candidates can occupy,
//!   PreferDifferent ⇒ the maximum;
//! * `take_all`: `None` iff no candidate; otherwise all candidates / the whole of one region /
//!   one per region, cut to the quota.
//!
//! Modes: `strict` (1-64 processors; every source set is a function of the scenario, so the native
//! job is hash-deterministic), `compact` (1-12 processors: the Miri jobs, plus a native search over
//! the same space), `default-set` (source = the library's own quota-cut default set, whose
//! membership is library entropy: natively `"deterministic": false`), and
//! `known-c09-prefer-same-overselects` (narrow generator for the defect listed in `AVOID_KNOWN`).

use std::cell::RefCell;
use std::collections::{BTreeMap, BTreeSet};
use std::num::NonZero;

use many_cpus::fake::{HardwareBuilder, ProcessorBuilder};
use many_cpus::{EfficiencyClass, Processor, ProcessorSet, SystemHardware};
use nonempty::NonEmpty;
use serde::{Deserialize, Serialize};
use simkit::{Ctx, Rng, Scenario, Violation, check, entry, mix};

/// Defect #5 (DESIGN §6): `PreferSame` `take(n)` took `min(n, region size)` from every region it
/// visited instead of `min(remaining, region size)`.
const KEY_PREFER_SAME: &str = "c09-prefer-same-overselects";

/// While a key is listed here the ordinary modes do not generate that defect's trigger; the mode
/// `known-<key>` reproduces it. Remove the key once the defect is fixed in /repo.
///
/// `c09-prefer-same-overselects` was fixed in /repo (commit 91863e9), so it is no longer listed:
/// the ordinary modes generate multi-region PreferSame requests with arbitrary n under the strict
/// oracle, and the mode `known-c09-prefer-same-overselects` stays as a directed regression
/// generator (every scenario satisfies the former trigger predicate).
const AVOID_KNOWN: &[&str] = &[];

fn avoiding(key: &str) -> bool {
    AVOID_KNOWN.contains(&key)
}

// ------------------------------------------------------------------------------------------------
// Scenario description
// ------------------------------------------------------------------------------------------------

#[derive(Clone, Debug, Serialize, Deserialize, PartialEq, Eq)]
struct Proc {
    id: u32,
    region: u32,
    /// true = `EfficiencyClass::Efficiency`, false = `Performance`.
    eff: bool,
}

#[derive(Clone, Copy, Debug, Serialize, Deserialize, PartialEq, Eq)]
enum Policy {
    Any,
    RequireSame,
    RequireDifferent,
    PreferSame,
    PreferDifferent,
}

#[derive(Clone, Copy, Debug, Serialize, Deserialize, PartialEq, Eq)]
enum ClassSel {
    Any,
    Performance,
    Efficiency,
}

/// A serialisable `filter` predicate; evaluated by the library on `Processor` accessors and by
/// the oracle on the scenario's topology description.
#[derive(Clone, Debug, Serialize, Deserialize, PartialEq, Eq)]
enum Pred {
    IdMod { m: u32, r: u32 },
    IdNotIn(Vec<u32>),
    IdBelow(u32),
    RegionIn(Vec<u32>),
    ClassIs { eff: bool },
}

impl Pred {
    fn eval(&self, id: u32, region: u32, eff: bool) -> bool {
        match self {
            Pred::IdMod { m, r } => id % (*m).max(1) == *r,
            Pred::IdNotIn(ids) => !ids.contains(&id),
            Pred::IdBelow(x) => id < *x,
            Pred::RegionIn(rs) => rs.contains(&region),
            Pred::ClassIs { eff: e } => eff == *e,
        }
    }
}

/// One builder call, applied in list order.
#[derive(Clone, Debug, Serialize, Deserialize, PartialEq, Eq)]
enum Crit {
    Except(Vec<u32>),
    Filter(Pred),
    Class(ClassSel),
    Region(Policy),
    EnforceQuota,
    Available,
}

/// Where the builder comes from.
#[derive(Clone, Debug, Serialize, Deserialize, PartialEq, Eq)]
enum Source {
    /// `hardware.all_processors().to_builder()`.
    All,
    /// `hardware.processors().to_builder()` — the library's own quota-limited default set; which
    /// processors it holds is decided by the library's entropy and read back by the harness.
    Default,
    /// `all_processors().to_builder().take_exact(ids).to_builder()`.
    Exact(Vec<u32>),
    /// `all_processors().to_builder().filter(id ∈ ids).take_all().to_builder()`.
    Filtered(Vec<u32>),
}

#[derive(Clone, Debug, Serialize, Deserialize, PartialEq, Eq)]
enum Request {
    Take(usize),
    TakeAll,
}

#[derive(Clone, Debug, Serialize, Deserialize)]
struct Sel {
    procs: Vec<Proc>,
    /// Processor-time quota in thousandths of a processor (`None` = fake default = processor count).
    quota_milli: Option<u64>,
    /// Pin the calling thread to these processors (through the library) before building.
    pin: Option<Vec<u32>>,
    source: Source,
    criteria: Vec<Crit>,
    request: Request,
    /// The request is issued this many times (fresh builder each time): every repetition draws new
    /// library entropy, which also makes replay of an entropy-dependent failure likely to recur.
    reps: u32,
    /// Only the `known-*` modes may contain the trigger of a defect listed in `AVOID_KNOWN`.
    allow_known: bool,
}

// ------------------------------------------------------------------------------------------------
// Oracle (pure functions of the scenario description)
// ------------------------------------------------------------------------------------------------

/// `max(1, ⌊quota⌋)` in integer arithmetic; an absent quota is the processor count (documented
/// behaviour of the fake platform).
fn quota_limit(quota_milli: Option<u64>, n_procs: usize) -> usize {
    let whole = match quota_milli {
        Some(m) => (m / 1000) as usize,
        None => n_procs,
    };
    whole.max(1)
}

/// Known-defect trigger, worked out from the selection loop: the regions are visited largest
/// first (sizes clamped to n, ties in random order — irrelevant for the sums) and each visited
/// region contributes `min(n, size)`. The result therefore exceeds n exactly when no single
/// region holds n candidates, the candidates suffice, and the largest-first prefix sums of the
/// region sizes step over n instead of landing on it. Independent of the library's entropy.
fn prefer_same_overselect_trigger(sizes_desc: &[usize], n: usize) -> bool {
    if sizes_desc.is_empty() || sizes_desc[0] >= n {
        return false;
    }
    let mut sum = 0;
    for s in sizes_desc {
        sum += s;
        if sum >= n {
            return sum > n;
        }
    }
    false
}

struct Oracle {
    /// region -> candidate ids.
    cand: BTreeMap<u32, BTreeSet<u32>>,
    total: usize,
    sizes_desc: Vec<usize>,
    policy: Policy,
    /// `Some(limit)` iff `enforce_resource_quota()` was called.
    limit: Option<usize>,
}

#[derive(Debug, PartialEq, Eq)]
enum Expect {
    NoneQuota,
    NoneInfeasible,
    /// `Some(k)`: the result must occupy exactly k regions; `None`: no region constraint.
    Some(Option<usize>),
}

impl Oracle {
    fn regions(&self) -> usize {
        self.cand.len()
    }

    fn expect_take(&self, n: usize) -> Expect {
        if let Some(l) = self.limit {
            if n > l {
                return Expect::NoneQuota;
            }
        }
        self.expect_take_ignoring_quota(n)
    }

    fn expect_take_ignoring_quota(&self, n: usize) -> Expect {
        let largest = self.sizes_desc.first().copied().unwrap_or(0);
        match self.policy {
            Policy::Any => {
                if n > self.total {
                    Expect::NoneInfeasible
                } else {
                    Expect::Some(None)
                }
            }
            Policy::RequireSame => {
                if n > largest {
                    Expect::NoneInfeasible
                } else {
                    Expect::Some(Some(1))
                }
            }
            Policy::RequireDifferent => {
                if n > self.regions() {
                    Expect::NoneInfeasible
                } else {
                    Expect::Some(Some(n))
                }
            }
            Policy::PreferSame => {
                if n > self.total {
                    Expect::NoneInfeasible
                } else {
                    // Fewest regions that can hold n candidates: take the largest regions first.
                    let mut sum = 0;
                    let mut k = 0;
                    for s in &self.sizes_desc {
                        sum += s;
                        k += 1;
                        if sum >= n {
                            break;
                        }
                    }
                    Expect::Some(Some(k))
                }
            }
            Policy::PreferDifferent => {
                if n > self.total {
                    Expect::NoneInfeasible
                } else {
                    Expect::Some(Some(n.min(self.regions())))
                }
            }
        }
    }
}

impl Sel {
    fn policy(&self) -> Policy {
        self.criteria
            .iter()
            .rev()
            .find_map(|c| if let Crit::Region(p) = c { Some(*p) } else { None })
            .unwrap_or(Policy::Any)
    }

    fn class_sel(&self) -> ClassSel {
        self.criteria
            .iter()
            .rev()
            .find_map(|c| if let Crit::Class(s) = c { Some(*s) } else { None })
            .unwrap_or(ClassSel::Any)
    }

    fn enforce(&self) -> bool {
        self.criteria.iter().any(|c| matches!(c, Crit::EnforceQuota))
    }

    fn all_ids(&self) -> BTreeSet<u32> {
        self.procs.iter().map(|p| p.id).collect()
    }

    /// Why `p` is not a candidate (None = it is one), given the source set.
    fn rejection(&self, p: &Proc, source: &BTreeSet<u32>) -> Option<String> {
        if !source.contains(&p.id) {
            return Some("not in the source set".into());
        }
        for c in &self.criteria {
            match c {
                Crit::Except(ids) if ids.contains(&p.id) => return Some(format!("excluded by except({ids:?})")),
                Crit::Filter(pred) if !pred.eval(p.id, p.region, p.eff) => {
                    return Some(format!("rejected by filter {pred:?}"));
                }
                Crit::Available => {
                    if let Some(pin) = &self.pin {
                        if !pin.contains(&p.id) {
                            return Some(format!("not available to the thread pinned to {pin:?}"));
                        }
                    }
                }
                _ => {}
            }
        }
        match self.class_sel() {
            ClassSel::Any => None,
            ClassSel::Performance if p.eff => Some("efficiency processor, performance required".into()),
            ClassSel::Efficiency if !p.eff => Some("performance processor, efficiency required".into()),
            _ => None,
        }
    }

    fn oracle(&self, source: &BTreeSet<u32>) -> Oracle {
        let mut cand: BTreeMap<u32, BTreeSet<u32>> = BTreeMap::new();
        for p in &self.procs {
            if self.rejection(p, source).is_none() {
                cand.entry(p.region).or_default().insert(p.id);
            }
        }
        let mut sizes_desc: Vec<usize> = cand.values().map(BTreeSet::len).collect();
        sizes_desc.sort_unstable_by(|a, b| b.cmp(a));
        let total = sizes_desc.iter().sum();
        Oracle {
            cand,
            total,
            sizes_desc,
            policy: self.policy(),
            limit: self.enforce().then(|| quota_limit(self.quota_milli, self.procs.len())),
        }
    }

    /// The source set when it does not depend on the library's entropy.
    fn static_source(&self) -> Option<BTreeSet<u32>> {
        let all = self.all_ids();
        match &self.source {
            Source::All => Some(all),
            Source::Default => {
                (quota_limit(self.quota_milli, self.procs.len()) >= self.procs.len()).then_some(all)
            }
            Source::Exact(ids) | Source::Filtered(ids) => {
                Some(ids.iter().copied().filter(|i| all.contains(i)).collect())
            }
        }
    }

    /// Does this scenario contain (or possibly contain) the trigger of a known defect?
    fn known_trigger(&self) -> bool {
        if self.policy() != Policy::PreferSame {
            return false;
        }
        let Request::Take(n) = self.request else {
            return false;
        };
        match self.static_source() {
            Some(src) => prefer_same_overselect_trigger(&self.oracle(&src).sizes_desc, n),
            // Candidate sizes unknown before the run: conservatively "maybe".
            None => true,
        }
    }

    fn tokens(&self) -> u64 {
        fn ids(h: &mut u64, v: &[u32]) {
            *h = mix(*h, v.len() as u64);
            for x in v {
                *h = mix(*h, u64::from(*x));
            }
        }
        let mut h = 0xC09_u64;
        for p in &self.procs {
            h = mix(h, u64::from(p.id) | (u64::from(p.region) << 32) | (u64::from(p.eff) << 63));
        }
        h = mix(h, self.quota_milli.map_or(u64::MAX, |m| m));
        match &self.pin {
            None => h = mix(h, 1),
            Some(v) => {
                h = mix(h, 2);
                ids(&mut h, v);
            }
        }
        match &self.source {
            Source::All => h = mix(h, 10),
            Source::Default => h = mix(h, 11),
            Source::Exact(v) => {
                h = mix(h, 12);
                ids(&mut h, v);
            }
            Source::Filtered(v) => {
                h = mix(h, 13);
                ids(&mut h, v);
            }
        }
        for c in &self.criteria {
            match c {
                Crit::Except(v) => {
                    h = mix(h, 20);
                    ids(&mut h, v);
                }
                Crit::Filter(p) => {
                    h = mix(h, 21);
                    match p {
                        Pred::IdMod { m, r } => h = mix(h, 100 + u64::from(*m) * 1000 + u64::from(*r)),
                        Pred::IdNotIn(v) => {
                            h = mix(h, 31);
                            ids(&mut h, v);
                        }
                        Pred::IdBelow(x) => h = mix(mix(h, 32), u64::from(*x)),
                        Pred::RegionIn(v) => {
                            h = mix(h, 33);
                            ids(&mut h, v);
                        }
                        Pred::ClassIs { eff } => h = mix(mix(h, 34), u64::from(*eff)),
                    }
                }
                Crit::Class(s) => h = mix(mix(h, 22), *s as u64),
                Crit::Region(p) => h = mix(mix(h, 23), *p as u64),
                Crit::EnforceQuota => h = mix(h, 24),
                Crit::Available => h = mix(h, 25),
            }
        }
        match self.request {
            Request::Take(n) => h = mix(mix(h, 40), n as u64),
            Request::TakeAll => h = mix(h, 41),
        }
        mix(h, u64::from(self.reps))
    }
}

// ------------------------------------------------------------------------------------------------
// Generation
// ------------------------------------------------------------------------------------------------

fn gen_topology(rng: &mut Rng, compact: bool) -> Vec<Proc> {
    let n = if compact {
        match rng.weighted(&[1, 5, 4]) {
            0 => rng.range_usize(1, 2),
            1 => rng.range_usize(3, 6),
            _ => rng.range_usize(5, 12),
        }
    } else {
        match rng.weighted(&[3, 4, 3, 2]) {
            0 => rng.range_usize(1, 4),
            1 => rng.range_usize(2, 12),
            2 => rng.range_usize(8, 32),
            _ => rng.range_usize(16, 64),
        }
    };
    let r = if compact && n >= 3 && rng.chance(3, 4) {
        // Small topologies: favour several regions so that unequal region sizes stay common.
        rng.range_usize(2, n.min(5))
    } else {
        rng.range_usize(1, n.min(8))
    };
    // Region ids: dense or sparse.
    let region_ids: Vec<u32> = if rng.bool() {
        (0..r as u32).collect()
    } else {
        let mut pool: Vec<u32> = (0..=20).collect();
        rng.shuffle(&mut pool);
        pool.truncate(r);
        pool
    };
    // Region sizes: every region non-empty; the rest distributed by one of several styles so that
    // equal, mildly unequal and heavily skewed distributions all occur.
    let mut sizes = vec![1_usize; r];
    let style = rng.weighted(&[3, 3, 2, 2]);
    for k in 0..(n - r) {
        let idx = match style {
            0 => rng.below_usize(r),
            1 => {
                // geometric skew: region i has weight 2^(r-i)
                let w: Vec<u32> = (0..r).map(|i| 1_u32 << (r - 1 - i).min(12)).collect();
                rng.weighted(&w)
            }
            2 => k % r,
            _ => {
                // one giant region, occasional leak to the others
                if rng.chance(5, 6) { 0 } else { rng.below_usize(r) }
            }
        };
        sizes[idx] += 1;
    }
    // Processor ids: dense 0..n, or sparse ≤ 200.
    let mut ids: Vec<u32> = if rng.bool() {
        (0..n as u32).collect()
    } else {
        let mut pool: Vec<u32> = (0..=if compact { 40 } else { 200 }).collect();
        rng.shuffle(&mut pool);
        pool.truncate(n);
        if rng.bool() {
            pool.sort_unstable();
        }
        pool
    };
    if rng.bool() {
        rng.shuffle(&mut ids);
    }
    let eff_num = *rng.pick(&[0_u64, 1, 2, 2, 2, 3, 4]);
    let mut procs = Vec::with_capacity(n);
    let mut next = 0;
    for (ri, sz) in sizes.iter().enumerate() {
        for _ in 0..*sz {
            procs.push(Proc {
                id: ids[next],
                region: region_ids[ri],
                eff: rng.chance(eff_num, 4),
            });
            next += 1;
        }
    }
    // Interleave regions in builder order (or not).
    if rng.chance(2, 3) {
        rng.shuffle(&mut procs);
    }
    procs
}

fn random_ids(rng: &mut Rng, all: &[u32], num: u64, den: u64, non_empty: bool) -> Vec<u32> {
    let mut v: Vec<u32> = all.iter().copied().filter(|_| rng.chance(num, den)).collect();
    if non_empty && v.is_empty() {
        v.push(*rng.pick(all));
    }
    v
}

fn gen_pred(rng: &mut Rng, procs: &[Proc], all: &[u32]) -> Pred {
    match rng.weighted(&[3, 3, 2, 3, 1]) {
        0 => {
            let m = rng.range(2, 4) as u32;
            Pred::IdMod { m, r: rng.below(u64::from(m)) as u32 }
        }
        1 => {
            let den = *rng.pick(&[2, 4, 8]);
            Pred::IdNotIn(random_ids(rng, all, 1, den, false))
        }
        2 => {
            let max = all.iter().copied().max().unwrap_or(0);
            Pred::IdBelow(rng.range(u64::from(max) / 3, u64::from(max) + 2) as u32)
        }
        3 => {
            let regions: BTreeSet<u32> = procs.iter().map(|p| p.region).collect();
            let regions: Vec<u32> = regions.into_iter().collect();
            Pred::RegionIn(random_ids(rng, &regions, 2, 3, true))
        }
        _ => Pred::ClassIs { eff: rng.bool() },
    }
}

#[derive(Clone, Copy, PartialEq, Eq)]
enum DynSource {
    Never,
    Allowed,
    Forced,
}

impl Sel {
    fn generate_ordinary(rng: &mut Rng, compact: bool, dynamic: DynSource) -> Self {
        let procs = gen_topology(rng, compact);
        let n_procs = procs.len();
        let all: Vec<u32> = procs.iter().map(|p| p.id).collect();

        let mut criteria = Vec::new();
        let policy = *rng.pick(&[
            Policy::Any,
            Policy::RequireSame,
            Policy::RequireSame,
            Policy::RequireDifferent,
            Policy::RequireDifferent,
            Policy::PreferSame,
            Policy::PreferSame,
            Policy::PreferDifferent,
            Policy::PreferDifferent,
        ]);
        if policy != Policy::Any {
            criteria.push(Crit::Region(policy));
        }
        match rng.weighted(&[3, 1, 1]) {
            0 => {}
            1 => criteria.push(Crit::Class(ClassSel::Performance)),
            _ => criteria.push(Crit::Class(ClassSel::Efficiency)),
        }
        if rng.chance(2, 5) {
            for _ in 0..rng.range(1, 2) {
                let den = *rng.pick(&[2, 4, 8, 16]);
                criteria.push(Crit::Except(random_ids(rng, &all, 1, den, false)));
            }
        }
        if rng.chance(1, 3) {
            for _ in 0..rng.range(1, 2) {
                criteria.push(Crit::Filter(gen_pred(rng, &procs, &all)));
            }
        }
        let enforce = rng.bool();
        if enforce {
            criteria.push(Crit::EnforceQuota);
        }
        let mut pin = None;
        if rng.chance(1, 4) {
            if rng.chance(5, 6) {
                let num = *rng.pick(&[2, 3]);
                pin = Some(random_ids(rng, &all, num, 4, true));
            }
            if rng.chance(5, 6) {
                criteria.push(Crit::Available);
            }
        }
        rng.shuffle(&mut criteria);

        let source = match rng.weighted(&[5, 2, 2, 2]) {
            0 => Source::All,
            1 => Source::Default,
            2 => {
                let num = *rng.pick(&[2, 3]);
                let mut ids = random_ids(rng, &all, num, 4, true);
                rng.shuffle(&mut ids);
                Source::Exact(ids)
            }
            _ => {
                let num = *rng.pick(&[2, 3]);
                Source::Filtered(random_ids(rng, &all, num, 4, true))
            }
        };

        let mut s = Sel {
            procs,
            quota_milli: None,
            pin,
            source,
            criteria,
            request: Request::TakeAll,
            reps: 1,
            allow_known: false,
        };

        // Estimate of the candidate structure (exact unless the source is the library's default
        // set with a real cut) to aim n at the boundaries of every policy's exit condition.
        let est_source = s.static_source().unwrap_or_else(|| s.all_ids());
        let o = s.oracle(&est_source);
        let total = o.total;
        let largest = o.sizes_desc.first().copied().unwrap_or(0);
        let regions = o.regions();

        let request = if rng.chance(1, 5) {
            Request::TakeAll
        } else {
            let mut interesting: Vec<usize> = vec![1, 2, largest, largest + 1, regions, regions + 1, total, total + 1, total + 2];
            if largest > 1 {
                interesting.push(largest - 1);
            }
            if regions > 1 {
                interesting.push(regions - 1);
            }
            if total > 1 {
                interesting.push(total - 1);
            }
            let mut sum = 0;
            for sz in &o.sizes_desc {
                sum += sz;
                interesting.push(sum);
                interesting.push(sum + 1);
                if sum > 1 {
                    interesting.push(sum - 1);
                }
            }
            let n = if rng.chance(2, 3) {
                *rng.pick(&interesting)
            } else {
                rng.range_usize(1, total + 2)
            };
            Request::Take(n.max(1))
        };
        let n_ref = match request {
            Request::Take(n) => n as u64,
            Request::TakeAll => total.max(1) as u64,
        };
        s.request = request;

        // Quota: none, the listed constants, and values straddling n and the processor count.
        s.quota_milli = match rng.weighted(&[4, 1, 1, 1, 1, 1, 3, 2, 2, 2, 1, 1, 2]) {
            0 => None,
            1 => Some(300),
            2 => Some(999),
            3 => Some(1000),
            4 => Some(1500),
            5 => Some(2500),
            6 => Some(n_ref * 1000),
            7 => Some((n_ref * 1000).saturating_sub(500)),
            8 => Some(n_ref * 1000 + 500),
            9 => Some((n_ref + 3) * 1000),
            10 => Some(n_procs as u64 * 1000),
            11 => Some((n_procs as u64 + 3) * 1000),
            _ => Some(rng.range(0, (n_procs as u64 + 3) * 1000)),
        };
        s.reps = rng.range(1, if compact { 2 } else { 4 }) as u32;

        // Entropy-dependent source set (the library's default set actually cut by the quota):
        // the verdict then depends on which processors the library kept, so natively it lives in
        // its own mode whose job is flagged `"deterministic": false`.
        match dynamic {
            DynSource::Never => {
                if s.static_source().is_none() {
                    s.source = Source::All;
                }
            }
            DynSource::Allowed => {}
            DynSource::Forced => {
                s.source = Source::Default;
                if n_procs > 1 && s.static_source().is_some() {
                    s.quota_milli = Some(rng.range(0, n_procs as u64 * 1000 - 1));
                }
                if avoiding(KEY_PREFER_SAME) && matches!(s.request, Request::Take(_)) {
                    // Candidate sizes are only known at run time here, so the known trigger
                    // cannot be excluded at generation time: use the sibling policy instead.
                    for c in &mut s.criteria {
                        if *c == Crit::Region(Policy::PreferSame) {
                            *c = Crit::Region(Policy::PreferDifferent);
                        }
                    }
                }
            }
        }

        // Keep the known defect's trigger out of the ordinary modes.
        if avoiding(KEY_PREFER_SAME) && s.policy() == Policy::PreferSame {
            if let Request::Take(n) = s.request {
                if s.static_source().is_none() {
                    // Candidate sizes would only be known at run time: use a static source.
                    s.source = Source::All;
                }
                let src = s.static_source().expect("static source");
                let o = s.oracle(&src);
                if prefer_same_overselect_trigger(&o.sizes_desc, n) {
                    // Move n onto the prefix sum the greedy walk lands on: still spans the same
                    // regions, but the per-region take is exact.
                    let mut sum = 0;
                    for sz in &o.sizes_desc {
                        sum += sz;
                        if sum >= n {
                            break;
                        }
                    }
                    s.request = Request::Take(sum);
                }
            }
        }
        s
    }

    /// The directed reproduction of DESIGN §6 finding 5: regions (3,3), `take(4)` → 6.
    fn canonical_prefer_same() -> Self {
        let procs = (0..6)
            .map(|i| Proc { id: i, region: i / 3, eff: false })
            .collect();
        Sel {
            procs,
            quota_milli: None,
            pin: None,
            source: Source::All,
            criteria: vec![Crit::Region(Policy::PreferSame)],
            request: Request::Take(4),
            reps: 1,
            allow_known: true,
        }
    }

    /// Narrow generator for `known-c09-prefer-same-overselects`: every scenario satisfies the
    /// trigger predicate.
    fn generate_known_prefer_same(rng: &mut Rng) -> Self {
        if rng.chance(1, 4) {
            return Self::canonical_prefer_same();
        }
        for _ in 0..20 {
            let procs = gen_topology(rng, true);
            let mut s = Sel {
                procs,
                quota_milli: None,
                pin: None,
                source: Source::All,
                criteria: vec![Crit::Region(Policy::PreferSame)],
                request: Request::TakeAll,
                reps: 1,
                allow_known: true,
            };
            if rng.chance(1, 3) {
                let all: Vec<u32> = s.procs.iter().map(|p| p.id).collect();
                s.criteria.push(Crit::Except(random_ids(rng, &all, 1, 8, false)));
                rng.shuffle(&mut s.criteria);
            }
            let o = s.oracle(&s.all_ids());
            let ns: Vec<usize> = (1..=o.total)
                .filter(|n| prefer_same_overselect_trigger(&o.sizes_desc, *n))
                .collect();
            if ns.is_empty() {
                continue;
            }
            s.request = Request::Take(*rng.pick(&ns));
            return s;
        }
        Self::canonical_prefer_same()
    }
}

// ------------------------------------------------------------------------------------------------
// Execution
// ------------------------------------------------------------------------------------------------

/// Lazily formatted description of the call being checked (formatting is costly under Miri).
struct What {
    take: Option<usize>,
    policy: Policy,
    label: &'static str,
}

impl What {
    fn label(label: &'static str) -> Self {
        What { take: None, policy: Policy::Any, label }
    }
}

impl std::fmt::Display for What {
    fn fmt(&self, f: &mut std::fmt::Formatter<'_>) -> std::fmt::Result {
        if !self.label.is_empty() {
            return f.write_str(self.label);
        }
        match self.take {
            Some(n) => write!(f, "take({n}) {:?}", self.policy),
            None => write!(f, "take_all {:?}", self.policy),
        }
    }
}

const P_TAKE_SOME: [&str; 5] = [
    "take/Any/some",
    "take/RequireSame/some",
    "take/RequireDifferent/some",
    "take/PreferSame/some",
    "take/PreferDifferent/some",
];
const P_TAKE_SPANS: [&str; 5] = [
    "take/Any/spans>1",
    "take/RequireSame/spans>1",
    "take/RequireDifferent/spans>1",
    "take/PreferSame/spans>1",
    "take/PreferDifferent/spans>1",
];
const P_TAKE_INFEASIBLE: [&str; 5] = [
    "take/Any/none-infeasible",
    "take/RequireSame/none-infeasible",
    "take/RequireDifferent/none-infeasible",
    "take/PreferSame/none-infeasible",
    "take/PreferDifferent/none-infeasible",
];
const P_TAKE_ALL_SOME: [&str; 5] = [
    "take_all/Any/some",
    "take_all/RequireSame/some",
    "take_all/RequireDifferent/some",
    "take_all/PreferSame/some",
    "take_all/PreferDifferent/some",
];

fn describe(set: &ProcessorSet) -> Vec<(u32, u32, bool)> {
    set.processors()
        .iter()
        .map(|p| (p.id(), p.memory_region_id(), p.efficiency_class() == EfficiencyClass::Efficiency))
        .collect()
}

fn by_ids(all: &ProcessorSet, ids: &[u32]) -> Vec<Processor> {
    // In the order given by `ids`; ids unknown to the hardware are skipped (shrunk scenarios).
    ids.iter()
        .filter_map(|id| all.processors().iter().find(|p| p.id() == *id).cloned())
        .collect()
}

impl Sel {
    /// Members: distinct, candidates, truthful attributes. Returns the regions occupied.
    fn check_members(
        &self,
        what: &What,
        got: &[(u32, u32, bool)],
        source: &BTreeSet<u32>,
        criteria_apply: bool,
    ) -> Result<BTreeSet<u32>, Violation> {
        let mut seen = BTreeSet::new();
        let mut regions = BTreeSet::new();
        for (id, region, eff) in got {
            check!(seen.insert(*id), "duplicate-member", "{what}: processor {id} appears twice in {got:?}");
            let p = self.procs.iter().find(|p| p.id == *id);
            check!(p.is_some(), "unknown-processor", "{what}: processor {id} does not exist in the topology");
            let p = p.expect("checked");
            check!(
                p.region == *region && p.eff == *eff,
                "attribute-mismatch",
                "{what}: processor {id} reported as region {region} eff {eff}, configured as {p:?}"
            );
            let why = if criteria_apply {
                self.rejection(p, source)
            } else {
                (!source.contains(&p.id)).then(|| "not in the source set".to_owned())
            };
            if let Some(why) = why {
                return Err(Violation::new(
                    "non-candidate-member",
                    format!("{what}: processor {id} was returned but is {why}; result {got:?}"),
                ));
            }
            regions.insert(*region);
        }
        Ok(regions)
    }

    fn check_take(
        &self,
        n: usize,
        o: &Oracle,
        source: &BTreeSet<u32>,
        got: Option<&[(u32, u32, bool)]>,
        ctx: &mut Ctx,
    ) -> Result<(), Violation> {
        let what = What { take: Some(n), policy: o.policy, label: "" };
        let expect = o.expect_take(n);
        let pi = o.policy as usize;
        match got {
            None => {
                match expect {
                    Expect::NoneQuota => ctx.probe("take/none-quota-forbids"),
                    Expect::NoneInfeasible => ctx.probe(P_TAKE_INFEASIBLE[pi]),
                    Expect::Some(_) => {
                        return Err(Violation::new(
                            "none-but-feasible",
                            format!(
                                "{what} returned None although a qualifying set exists: candidate region sizes {:?}, quota limit {:?}",
                                o.sizes_desc, o.limit
                            ),
                        ));
                    }
                }
                Ok(())
            }
            Some(got) => {
                if o.policy == Policy::PreferSame && got.len() > n {
                    return Err(Violation::new(
                        "prefer-same-overselects",
                        format!(
                            "{what} returned {} processors {:?}; candidate region sizes {:?}",
                            got.len(),
                            got,
                            o.sizes_desc
                        ),
                    ));
                }
                check!(
                    got.len() == n,
                    "count-mismatch",
                    "{what} returned {} processors {got:?}; candidate region sizes {:?}",
                    got.len(),
                    o.sizes_desc
                );
                let regions = self.check_members(&what, got, source, true)?;
                if let Some(l) = o.limit {
                    check!(n <= l, "quota-exceeded", "{what} returned a set although the quota limit is {l} (quota_milli {:?})", self.quota_milli);
                }
                let used = regions.len();
                match o.policy {
                    Policy::Any => {}
                    Policy::RequireSame => check!(
                        used == 1,
                        "require-same-multiple-regions",
                        "{what} returned processors from {used} regions: {got:?}"
                    ),
                    Policy::RequireDifferent => check!(
                        used == n,
                        "require-different-shared-region",
                        "{what} returned {n} processors in only {used} regions: {got:?}"
                    ),
                    Policy::PreferSame => {
                        if let Expect::Some(Some(k)) = expect {
                            check!(
                                used <= k,
                                "prefer-same-not-minimal",
                                "{what} used {used} regions, {k} suffice; candidate region sizes {:?}; result {got:?}",
                                o.sizes_desc
                            );
                        }
                    }
                    Policy::PreferDifferent => {
                        if let Expect::Some(Some(k)) = expect {
                            check!(
                                used >= k,
                                "prefer-different-not-maximal",
                                "{what} used {used} regions, {k} are possible; candidate region sizes {:?}; result {got:?}",
                                o.sizes_desc
                            );
                        }
                    }
                }
                // Every structural clause held, so the oracle's arithmetic must agree that the
                // request was satisfiable (self-check of the oracle: a set that passes all clauses
                // is a witness of feasibility).
                match expect {
                    Expect::Some(k) => {
                        if let Some(k) = k {
                            check!(used == k, "oracle-inconsistent", "{what}: witness uses {used} regions, arithmetic says {k}");
                        }
                    }
                    other => {
                        return Err(Violation::new(
                            "oracle-inconsistent",
                            format!("{what}: a valid witness {got:?} exists but the oracle expected {other:?}"),
                        ));
                    }
                }
                ctx.probe(P_TAKE_SOME[pi]);
                if used > 1 {
                    ctx.probe(P_TAKE_SPANS[pi]);
                }
                let largest = o.sizes_desc.first().copied().unwrap_or(0);
                match o.policy {
                    Policy::RequireSame if n == largest => ctx.probe("boundary/require-same n==largest-region"),
                    Policy::RequireDifferent if n == o.regions() => ctx.probe("boundary/require-different n==regions"),
                    Policy::PreferDifferent if n > o.regions() => ctx.probe("boundary/prefer-different second-lap"),
                    Policy::PreferDifferent if n == o.total && o.sizes_desc.last() != o.sizes_desc.first() => {
                        ctx.probe("boundary/prefer-different drains-unequal-regions");
                    }
                    Policy::PreferSame if n > largest => ctx.probe("boundary/prefer-same multi-region"),
                    Policy::PreferSame if n == largest => ctx.probe("boundary/prefer-same n==largest-region"),
                    _ => {}
                }
                if n == o.total {
                    ctx.probe("boundary/n==all-candidates");
                }
                if o.limit == Some(n) {
                    ctx.probe("boundary/n==quota-limit");
                }
                Ok(())
            }
        }
    }

    fn check_take_all(
        &self,
        o: &Oracle,
        source: &BTreeSet<u32>,
        got: Option<&[(u32, u32, bool)]>,
        ctx: &mut Ctx,
    ) -> Result<(), Violation> {
        let what = What { take: None, policy: o.policy, label: "" };
        let pi = o.policy as usize;
        let Some(got) = got else {
            check!(
                o.total == 0,
                "take-all-none-but-candidates",
                "{what} returned None although {} candidates exist (region sizes {:?})",
                o.total,
                o.sizes_desc
            );
            ctx.probe("take_all/none-no-candidates");
            return Ok(());
        };
        let regions = self.check_members(&what, got, source, true)?;
        let cap = |x: usize| o.limit.map_or(x, |l| x.min(l));
        match o.policy {
            Policy::Any | Policy::PreferSame | Policy::PreferDifferent => {
                check!(
                    got.len() == cap(o.total),
                    "take-all-size",
                    "{what} returned {} processors, expected all {} candidates cut to quota limit {:?}: {got:?}",
                    got.len(),
                    o.total,
                    o.limit
                );
                if cap(o.total) < o.total {
                    // Informational: after the cut, is the preference still honoured optimally?
                    let n = got.len();
                    let ideal = o.expect_take_ignoring_quota(n);
                    if let Expect::Some(Some(k)) = ideal {
                        if regions.len() != k {
                            ctx.probe(if o.policy == Policy::PreferSame {
                                "info/take_all PreferSame cut set not preference-optimal"
                            } else {
                                "info/take_all PreferDifferent cut set not preference-optimal"
                            });
                        }
                    }
                }
            }
            Policy::RequireSame => {
                check!(
                    regions.len() == 1,
                    "require-same-multiple-regions",
                    "{what} returned processors from {} regions: {got:?}",
                    regions.len()
                );
                let r = *regions.iter().next().expect("one region");
                let whole = o.cand.get(&r).map_or(0, BTreeSet::len);
                check!(
                    got.len() == cap(whole),
                    "take-all-not-whole-region",
                    "{what} returned {} of the {whole} candidates of region {r} (quota limit {:?}): {got:?}",
                    got.len(),
                    o.limit
                );
                if whole < o.sizes_desc[0] {
                    // Documented as "an arbitrary memory region"; counted so the reader can see
                    // how often the set is maximal by inclusion but not by cardinality.
                    ctx.probe("info/take_all RequireSame chose a non-largest region");
                }
            }
            Policy::RequireDifferent => {
                check!(
                    regions.len() == got.len(),
                    "require-different-shared-region",
                    "{what} returned {} processors in only {} regions: {got:?}",
                    got.len(),
                    regions.len()
                );
                check!(
                    got.len() == cap(o.regions()),
                    "take-all-size",
                    "{what} returned {} processors, expected one per region ({}) cut to quota limit {:?}: {got:?}",
                    got.len(),
                    o.regions(),
                    o.limit
                );
            }
        }
        ctx.probe(P_TAKE_ALL_SOME[pi]);
        if o.limit.is_some_and(|l| l < o.total) {
            ctx.probe("take_all/quota-limit-below-candidates");
        }
        Ok(())
    }
}

impl Scenario for Sel {
    fn generate(rng: &mut Rng, mode: &str) -> Self {
        match mode {
            "known-c09-prefer-same-overselects" => Self::generate_known_prefer_same(rng),
            "compact" => Self::generate_ordinary(rng, true, DynSource::Allowed),
            "default-set" => Self::generate_ordinary(rng, false, DynSource::Forced),
            _ => Self::generate_ordinary(rng, false, DynSource::Never),
        }
    }

    fn run(&self, ctx: &mut Ctx) -> Result<bool, Violation> {
        ctx.event(self.tokens(), || {
            format!("scenario {}", serde_json::to_string(self).expect("serialises"))
        });
        // Well-formedness (minimised / hand-written scenarios): nothing to run → trivial.
        let ids = self.all_ids();
        if self.procs.is_empty() || ids.len() != self.procs.len() {
            return Ok(false);
        }
        let n_procs = self.procs.len();

        // ---- the fake hardware ----------------------------------------------------------------
        let mut hb = HardwareBuilder::new();
        for p in &self.procs {
            hb = hb.processor(
                ProcessorBuilder::new()
                    .id(p.id)
                    .memory_region(p.region)
                    .efficiency_class(if p.eff { EfficiencyClass::Efficiency } else { EfficiencyClass::Performance }),
            );
        }
        if let Some(m) = self.quota_milli {
            hb = hb.max_processor_time(m as f64 / 1000.0);
        }
        let hw = SystemHardware::fake(hb);
        let all = hw.all_processors();
        {
            // `all_processors()` is itself `take_all` with no criteria: all candidates = everything.
            let got = describe(&all);
            let regions = self.check_members(&What::label("all_processors()"), &got, &ids, false)?;
            check!(
                got.len() == n_procs,
                "take-all-size",
                "all_processors() has {} members, topology has {n_procs}",
                got.len()
            );
            let _ = regions;
        }

        // ---- pin the calling thread (input to `where_available_for_current_thread`) -------------
        if let Some(pin) = &self.pin {
            if let Some(ne) = NonEmpty::from_vec(by_ids(&all, pin)) {
                all.to_builder().take_exact(ne).pin_current_thread_to();
                ctx.probe("setup/thread-pinned");
            }
        }

        // ---- the source set ---------------------------------------------------------------------
        let (source_set, source_ids): (ProcessorSet, BTreeSet<u32>) = match &self.source {
            Source::All => (all.clone(), ids.clone()),
            Source::Default => {
                let set = hw.processors();
                let got = describe(&set);
                self.check_members(&What::label("processors()"), &got, &ids, false)?;
                let want = quota_limit(self.quota_milli, n_procs).min(n_procs);
                check!(
                    got.len() == want,
                    "default-set-size",
                    "processors() has {} members, expected min({n_procs}, max(1, floor(quota {:?}))) = {want}",
                    got.len(),
                    self.quota_milli
                );
                if want < n_procs {
                    ctx.probe("setup/default-set-cut-by-quota");
                }
                let src = got.iter().map(|g| g.0).collect();
                (set, src)
            }
            Source::Exact(list) => match NonEmpty::from_vec(by_ids(&all, list)) {
                None => (all.clone(), ids.clone()),
                Some(ne) => {
                    let want: BTreeSet<u32> = ne.iter().map(Processor::id).collect();
                    let set = all.to_builder().take_exact(ne);
                    let got: BTreeSet<u32> = describe(&set).iter().map(|g| g.0).collect();
                    check!(got == want && set.len() == want.len(), "source-set-mismatch", "take_exact({want:?}) produced {got:?}");
                    ctx.probe("setup/source-take_exact");
                    (set, want)
                }
            },
            Source::Filtered(list) => {
                let want: BTreeSet<u32> = list.iter().copied().filter(|i| ids.contains(i)).collect();
                if want.is_empty() {
                    (all.clone(), ids.clone())
                } else {
                    let set = all.to_builder().filter(|p| want.contains(&p.id())).take_all();
                    let Some(set) = set else {
                        return Err(Violation::new(
                            "take-all-none-but-candidates",
                            format!("filter(id in {want:?}).take_all() returned None"),
                        ));
                    };
                    let got_list = describe(&set);
                    let got: BTreeSet<u32> = got_list.iter().map(|g| g.0).collect();
                    check!(
                        got == want && got_list.len() == want.len(),
                        "source-set-mismatch",
                        "filter(id in {want:?}).take_all() produced {got_list:?}"
                    );
                    ctx.probe("setup/source-filter-take_all");
                    (set, want)
                }
            }
        };

        let o = self.oracle(&source_ids);
        if o.total == 0 {
            ctx.probe("candidates/none");
        }
        let unequal = o.regions() >= 2 && o.sizes_desc.first() != o.sizes_desc.last();
        if unequal {
            ctx.probe("candidates/>=2 regions of unequal size");
        }

        // ---- the request, `reps` times ------------------------------------------------------------
        let bad_predicate_arg: RefCell<Option<String>> = RefCell::new(None);
        for rep in 0..self.reps.max(1) {
            let mut b = source_set.to_builder();
            for c in &self.criteria {
                b = match c {
                    Crit::Except(list) => {
                        let ps = by_ids(&all, list);
                        b.except(ps.iter())
                    }
                    Crit::Filter(pred) => b.filter(|p| {
                        let (id, region, eff) =
                            (p.id(), p.memory_region_id(), p.efficiency_class() == EfficiencyClass::Efficiency);
                        // The predicate must only ever see processors of this hardware, described truthfully.
                        if !self.procs.iter().any(|q| q.id == id && q.region == region && q.eff == eff) {
                            *bad_predicate_arg.borrow_mut() = Some(format!("({id}, region {region}, eff {eff})"));
                        }
                        pred.eval(id, region, eff)
                    }),
                    Crit::Class(ClassSel::Any) | Crit::Region(Policy::Any) => b,
                    Crit::Class(ClassSel::Performance) => b.performance_processors_only(),
                    Crit::Class(ClassSel::Efficiency) => b.efficiency_processors_only(),
                    Crit::Region(Policy::RequireSame) => b.same_memory_region(),
                    Crit::Region(Policy::RequireDifferent) => b.different_memory_regions(),
                    Crit::Region(Policy::PreferSame) => b.prefer_same_memory_region(),
                    Crit::Region(Policy::PreferDifferent) => b.prefer_different_memory_regions(),
                    Crit::EnforceQuota => b.enforce_resource_quota(),
                    Crit::Available => b.where_available_for_current_thread(),
                };
            }
            if let Some(bad) = bad_predicate_arg.borrow_mut().take() {
                return Err(Violation::new(
                    "filter-saw-unknown-processor",
                    format!("the filter predicate was called with {bad}, which the topology does not contain"),
                ));
            }
            let result = match self.request {
                Request::Take(n) => b.take(NonZero::new(n.max(1)).expect("n >= 1")),
                Request::TakeAll => b.take_all(),
            };
            let got = result.as_ref().map(describe);
            // Verdict event. Natively only None/Some is hashed: which processors were chosen (and,
            // for take_all over one arbitrary region, how many) depends on unseamed entropy. Under
            // Miri the choice is a function of the interpreter seed and is part of the trace.
            let mut code = u64::from(got.is_some());
            if cfg!(miri) {
                if let Some(g) = &got {
                    code = mix(code, g.len() as u64);
                    for (id, _, _) in g {
                        code = mix(code, u64::from(*id));
                    }
                }
            }
            ctx.event(code, || format!("rep {rep}: {:?} -> {got:?}", self.request));
            match self.request {
                Request::Take(n) => self.check_take(n.max(1), &o, &source_ids, got.as_deref(), ctx)?,
                Request::TakeAll => self.check_take_all(&o, &source_ids, got.as_deref(), ctx)?,
            }
        }

        // ---- non-triviality (a function of the scenario and the oracle only) --------------------
        let smallest = o.sizes_desc.last().copied().unwrap_or(0);
        let nontrivial = unequal
            && match self.request {
                Request::Take(n) => !matches!(o.expect_take(n), Expect::Some(_)) || n > smallest,
                Request::TakeAll => true,
            };
        Ok(nontrivial)
    }

    fn shrink(&self) -> Vec<Self> {
        let mut out: Vec<Self> = Vec::new();
        for procs in simkit::shrink::remove_chunks(&self.procs) {
            if procs.is_empty() {
                continue;
            }
            let mut c = self.clone();
            c.procs = procs;
            out.push(c);
        }
        for criteria in simkit::shrink::remove_chunks(&self.criteria) {
            let mut c = self.clone();
            c.criteria = criteria;
            out.push(c);
        }
        if self.source != Source::All {
            let mut c = self.clone();
            c.source = Source::All;
            out.push(c);
        }
        if self.pin.is_some() {
            let mut c = self.clone();
            c.pin = None;
            out.push(c);
        }
        if self.quota_milli.is_some() {
            let mut c = self.clone();
            c.quota_milli = None;
            out.push(c);
        }
        if self.reps > 1 {
            let mut c = self.clone();
            c.reps = 1;
            out.push(c);
        }
        if let Request::Take(n) = self.request {
            for m in [n / 2, n.saturating_sub(1)] {
                if m >= 1 && m < n {
                    let mut c = self.clone();
                    c.request = Request::Take(m);
                    out.push(c);
                }
            }
        }
        // Shorter id lists inside criteria.
        for (i, crit) in self.criteria.iter().enumerate() {
            let lists: Vec<Vec<u32>> = match crit {
                Crit::Except(v) | Crit::Filter(Pred::IdNotIn(v)) | Crit::Filter(Pred::RegionIn(v)) => {
                    simkit::shrink::remove_chunks(v)
                }
                _ => Vec::new(),
            };
            for l in lists {
                let mut c = self.clone();
                c.criteria[i] = match crit {
                    Crit::Except(_) => Crit::Except(l),
                    Crit::Filter(Pred::IdNotIn(_)) => Crit::Filter(Pred::IdNotIn(l)),
                    _ => Crit::Filter(Pred::RegionIn(l)),
                };
                out.push(c);
            }
        }
        let size = self.size();
        for c in &mut out {
            c.repair();
        }
        out.retain(|c| c.size() < size && (c.allow_known || !(avoiding(KEY_PREFER_SAME) && c.known_trigger())));
        out
    }

    fn size(&self) -> usize {
        let list = |v: &Vec<u32>| v.len();
        let mut s = self.procs.len() * 4 + self.criteria.len() * 3 + self.reps as usize;
        for c in &self.criteria {
            s += match c {
                Crit::Except(v) | Crit::Filter(Pred::IdNotIn(v)) | Crit::Filter(Pred::RegionIn(v)) => list(v),
                _ => 0,
            };
        }
        s += match &self.source {
            Source::All => 0,
            Source::Default => 2,
            Source::Exact(v) | Source::Filtered(v) => 2 + list(v),
        };
        s += self.pin.as_ref().map_or(0, |v| 1 + list(v));
        s += usize::from(self.quota_milli.is_some());
        s += match self.request {
            Request::Take(n) => n,
            Request::TakeAll => 0,
        };
        s
    }
}

impl Sel {
    /// Drops references to processors that no longer exist.
    fn repair(&mut self) {
        let ids = self.all_ids();
        let keep = |v: &mut Vec<u32>| v.retain(|i| ids.contains(i));
        for c in &mut self.criteria {
            if let Crit::Except(v) | Crit::Filter(Pred::IdNotIn(v)) = c {
                keep(v);
            }
        }
        match &mut self.source {
            Source::Exact(v) | Source::Filtered(v) => {
                keep(v);
                if v.is_empty() {
                    self.source = Source::All;
                }
            }
            _ => {}
        }
        if let Some(v) = &mut self.pin {
            keep(v);
            if v.is_empty() {
                self.pin = None;
            }
        }
    }
}

fn main() {
    simkit::cli_main(
        "h_select",
        vec![
            entry::<Sel>(
                "C09",
                "strict",
                "full-size topologies (1-64 processors, 1-8 regions), all criteria, take(n)/take_all vs the oracle",
            ),
            entry::<Sel>(
                "C09",
                "compact",
                "same generator with 1-12 processors, ids <= 40, 1-2 repetitions (cheaper per case under Miri)",
            ),
            entry::<Sel>(
                "C09",
                "default-set",
                "source = the library's quota-cut default set (which processors it keeps is library entropy; natively not hash-deterministic)",
            ),
            entry::<Sel>(
                "C09",
                "known-c09-prefer-same-overselects",
                "directed regression generator: PreferSame take(n) whose largest-first prefix sums step over n (trigger of the fixed defect c09-prefer-same-overselects)",
            ),
        ],
    )
}
