//! Harness for property C14 (package `vicinal`): every spawned task runs once on its processor,
//! every join handle resolves, dropping the pool joins every worker.
//!
//! Engine: Miri as the seeded scheduler (the pool's worker threads are real threads, interpreted)
//! over `many_cpus::fake` hardware, biased by cooperative yields at the H4 sim points; the same
//! scenarios also run natively for bulk (non-deterministic there; hang = no progress timeout).
//! See plan.json for oracles, assumptions and jobs.

mod exec;
mod globals;
mod scen;

use serde::{Deserialize, Serialize};
use simkit::{Ctx, Rng, Scenario, Violation, entry};

/// Known defects of the unchanged tree (DESIGN §6 #10). While a key is listed, ordinary modes do
/// not generate its trigger and `known-<key>` reproduces it with a directed scenario.
///
/// * `c14-late-spawn-never-resolves`: tasks left in (or added to) a processor queue once its
///   workers have exited are neither run nor dropped while any `Scheduler` clone is alive, so
///   awaiting their handle while holding a `Scheduler` never returns. Avoidance: a thread drops its
///   `Scheduler` clone before any await that may overlap or follow the pool drop, and no spawn is
///   issued after the drop has returned by a thread that then awaits while holding a scheduler.
/// * `c14-shutdown-race-unsignalled-workers`: a first spawn on a processor that passes the
///   shutdown check before `join_all_workers` sets the flag and creates the processor state after
///   the signal loop has visited that slot starts workers that are never told to stop;
///   `ensure_workers_spawned` then joins them forever. Avoidance: a harness-side lock keeps
///   `[ensure:begin .. processor state exists]` of a processor without state and
///   `[drop begins .. join:after-signal]` mutually exclusive.
// Both were fixed in /repo (a4dc05c, 34313ba): nothing is avoided any more; the ordinary modes generate
// late spawns and leave the first-spawn-vs-shutdown window open; the directed modes stay as regressions.
pub const AVOID_KNOWN: &[&str] = &[];
pub const KEY_LATE: &str = "c14-late-spawn-never-resolves";
pub const KEY_RACE: &str = "c14-shutdown-race-unsignalled-workers";
/// A spawn made while another worker's notification is still pending wakes nobody (`notify(1)` is
/// not additive): two back-to-back spawns on two idle workers leave one worker asleep next to a
/// queued task; if the first task needs the second, neither handle ever resolves.
pub const KEY_IDLE_PAIR: &str = "c14-second-spawn-wakes-nobody";

pub fn avoid(key: &str) -> bool {
    AVOID_KNOWN.contains(&key)
}

#[derive(Clone, Debug, Serialize, Deserialize)]
#[serde(transparent)]
struct S(scen::VScenario);

impl Scenario for S {
    fn generate(rng: &mut Rng, mode: &str) -> Self {
        S(scen::VScenario::generate(rng, mode))
    }
    fn run(&self, ctx: &mut Ctx) -> Result<bool, Violation> {
        exec::run(&self.0, ctx)
    }
    fn shrink(&self) -> Vec<Self> {
        self.0.shrink().into_iter().map(S).collect()
    }
    fn size(&self) -> usize {
        self.0.size()
    }
}

fn main() {
    simkit::cli_main(
        "h_vicinal",
        vec![
            entry::<S>("C14", "strict", "no yields, no panicking tasks").isolated(),
            entry::<S>("C14", "faulty", "yields at sim points, panicking tasks, late spawns when not avoided").isolated(),
            entry::<S>("C14", "known-c14-late-spawn-never-resolves", "directed: spawn through a Scheduler after drop(pool) returned").isolated(),
            entry::<S>("C14", "known-c14-shutdown-race-unsignalled-workers", "directed: first spawn held across the shutdown signal loop").isolated(),
            entry::<S>("C14", "known-c14-second-spawn-wakes-nobody", "directed shape: two back-to-back spawns on two idle workers, the first task needs the second").isolated(),
        ],
    )
}
