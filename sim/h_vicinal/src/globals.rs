//! Process-global state reached from the `vicinal::verif` sim-point handler (a plain `fn`), and
//! the handler itself. One scenario runs at a time per process, so globals are sufficient; every
//! run resets them. Everything on the hot path is a Relaxed atomic so that the handler adds no
//! happens-before edge between library threads; the only blocking primitives are the gates used
//! (a) to keep ordinary modes out of the window of a known defect and (b) by directed modes.

use std::cell::Cell;
use std::sync::atomic::{AtomicBool, AtomicU8, AtomicU64, Ordering::Relaxed};
use std::sync::{Condvar, Mutex};

pub const SITES: [&str; 11] = [
    "ensure:begin",
    "ensure:after-shutdown-check",
    "ensure:after-cas",
    "ensure:post-spawn",
    "join:after-flag",
    "join:after-signal",
    "join:after-take",
    "worker:before-listen",
    "worker:before-wait",
    "spawn:after-ensure",
    "spawn:before-notify",
];
pub const NSITES: usize = SITES.len();
pub const S_ENSURE_BEGIN: usize = 0;
pub const S_ENSURE_AFTER_CHECK: usize = 1;
pub const S_ENSURE_AFTER_CAS: usize = 2;
pub const S_ENSURE_POST_SPAWN: usize = 3;
pub const S_JOIN_AFTER_FLAG: usize = 4;
pub const S_JOIN_AFTER_SIGNAL: usize = 5;
pub const S_WORKER_BEFORE_LISTEN: usize = 7;
pub const S_WORKER_BEFORE_WAIT: usize = 8;
pub const S_SPAWN_AFTER_ENSURE: usize = 9;
pub const S_SPAWN_BEFORE_NOTIFY: usize = 10;

pub const MAX_PROCS: usize = 4;

/// Harness-level probes counted from inside the handler / task bodies.
pub const P_WORKER_REACHED_WAIT: usize = 0;
pub const P_TASK_RAN_AFTER_WORKER_WAIT: usize = 1;
pub const P_ENSURE_BEGAN_AFTER_DROP_BEGUN: usize = 2;
pub const P_POST_SPAWN_AFTER_DROP_BEGUN: usize = 3;
pub const P_WON_CAS_AFTER_DROP_BEGUN: usize = 4;
pub const P_ENQUEUE_AFTER_DROP_RETURNED: usize = 5;
pub const P_ENQUEUE_DURING_DROP: usize = 6;
pub const P_FIRST_SPAWN_GATED: usize = 7;
pub const P_WORKER_WOKEN_AGAIN: usize = 8;
pub const P_CONCURRENT_ENSURE: usize = 9;
pub const P_QUIESCENT_CHECK: usize = 10;
pub const P_DEPENDENT_TASK_WAITED: usize = 11;
pub const NPROBES: usize = 12;
pub const PROBE_NAMES: [&str; NPROBES] = [
    "worker-reached-wait",
    "task-ran-after-worker-wait",
    "ensure-began-after-drop-begun",
    "workers-spawned-after-drop-begun",
    "won-first-spawn-cas-after-drop-begun",
    "enqueue-after-drop-returned",
    "enqueue-during-drop",
    "first-spawn-window-gated",
    "worker-woken-then-listening-again",
    "two-threads-inside-ensure",
    "quiescent-worker-check",
    "dependent-task-waited-for-its-peer",
];

/// A boolean gate one can wait on without spinning (so that a stuck run is a *deadlock* under
/// Miri, not a livelock).
pub struct Gate {
    m: Mutex<bool>,
    c: Condvar,
}

impl Gate {
    pub const fn new() -> Self {
        Self { m: Mutex::new(false), c: Condvar::new() }
    }
    pub fn reset(&self) {
        *self.m.lock().unwrap_or_else(|e| e.into_inner()) = false;
    }
    pub fn open(&self) {
        *self.m.lock().unwrap_or_else(|e| e.into_inner()) = true;
        self.c.notify_all();
    }
    pub fn wait(&self) {
        let mut g = self.m.lock().unwrap_or_else(|e| e.into_inner());
        while !*g {
            g = self.c.wait(g).unwrap_or_else(|e| e.into_inner());
        }
    }
    /// Mutual exclusion use: wait until false, then set true.
    pub fn acquire(&self) {
        let mut g = self.m.lock().unwrap_or_else(|e| e.into_inner());
        while *g {
            g = self.c.wait(g).unwrap_or_else(|e| e.into_inner());
        }
        *g = true;
    }
    pub fn release(&self) {
        *self.m.lock().unwrap_or_else(|e| e.into_inner()) = false;
        self.c.notify_all();
    }
}

pub struct Globals {
    pub active: AtomicBool,
    pub epoch: AtomicU64,
    pub stamp: AtomicU64,
    pub prng: AtomicU64,
    pub yield_max: [AtomicU8; NSITES],
    pub yield_pct: [AtomicU8; NSITES],
    pub fired: [AtomicU64; NSITES],
    pub hits: [AtomicU64; NSITES],
    pub probes: [AtomicU64; NPROBES],
    pub drop_begun: AtomicBool,
    pub drop_returned: AtomicBool,
    pub workers_registered: AtomicU64,
    pub workers_exited: AtomicU64,
    pub in_ensure: AtomicU64,
    /// (harness threads finished, livelock declared) — the coordinator waits on this.
    pub done: Mutex<(usize, bool)>,
    pub done_cv: Condvar,
    pub total_hits: AtomicU64,
    pub livelock: AtomicBool,
    /// Spawn calls in flight / begun so far (SeqCst; used by the quiescent-point worker check).
    pub in_spawn: AtomicU64,
    pub spawn_begins: AtomicU64,
    /// Avoidance of known defect `c14-shutdown-race-unsignalled-workers`: `[ensure:begin ..
    /// state created]` of a processor without state excludes `[shutdown flag .. signal loop done]`.
    pub gate_first_spawn: AtomicBool,
    pub warm: [AtomicBool; MAX_PROCS],
    pub window: Gate,
    /// Directed reproduction of the same defect.
    pub directed_race: AtomicBool,
    pub spawner_in_window: Gate,
    pub signal_loop_done: Gate,
    /// Idle-worker tracking (only when the scenario contains `WaitWorkersIdle`): number of workers
    /// that passed `worker:before-wait` (listener registered, queues empty) and have not resumed.
    pub track_idle: AtomicBool,
    pub idle: Mutex<u32>,
    pub idle_cv: Condvar,
}

pub static G: Globals = Globals {
    active: AtomicBool::new(false),
    epoch: AtomicU64::new(0),
    stamp: AtomicU64::new(0),
    prng: AtomicU64::new(0),
    yield_max: [const { AtomicU8::new(0) }; NSITES],
    yield_pct: [const { AtomicU8::new(0) }; NSITES],
    fired: [const { AtomicU64::new(0) }; NSITES],
    hits: [const { AtomicU64::new(0) }; NSITES],
    probes: [const { AtomicU64::new(0) }; NPROBES],
    drop_begun: AtomicBool::new(false),
    drop_returned: AtomicBool::new(false),
    workers_registered: AtomicU64::new(0),
    workers_exited: AtomicU64::new(0),
    in_ensure: AtomicU64::new(0),
    done: Mutex::new((0, false)),
    done_cv: Condvar::new(),
    total_hits: AtomicU64::new(0),
    livelock: AtomicBool::new(false),
    in_spawn: AtomicU64::new(0),
    spawn_begins: AtomicU64::new(0),
    gate_first_spawn: AtomicBool::new(false),
    warm: [const { AtomicBool::new(false) }; MAX_PROCS],
    window: Gate::new(),
    directed_race: AtomicBool::new(false),
    spawner_in_window: Gate::new(),
    signal_loop_done: Gate::new(),
    track_idle: AtomicBool::new(false),
    idle: Mutex::new(0),
    idle_cv: Condvar::new(),
};

pub fn stamp() -> u64 {
    G.stamp.fetch_add(1, Relaxed)
}

pub fn probe(i: usize) {
    G.probes[i].fetch_add(1, Relaxed);
}

pub fn reset(sub_seed: u64) {
    G.active.store(false, Relaxed);
    G.epoch.fetch_add(1, Relaxed);
    G.stamp.store(1, Relaxed);
    G.prng.store(sub_seed, Relaxed);
    for i in 0..NSITES {
        G.yield_max[i].store(0, Relaxed);
        G.yield_pct[i].store(0, Relaxed);
        G.fired[i].store(0, Relaxed);
        G.hits[i].store(0, Relaxed);
    }
    for p in &G.probes {
        p.store(0, Relaxed);
    }
    G.drop_begun.store(false, Relaxed);
    G.drop_returned.store(false, Relaxed);
    G.workers_registered.store(0, Relaxed);
    G.workers_exited.store(0, Relaxed);
    G.in_ensure.store(0, Relaxed);
    *G.done.lock().unwrap_or_else(|e| e.into_inner()) = (0, false);
    G.total_hits.store(0, Relaxed);
    G.livelock.store(false, Relaxed);
    G.in_spawn.store(0, Relaxed);
    G.spawn_begins.store(0, Relaxed);
    G.gate_first_spawn.store(false, Relaxed);
    for w in &G.warm {
        w.store(false, Relaxed);
    }
    G.window.reset();
    G.directed_race.store(false, Relaxed);
    G.spawner_in_window.reset();
    G.signal_loop_done.reset();
    G.track_idle.store(false, Relaxed);
    *G.idle.lock().unwrap_or_else(|e| e.into_inner()) = 0;
}

/// The calling worker is no longer parked (it was woken, or it starts a task).
pub fn worker_resumed() {
    if IDLE.get() {
        IDLE.set(false);
        let mut n = G.idle.lock().unwrap_or_else(|e| e.into_inner());
        *n = n.saturating_sub(1);
    }
}

pub fn wait_workers_idle(n: u32) {
    let mut c = G.idle.lock().unwrap_or_else(|e| e.into_inner());
    while *c < n {
        c = G.idle_cv.wait(c).unwrap_or_else(|e| e.into_inner());
    }
}

fn next_rand() -> u64 {
    let mut z = G.prng.fetch_add(0x9E37_79B9_7F4A_7C15, Relaxed).wrapping_add(0x9E37_79B9_7F4A_7C15);
    z = (z ^ (z >> 30)).wrapping_mul(0xBF58_476D_1CE4_E5B9);
    z = (z ^ (z >> 27)).wrapping_mul(0x94D0_49BB_1331_11EB);
    z ^ (z >> 31)
}

/// Registers the calling thread as a pool worker once; its thread-local destructor counts the exit.
struct WorkerGuard {
    epoch: Cell<u64>,
}

impl Drop for WorkerGuard {
    fn drop(&mut self) {
        if self.epoch.get() != 0 && self.epoch.get() == G.epoch.load(Relaxed) {
            G.workers_exited.fetch_add(1, Relaxed);
        }
    }
}

thread_local! {
    static WORKER: WorkerGuard = const { WorkerGuard { epoch: Cell::new(0) } };
    /// The worker reached `listener.wait()` at least once since it last ran a task.
    pub static WAITED: Cell<bool> = const { Cell::new(false) };
    /// Processor of a harness spawner thread (None on workers).
    pub static MY_PROC: Cell<Option<u8>> = const { Cell::new(None) };
    /// This thread holds the first-spawn window lock.
    static HOLDS_WINDOW: Cell<bool> = const { Cell::new(false) };
    static INSIDE_ENSURE: Cell<bool> = const { Cell::new(false) };
    /// This worker is counted in `G.idle`.
    static IDLE: Cell<bool> = const { Cell::new(false) };
}

pub fn holds_window() -> bool {
    HOLDS_WINDOW.get()
}
pub fn set_holds_window(v: bool) {
    HOLDS_WINDOW.set(v);
}

fn site_index(name: &str) -> Option<usize> {
    SITES.iter().position(|s| *s == name)
}

/// Sim-point visits per run after which the run is declared a livelock (a normal run has < 300).
pub const LIVELOCK_CAP: u64 = 20_000;

pub fn handler(name: &'static str) {
    let Some(i) = site_index(name) else { return };
    if !G.active.load(Relaxed) {
        // A thread left over from a run that was declared hung or livelocked: put a spinning
        // worker to rest so that it does not eat the following runs' time.
        if (i == S_WORKER_BEFORE_LISTEN || i == S_WORKER_BEFORE_WAIT)
            && WORKER.with(|w| w.epoch.get() != 0 && w.epoch.get() != G.epoch.load(Relaxed) || G.livelock.load(Relaxed))
        {
            loop {
                std::thread::park();
            }
        }
        return;
    }
    G.hits[i].fetch_add(1, Relaxed);
    if G.total_hits.fetch_add(1, Relaxed) == LIVELOCK_CAP {
        G.livelock.store(true, Relaxed);
        G.done.lock().unwrap_or_else(|e| e.into_inner()).1 = true;
        G.done_cv.notify_all();
    }

    match i {
        S_WORKER_BEFORE_LISTEN | S_WORKER_BEFORE_WAIT => {
            WORKER.with(|w| {
                if w.epoch.get() == 0 {
                    w.epoch.set(G.epoch.load(Relaxed));
                    G.workers_registered.fetch_add(1, Relaxed);
                }
            });
            if i == S_WORKER_BEFORE_WAIT {
                WAITED.set(true);
                probe(P_WORKER_REACHED_WAIT);
                if G.track_idle.load(Relaxed) && !IDLE.get() {
                    IDLE.set(true);
                    *G.idle.lock().unwrap_or_else(|e| e.into_inner()) += 1;
                    G.idle_cv.notify_all();
                }
            } else {
                if WAITED.get() {
                    probe(P_WORKER_WOKEN_AGAIN);
                }
                if G.track_idle.load(Relaxed) {
                    worker_resumed();
                }
            }
        }
        S_ENSURE_BEGIN => {
            INSIDE_ENSURE.set(true);
            if G.in_ensure.fetch_add(1, Relaxed) > 0 {
                probe(P_CONCURRENT_ENSURE);
            }
            if G.drop_begun.load(Relaxed) {
                probe(P_ENSURE_BEGAN_AFTER_DROP_BEGUN);
            }
            if G.gate_first_spawn.load(Relaxed) {
                if let Some(p) = MY_PROC.get() {
                    if !G.warm[p as usize].load(std::sync::atomic::Ordering::Acquire) {
                        G.window.acquire();
                        HOLDS_WINDOW.set(true);
                        probe(P_FIRST_SPAWN_GATED);
                    }
                }
            }
        }
        S_ENSURE_AFTER_CHECK => {
            if G.directed_race.load(Relaxed) && MY_PROC.get().is_some() {
                // Directed: stay between the shutdown check and the creation of the processor
                // state until the pool's shutdown signal loop has completed.
                G.spawner_in_window.open();
                G.signal_loop_done.wait();
            }
        }
        S_ENSURE_AFTER_CAS => {
            if G.drop_begun.load(Relaxed) {
                probe(P_WON_CAS_AFTER_DROP_BEGUN);
            }
            if HOLDS_WINDOW.get() {
                HOLDS_WINDOW.set(false);
                G.window.release();
            }
        }
        S_ENSURE_POST_SPAWN => {
            if G.drop_begun.load(Relaxed) {
                probe(P_POST_SPAWN_AFTER_DROP_BEGUN);
            }
        }
        S_SPAWN_AFTER_ENSURE => {
            if INSIDE_ENSURE.get() {
                INSIDE_ENSURE.set(false);
                G.in_ensure.fetch_sub(1, Relaxed);
            }
            if let Some(p) = MY_PROC.get() {
                // The processor state exists from here on (created by ensure, or — when ensure
                // returned early because of shutdown — the signal loop is over anyway).
                G.warm[p as usize].store(true, std::sync::atomic::Ordering::Release);
            }
            if HOLDS_WINDOW.get() {
                HOLDS_WINDOW.set(false);
                G.window.release();
            }
        }
        S_SPAWN_BEFORE_NOTIFY => {
            if G.drop_returned.load(Relaxed) {
                probe(P_ENQUEUE_AFTER_DROP_RETURNED);
            } else if G.drop_begun.load(Relaxed) {
                probe(P_ENQUEUE_DURING_DROP);
            }
        }
        S_JOIN_AFTER_SIGNAL => {
            if HOLDS_WINDOW.get() {
                HOLDS_WINDOW.set(false);
                G.window.release();
            }
            if G.directed_race.load(Relaxed) {
                G.signal_loop_done.open();
            }
        }
        S_JOIN_AFTER_FLAG => {}
        _ => {}
    }

    // Fault plan: yield a PRNG-chosen number of times at the sites selected for this run.
    let max = G.yield_max[i].load(Relaxed);
    if max > 0 {
        let r = next_rand();
        if (r % 100) < u64::from(G.yield_pct[i].load(Relaxed)) {
            let n = 1 + (r >> 8) % u64::from(max);
            G.fired[i].fetch_add(1, Relaxed);
            for _ in 0..n {
                std::thread::yield_now();
            }
        }
    }
}
