//! Executes one scenario against the real `vicinal` pool over `many_cpus::fake` hardware.

use std::future::Future;
use std::num::NonZero;
use std::panic::{AssertUnwindSafe, catch_unwind};
use std::pin::pin;
use std::sync::atomic::Ordering::{Acquire, Relaxed, Release, SeqCst};
use std::sync::atomic::{AtomicBool, AtomicU32, AtomicU64};
use std::sync::{Arc, Condvar, Mutex};
use std::task::{Context, Poll, Wake, Waker};
use std::thread::{self, Thread};

use many_cpus::SystemHardware;
use many_cpus::fake::HardwareBuilder;
use simkit::{Ctx, Violation, mix};
use vicinal::{JoinHandle, Pool, Scheduler};

use crate::globals::{self as g, G, Gate};
use crate::scen::{Directed, Kind, MAX_TASKS, Op, VScenario};

const ABANDONED_MSG: &str = "task was abandoned because the pool was shut down";

// ---- minimal park/unpark executor -------------------------------------------------------------

struct ParkWaker {
    thread: Thread,
    woken: AtomicBool,
}

impl Wake for ParkWaker {
    fn wake(self: Arc<Self>) {
        self.woken.store(true, Release);
        self.thread.unpark();
    }
}

fn block_on<F: Future>(f: F) -> F::Output {
    let mut f = pin!(f);
    let pw = Arc::new(ParkWaker { thread: thread::current(), woken: AtomicBool::new(false) });
    let waker = Waker::from(Arc::clone(&pw));
    let mut cx = Context::from_waker(&waker);
    loop {
        if let Poll::Ready(v) = f.as_mut().poll(&mut cx) {
            return v;
        }
        while !pw.woken.swap(false, Acquire) {
            thread::park();
        }
    }
}

// ---- per-run shared state ------------------------------------------------------------------------

struct Shared {
    hw: SystemHardware,
    ran: [AtomicU32; MAX_TASKS],
    ran_stamp: [AtomicU64; MAX_TASKS],
    dropped: [AtomicU32; MAX_TASKS],
    /// Processor observed inside the task body, plus one (0 = not recorded).
    proc_seen: [AtomicU32; MAX_TASKS],
    started: [(Mutex<bool>, Condvar); MAX_TASKS],
    pre_done: Mutex<usize>,
    pre_done_cv: Condvar,
    drop_returned: Gate,
    drop_begin_stamp: AtomicU64,
    drop_end_stamp: AtomicU64,
    /// What each harness thread is doing right now (0 = idle/other; see `busy_name`).
    busy: [AtomicU32; 4],
}

fn busy_name(code: u32) -> &'static str {
    match code {
        1 => "spawn",
        2 => "drop-pool",
        3 => "wait-run",
        4 => "await",
        5 => "gate",
        _ => "other",
    }
}

struct DropGuard {
    sh: Arc<Shared>,
    task: usize,
}

impl Drop for DropGuard {
    fn drop(&mut self) {
        self.sh.dropped[self.task].fetch_add(1, Relaxed);
    }
}

#[derive(Clone, Debug, PartialEq, Eq)]
enum Outcome {
    Value(u64),
    TaskPanic,
    Abandoned,
    Other(String),
}

#[derive(Clone, Debug)]
struct Ev {
    begin: u64,
    end: u64,
    thread: usize,
    what: &'static str,
    task: i64,
    result: String,
}

#[derive(Default)]
struct ThreadResult {
    events: Vec<Ev>,
    violation: Option<Violation>,
    /// (task, processor of the spawner, spawn begin stamp, spawn end stamp)
    spawns: Vec<(usize, u8, u64, u64)>,
    awaited: Vec<(usize, Outcome, u64)>,
}

fn task_value(task: usize) -> u64 {
    1000 + task as u64
}

fn make_body(sh: &Arc<Shared>, task: usize, panics: bool, waits_for: Option<usize>) -> impl FnOnce() -> u64 + Send + 'static {
    let guard = DropGuard { sh: Arc::clone(sh), task };
    move || {
        let guard = guard;
        let sh = &guard.sh;
        if G.track_idle.load(Relaxed) {
            g::worker_resumed();
        }
        sh.ran[task].fetch_add(1, Relaxed);
        sh.ran_stamp[task].store(g::stamp(), Relaxed);
        let p = sh.hw.current_processor_id();
        sh.proc_seen[task].store(p + 1, Relaxed);
        if g::WAITED.get() {
            g::WAITED.set(false);
            g::probe(g::P_TASK_RAN_AFTER_WORKER_WAIT);
        }
        {
            let (m, c) = &sh.started[task];
            *m.lock().unwrap_or_else(|e| e.into_inner()) = true;
            c.notify_all();
        }
        if let Some(on) = waits_for {
            // A task that needs another task of the same pool to have started.
            g::probe(g::P_DEPENDENT_TASK_WAITED);
            let (m, c) = &sh.started[on];
            let mut st = m.lock().unwrap_or_else(|e| e.into_inner());
            while !*st {
                st = c.wait(st).unwrap_or_else(|e| e.into_inner());
            }
        }
        if panics {
            panic!("injected task panic {task}");
        }
        task_value(task)
    }
}

fn classify(task: usize, r: Result<u64, Box<dyn std::any::Any + Send>>) -> Outcome {
    match r {
        Ok(v) => Outcome::Value(v),
        Err(p) => {
            let msg = simkit::panic_message(&p);
            if msg == ABANDONED_MSG {
                Outcome::Abandoned
            } else if msg == format!("injected task panic {task}") {
                Outcome::TaskPanic
            } else {
                Outcome::Other(msg)
            }
        }
    }
}

struct ThreadCtx {
    idx: usize,
    dropper: usize,
    pin_set: Option<many_cpus::ProcessorSet>,
    sc: Arc<VScenario>,
    sh: Arc<Shared>,
    sched: Option<Scheduler>,
    pool: Option<Pool>,
    handles: Vec<(usize, JoinHandle<u64>)>,
    panics: [bool; MAX_TASKS],
    res: ThreadResult,
}

impl ThreadCtx {
    fn fail(&mut self, class: &str, detail: String) {
        if self.res.violation.is_none() {
            self.res.violation = Some(Violation::new(class, detail));
        }
    }

    fn ev(&mut self, begin: u64, what: &'static str, task: i64, result: String) {
        let end = g::stamp();
        self.res.events.push(Ev { begin, end, thread: self.idx, what, task, result });
    }

    fn set_busy(&self, code: u32) {
        self.sh.busy[self.idx].store(code, Relaxed);
    }

    /// "drop(pool) returns with every worker joined": whenever the drop has returned and no spawn
    /// call is in flight, every worker thread that ever registered has been joined by someone
    /// (by join_all_workers, or inline by the ensure_workers_spawned call that created it), i.e.
    /// its thread-local destructor has run. Evaluated by whichever operation finishes last.
    fn quiescent_worker_check(&mut self) {
        let b0 = G.spawn_begins.load(SeqCst);
        if G.drop_returned.load(SeqCst) && G.in_spawn.load(SeqCst) == 0 {
            let exited = G.workers_exited.load(SeqCst);
            let reg = G.workers_registered.load(SeqCst);
            if G.spawn_begins.load(SeqCst) == b0 && G.in_spawn.load(SeqCst) == 0 {
                g::probe(g::P_QUIESCENT_CHECK);
                if reg != exited {
                    self.fail(
                        "worker-not-joined",
                        format!(
                            "drop(pool) has returned and no spawn call is in flight, but {reg} worker threads registered and only \
                             {exited} have terminated"
                        ),
                    );
                }
            }
        }
    }

    fn do_spawn(&mut self, task: usize, kind: Kind, panics: bool, detach: bool, section: &'static str) {
        self.do_spawn_dep(task, kind, panics, detach, section, None);
    }

    fn do_spawn_dep(&mut self, task: usize, kind: Kind, panics: bool, detach: bool, section: &'static str, waits_for: Option<usize>) {
        let Some(sched) = self.sched.clone() else { return };
        if task >= MAX_TASKS || waits_for.is_some_and(|w| w >= MAX_TASKS) {
            return;
        }
        self.panics[task] = panics;
        let body = make_body(&self.sh, task, panics, waits_for);
        let begin = g::stamp();
        self.set_busy(1);
        G.spawn_begins.fetch_add(1, SeqCst);
        G.in_spawn.fetch_add(1, SeqCst);
        let r = catch_unwind(AssertUnwindSafe(|| match kind {
            Kind::Regular => Some(sched.spawn(body)),
            Kind::Urgent => Some(sched.spawn_urgent(body)),
            Kind::Forget => {
                sched.spawn_and_forget(move || {
                    body();
                });
                None
            }
            Kind::UrgentForget => {
                sched.spawn_urgent_and_forget(move || {
                    body();
                });
                None
            }
        }));
        G.in_spawn.fetch_sub(1, SeqCst);
        self.set_busy(0);
        self.quiescent_worker_check();
        let end = g::stamp();
        let processor = self.sc.threads[self.idx].processor;
        self.res.spawns.push((task, processor, begin, end));
        match r {
            Ok(h) => {
                if let Some(h) = h {
                    if detach {
                        drop(h);
                    } else {
                        self.handles.push((task, h));
                    }
                }
                self.res.events.push(Ev {
                    begin,
                    end,
                    thread: self.idx,
                    what: section,
                    task: task as i64,
                    result: format!("{kind:?}{}", if detach { " detached" } else { "" }),
                });
            }
            Err(p) => {
                let msg = simkit::panic_message(&p);
                self.fail("spawn-panicked", format!("thread {} spawn of task {task} panicked: {msg}", self.idx));
            }
        }
    }

    fn check_outcome(&mut self, task: usize, o: &Outcome, end: u64) {
        let ran = self.sh.ran[task].load(Relaxed);
        match o {
            Outcome::Value(v) => {
                if *v != task_value(task) {
                    self.fail("wrong-value", format!("handle of task {task} yielded {v}"));
                } else if ran != 1 {
                    self.fail("value-without-run", format!("handle of task {task} yielded a value, run counter {ran}"));
                } else if self.panics[task] {
                    self.fail("panic-not-reraised", format!("task {task} panics but its handle yielded a value"));
                }
            }
            Outcome::TaskPanic => {
                if !self.panics[task] || ran != 1 {
                    self.fail("spurious-task-panic", format!("task {task}: panic re-raised, panics={} ran={ran}", self.panics[task]));
                }
            }
            Outcome::Abandoned => {
                let db = self.sh.drop_begin_stamp.load(Relaxed);
                if ran != 0 {
                    self.fail("abandoned-but-ran", format!("task {task} reported abandoned, run counter {ran}"));
                } else if db == 0 || db > end {
                    self.fail(
                        "abandoned-on-live-pool",
                        format!("task {task} reported abandoned at stamp {end} but the pool drop began at {db} (0 = never)"),
                    );
                }
            }
            Outcome::Other(msg) => {
                self.fail("unexpected-panic", format!("awaiting task {task} panicked: {msg}"));
            }
        }
    }

    fn do_await(&mut self, task: usize) {
        let Some(pos) = self.handles.iter().position(|(t, _)| *t == task) else { return };
        let (_, h) = self.handles.remove(pos);
        let begin = g::stamp();
        self.set_busy(4);
        let r = catch_unwind(AssertUnwindSafe(|| block_on(h)));
        self.set_busy(0);
        let o = classify(task, r);
        let end = g::stamp();
        self.check_outcome(task, &o, end);
        self.res.awaited.push((task, o.clone(), end));
        self.res.events.push(Ev { begin, end, thread: self.idx, what: "await", task: task as i64, result: format!("{o:?}") });
    }

    fn do_wait_run(&mut self, task: usize) {
        if !self.res.spawns.iter().any(|s| s.0 == task) {
            return;
        }
        let begin = g::stamp();
        self.set_busy(3);
        {
            let (m, c) = &self.sh.started[task];
            let mut st = m.lock().unwrap_or_else(|e| e.into_inner());
            while !*st {
                st = c.wait(st).unwrap_or_else(|e| e.into_inner());
            }
        }
        self.set_busy(0);
        self.ev(begin, "wait-run", task as i64, String::new());
    }

    fn do_drop_pool(&mut self) {
        let Some(pool) = self.pool.take() else { return };
        // The pool drop waits for every thread's `pre` section.
        self.set_busy(5);
        {
            let n = self.sc.threads.len();
            let mut d = self.sh.pre_done.lock().unwrap_or_else(|e| e.into_inner());
            while *d < n {
                d = self.sh.pre_done_cv.wait(d).unwrap_or_else(|e| e.into_inner());
            }
        }
        if self.sc.directed == Directed::ShutdownRace {
            G.spawner_in_window.wait();
        }
        if self.sc.gate_first_spawn {
            G.window.acquire();
            g::set_holds_window(true);
        }
        let begin = g::stamp();
        self.sh.drop_begin_stamp.store(begin, Relaxed);
        G.drop_begun.store(true, Relaxed);
        self.set_busy(2);
        let r = catch_unwind(AssertUnwindSafe(|| drop(pool)));
        self.set_busy(0);
        if g::holds_window() {
            // join_all_workers did not reach its sim point (should not happen).
            g::set_holds_window(false);
            G.window.release();
        }
        G.drop_returned.store(true, SeqCst);
        self.quiescent_worker_check();
        let end = g::stamp();
        self.sh.drop_end_stamp.store(end, Relaxed);
        self.sh.drop_returned.open();
        self.res.events.push(Ev { begin, end, thread: self.idx, what: "drop-pool", task: -1, result: String::new() });
        if let Err(p) = r {
            let msg = simkit::panic_message(&p);
            self.fail("drop-pool-panicked", msg);
        }
    }

    fn run_ops(&mut self, ops: &[Op], section: &'static str, allow_wait: bool) {
        let is_dropper = self.dropper == self.idx;
        for (i, op) in ops.iter().enumerate() {
            if section == "race-spawn" && is_dropper && i == self.sc.drop_at {
                self.do_drop_pool();
            }
            match op {
                Op::Spawn { task, kind, panics, detach } => {
                    self.do_spawn(usize::from(*task), *kind, *panics, *detach, section);
                }
                Op::Await { task } => {
                    if allow_wait {
                        self.do_await(usize::from(*task));
                    }
                }
                Op::WaitRun { task } => {
                    if allow_wait && section == "pre-spawn" {
                        self.do_wait_run(usize::from(*task));
                    }
                }
                Op::Yield { n } => {
                    for _ in 0..*n {
                        thread::yield_now();
                    }
                }
                Op::SpawnDependent { task, on } => {
                    if section == "pre-spawn" {
                        self.do_spawn_dep(usize::from(*task), Kind::Regular, false, false, section, Some(usize::from(*on)));
                    }
                }
                Op::WaitWorkersIdle { n } => {
                    if section == "pre-spawn" {
                        let begin = g::stamp();
                        self.set_busy(5);
                        g::wait_workers_idle(u32::from(*n));
                        self.set_busy(0);
                        self.ev(begin, "workers-idle", -1, format!("{n}"));
                    }
                }
            }
            if self.res.violation.is_some() {
                // Keep going: the run must still terminate cleanly; only the first violation is kept.
            }
        }
    }

    /// Directed late-spawn check: spawn through the surviving scheduler after the drop returned,
    /// poll once, convict if pending while no worker of the pool is alive.
    fn directed_late(&mut self) {
        let late = self.sc.threads[self.idx].late.clone();
        for op in &late {
            match op {
                Op::Spawn { task, kind, panics, detach } => {
                    self.do_spawn(usize::from(*task), *kind, *panics, *detach, "late-spawn");
                }
                Op::Await { task } => {
                    let task = usize::from(*task);
                    let Some(pos) = self.handles.iter().position(|(t, _)| *t == task) else { continue };
                    let begin = g::stamp();
                    let alive = G.workers_registered.load(Relaxed) - G.workers_exited.load(Relaxed);
                    let pw = Arc::new(ParkWaker { thread: thread::current(), woken: AtomicBool::new(false) });
                    let waker = Waker::from(pw);
                    let mut cx = Context::from_waker(&waker);
                    let h = &mut self.handles[pos].1;
                    let polled = catch_unwind(AssertUnwindSafe(|| std::pin::Pin::new(h).poll(&mut cx)));
                    match polled {
                        Ok(Poll::Pending) => {
                            self.ev(begin, "late-poll", task as i64, "Pending".into());
                            if alive == 0 {
                                self.fail(
                                    "late-spawn-never-resolves",
                                    format!(
                                        "task {task} was spawned through a Scheduler after drop(pool) returned; its handle is \
                                         pending, its closure was neither run nor dropped (ran={}, dropped={}), and no worker \
                                         thread of the pool is alive: nothing can resolve the handle while the Scheduler lives",
                                        self.sh.ran[task].load(Relaxed),
                                        self.sh.dropped[task].load(Relaxed)
                                    ),
                                );
                            }
                            // Clean up without hanging: releasing the last Scheduler drops the queue.
                        }
                        Ok(Poll::Ready(v)) => {
                            let o = Outcome::Value(v);
                            let end = g::stamp();
                            self.check_outcome(task, &o, end);
                            self.handles.remove(pos);
                            self.res.awaited.push((task, o, end));
                            self.ev(begin, "late-poll", task as i64, "Ready".into());
                        }
                        Err(p) => {
                            let o = classify(task, Err(p));
                            let end = g::stamp();
                            self.check_outcome(task, &o, end);
                            self.handles.remove(pos);
                            self.res.awaited.push((task, o.clone(), end));
                            self.ev(begin, "late-poll", task as i64, format!("{o:?}"));
                        }
                    }
                }
                _ => {}
            }
        }
    }

    fn run(mut self) -> ThreadResult {
        let script = self.sc.threads[self.idx].clone();
        g::MY_PROC.set(Some(script.processor));
        // Pin (fake) to the processor.
        match self.pin_set.take() {
            Some(s) => s.pin_current_thread_to(),
            None => self.fail("harness-no-such-processor", format!("processor {}", script.processor)),
        }
        for _ in 0..script.start_yields {
            thread::yield_now();
        }
        self.run_ops(&script.pre, "pre-spawn", true);
        {
            let mut d = self.sh.pre_done.lock().unwrap_or_else(|e| e.into_inner());
            *d += 1;
            self.sh.pre_done_cv.notify_all();
        }
        self.run_ops(&script.race, "race-spawn", script.hold_scheduler);
        if self.dropper == self.idx {
            self.do_drop_pool(); // no-op if already dropped
        }
        if !script.hold_scheduler {
            self.sched = None;
        }
        if !script.late.is_empty() && self.sched.is_some() {
            self.set_busy(5);
            self.sh.drop_returned.wait();
            self.set_busy(0);
            if self.sc.directed == Directed::LateSpawn {
                self.directed_late();
                self.sched = None;
            } else {
                self.run_ops(&script.late, "late-spawn", true);
            }
        }
        // Await everything that is left.
        let left: Vec<usize> = self.handles.iter().map(|(t, _)| *t).collect();
        for task in left {
            self.do_await(task);
        }
        self.sched = None;
        g::MY_PROC.set(None);
        self.res
    }
}

struct DoneSignal(u64);
impl Drop for DoneSignal {
    fn drop(&mut self) {
        if G.epoch.load(Relaxed) != self.0 {
            return; // a thread leaked by an earlier (hung) run
        }
        let mut d = G.done.lock().unwrap_or_else(|e| e.into_inner());
        d.0 += 1;
        G.done_cv.notify_all();
    }
}

fn progress_token() -> u64 {
    let mut t = G.stamp.load(Relaxed);
    for h in &G.hits {
        t = t.wrapping_add(h.load(Relaxed));
    }
    t
}

pub fn run(sc: &VScenario, ctx: &mut Ctx) -> Result<bool, Violation> {
    let n = sc.threads.len();
    if n == 0 || n > 4 || sc.processors == 0 || usize::from(sc.processors) > g::MAX_PROCS {
        return Ok(false);
    }
    g::reset(sc.sub_seed);
    for y in &sc.yields {
        if let Some(i) = g::SITES.iter().position(|s| *s == y.site) {
            G.yield_max[i].store(y.max, Relaxed);
            G.yield_pct[i].store(y.percent, Relaxed);
        }
    }
    G.gate_first_spawn.store(sc.gate_first_spawn, Relaxed);
    G.directed_race.store(sc.directed == Directed::ShutdownRace, Relaxed);
    G.track_idle.store(
        sc.threads.iter().any(|t| t.pre.iter().any(|o| matches!(o, Op::WaitWorkersIdle { .. }))),
        Relaxed,
    );
    vicinal::verif::set_sim_point_handler(Some(g::handler));
    G.active.store(true, Relaxed);

    let hw = SystemHardware::fake(HardwareBuilder::from_counts(
        NonZero::new(usize::from(sc.processors)).expect("non-zero"),
        NonZero::new(1).expect("non-zero"),
    ));
    let pool = Pool::builder()
        .name("sim")
        .hardware(hw.clone())
        .workers_per_processor(NonZero::new(u32::from(sc.workers_per_processor.max(1))).expect("non-zero"))
        .build();
    let sh = Arc::new(Shared {
        hw,
        ran: [const { AtomicU32::new(0) }; MAX_TASKS],
        ran_stamp: [const { AtomicU64::new(0) }; MAX_TASKS],
        dropped: [const { AtomicU32::new(0) }; MAX_TASKS],
        proc_seen: [const { AtomicU32::new(0) }; MAX_TASKS],
        started: std::array::from_fn(|_| (Mutex::new(false), Condvar::new())),
        pre_done: Mutex::new(0),
        pre_done_cv: Condvar::new(),
        drop_returned: Gate::new(),
        drop_begin_stamp: AtomicU64::new(0),
        drop_end_stamp: AtomicU64::new(0),
        busy: [const { AtomicU32::new(0) }; 4],
    });
    let sc_arc = Arc::new(sc.clone());
    let all_processors = sh.hw.processors();
    let dropper = sc.dropper.min(n - 1);
    let mut pool = Some(pool);
    let mut joins = Vec::new();
    let scheds: Vec<Scheduler> = (0..n).map(|_| pool.as_ref().expect("pool").scheduler()).collect();
    for (idx, sched) in scheds.into_iter().enumerate() {
        let tc = ThreadCtx {
            idx,
            dropper,
            pin_set: all_processors.filter(|p| p.id() == u32::from(sc.threads[idx].processor)),
            sc: Arc::clone(&sc_arc),
            sh: Arc::clone(&sh),
            sched: Some(sched),
            pool: if idx == dropper { pool.take() } else { None },
            handles: Vec::new(),
            panics: [false; MAX_TASKS],
            res: ThreadResult::default(),
        };
        let sig = DoneSignal(G.epoch.load(Relaxed));
        let j = thread::Builder::new()
            .name(format!("h{idx}"))
            .spawn(move || {
                let _sig = sig;
                tc.run()
            })
            .expect("spawn harness thread");
        joins.push(j);
    }

    // Wait for the threads: blocking under Miri (a stuck run = deadlock error), with a
    // no-progress timeout natively.
    let mut hung = false;
    let mut livelock = false;
    {
        let mut d = G.done.lock().unwrap_or_else(|e| e.into_inner());
        if cfg!(miri) {
            while d.0 < n && !d.1 {
                d = G.done_cv.wait(d).unwrap_or_else(|e| e.into_inner());
            }
        } else {
            let mut last = progress_token();
            let mut since = std::time::Instant::now();
            while d.0 < n && !d.1 {
                let (g2, _) = G
                    .done_cv
                    .wait_timeout(d, std::time::Duration::from_millis(100))
                    .unwrap_or_else(|e| e.into_inner());
                d = g2;
                let now = progress_token();
                if now != last {
                    last = now;
                    since = std::time::Instant::now();
                } else if since.elapsed().as_secs() >= u64::from(sc.hang_secs.max(1)) {
                    hung = true;
                    break;
                }
            }
        }
        if d.0 < n && d.1 {
            livelock = true;
        }
    }
    if livelock {
        G.active.store(false, Relaxed);
        let busy: Vec<u32> = (0..n).map(|t| sh.busy[t].load(Relaxed)).collect();
        let hits: Vec<(&str, u64)> = (0..g::NSITES).map(|i| (g::SITES[i], G.hits[i].load(Relaxed))).filter(|h| h.1 > 0).collect();
        return Err(Violation::new(
            "livelock",
            format!(
                "{} sim-point visits without the run finishing; harness threads are in: {:?}; visits: {hits:?}",
                g::LIVELOCK_CAP,
                busy.iter().map(|b| busy_name(*b)).collect::<Vec<_>>()
            ),
        ));
    }
    if hung {
        G.active.store(false, Relaxed);
        let busy: Vec<u32> = (0..n).map(|t| sh.busy[t].load(Relaxed)).collect();
        let pick = [1_u32, 2, 3, 4, 5, 0]
            .into_iter()
            .find(|c| busy.iter().any(|b| b == c))
            .unwrap_or(0);
        let detail = format!(
            "no progress for {} s; threads are in: {:?}; drop begun={} returned={}; workers registered={} exited={}",
            sc.hang_secs,
            busy.iter().map(|b| busy_name(*b)).collect::<Vec<_>>(),
            G.drop_begun.load(Relaxed),
            G.drop_returned.load(Relaxed),
            G.workers_registered.load(Relaxed),
            G.workers_exited.load(Relaxed),
        );
        // The stuck threads are leaked (they are blocked for good).
        return Err(Violation::new(&format!("hang-{}", busy_name(pick)), detail));
    }
    let mut results: Vec<ThreadResult> = Vec::new();
    for j in joins {
        match j.join() {
            Ok(r) => results.push(r),
            Err(p) => {
                G.active.store(false, Relaxed);
                return Err(Violation::new("harness-thread-panicked", simkit::panic_message(&p)));
            }
        }
    }
    G.active.store(false, Relaxed);
    vicinal::verif::set_sim_point_handler(None);

    // ---- event log (merged by begin stamp) ------------------------------------------------------
    let mut events: Vec<Ev> = results.iter().flat_map(|r| r.events.iter().cloned()).collect();
    for t in 0..MAX_TASKS {
        let s = sh.ran_stamp[t].load(Relaxed);
        if s != 0 {
            events.push(Ev {
                begin: s,
                end: s,
                thread: 99,
                what: "task-body",
                task: t as i64,
                result: format!("on processor {}", i64::from(sh.proc_seen[t].load(Relaxed)) - 1),
            });
        }
    }
    events.sort_by_key(|e| (e.begin, e.thread));
    for e in &events {
        let code = mix(
            mix(simkit::hash_str(e.what), e.thread as u64),
            mix(e.task as u64, simkit::hash_str(&e.result)),
        );
        ctx.event(code, || format!("[{}..{}] t{} {} task {} {}", e.begin, e.end, e.thread, e.what, e.task, e.result));
    }

    // ---- counters ---------------------------------------------------------------------------------
    for i in 0..g::NSITES {
        let f = G.fired[i].load(Relaxed);
        for _ in 0..f {
            ctx.fault(&format!("yield@{}", g::SITES[i]));
        }
        ctx.steps += G.hits[i].load(Relaxed);
    }
    for i in 0..g::NPROBES {
        let c = G.probes[i].load(Relaxed);
        if c > 0 {
            ctx.probe_n(g::PROBE_NAMES[i], c);
        }
    }

    // ---- oracles -----------------------------------------------------------------------------------
    if let Some(v) = results.iter().find_map(|r| r.violation.clone()) {
        return Err(v);
    }
    let db = sh.drop_begin_stamp.load(Relaxed);
    let de = sh.drop_end_stamp.load(Relaxed);
    simkit::check!(db != 0 && de != 0, "harness-pool-not-dropped", "the pool was never dropped");
    let mut first_seen = [false; g::MAX_PROCS];
    let mut all_spawns: Vec<(usize, u8, u64, u64)> = results.iter().flat_map(|r| r.spawns.iter().copied()).collect();
    all_spawns.sort_by_key(|s| s.2);
    let mut nt_overlap = false;
    let mut nt_first_overlap = false;
    for (task, processor, sb, se) in &all_spawns {
        let ran = sh.ran[*task].load(Relaxed);
        let dropped = sh.dropped[*task].load(Relaxed);
        simkit::check!(ran <= 1, "task-ran-twice", "task {task} ran {ran} times");
        if ran == 1 {
            let seen = i64::from(sh.proc_seen[*task].load(Relaxed)) - 1;
            simkit::check!(
                seen == i64::from(*processor),
                "wrong-processor",
                "task {task} spawned from processor {processor} ran on processor {seen}"
            );
            ctx.probe("task-ran");
        } else {
            ctx.probe("task-never-ran");
        }
        simkit::check!(dropped >= 1, "task-leaked", "closure of task {task} was never dropped (ran={ran}) after pool, schedulers and workers are gone");
        simkit::check!(dropped == 1, "task-dropped-twice", "closure of task {task} dropped {dropped} times");
        let overlaps = *sb < de && db < *se;
        if overlaps {
            nt_overlap = true;
            ctx.probe("drop-overlapped-spawn");
        }
        if !first_seen[usize::from(*processor)] {
            first_seen[usize::from(*processor)] = true;
            ctx.probe("first-spawn-for-processor");
            if overlaps {
                nt_first_overlap = true;
                ctx.probe("first-spawn-overlapped-drop");
            }
            if *sb > de {
                ctx.probe("first-spawn-after-drop-returned");
            }
        }
        if *sb > de {
            ctx.probe("spawn-after-drop-returned");
        }
    }
    for r in &results {
        for (_, o, _) in &r.awaited {
            ctx.probe(match o {
                Outcome::Value(_) => "handle-value",
                Outcome::TaskPanic => "handle-task-panic",
                Outcome::Abandoned => "handle-abandoned",
                Outcome::Other(_) => "handle-other",
            });
        }
    }
    let reg = G.workers_registered.load(Relaxed);
    let exited = G.workers_exited.load(Relaxed);
    simkit::check!(
        reg == exited,
        "worker-not-joined",
        "{reg} worker threads reached their wait loop but only {exited} have exited after drop(pool) and all spawners returned"
    );
    let woke = G.probes[g::P_TASK_RAN_AFTER_WORKER_WAIT].load(Relaxed) > 0;
    let conc = G.probes[g::P_CONCURRENT_ENSURE].load(Relaxed) > 0;
    let _ = nt_first_overlap;
    Ok(nt_overlap || woke || conc)
}
