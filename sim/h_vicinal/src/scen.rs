//! Scenario description, generator and shrinker for property C14.

use serde::{Deserialize, Serialize};
use simkit::Rng;

use crate::globals::SITES;
use crate::{KEY_LATE, KEY_RACE, avoid};

pub const MAX_TASKS: usize = 8;

#[derive(Clone, Copy, Debug, Serialize, Deserialize, PartialEq, Eq)]
pub enum Kind {
    Regular,
    Urgent,
    Forget,
    UrgentForget,
}

impl Kind {
    pub fn has_handle(self) -> bool {
        matches!(self, Kind::Regular | Kind::Urgent)
    }
}

#[derive(Clone, Debug, Serialize, Deserialize, PartialEq, Eq)]
pub enum Op {
    /// Spawn task `task`; `detach` drops the join handle at once.
    Spawn { task: u8, kind: Kind, panics: bool, detach: bool },
    /// `block_on` the handle of an earlier own task.
    Await { task: u8 },
    /// Block until the body of an earlier own task has started (harness-side condvar).
    WaitRun { task: u8 },
    Yield { n: u8 },
    /// Spawn a regular task whose body blocks until the body of task `on` has started (a task that
    /// depends on another task of the same pool; legal whenever the pool has a worker to spare).
    /// Only generated in `pre`, directly followed by the spawn of `on` and later by its own `Await`.
    SpawnDependent { task: u8, on: u8 },
    /// Block until at least `n` pool workers are parked in their wait (listener registered, nothing
    /// to do): places the next spawns exactly at "every worker of the processor is idle".
    WaitWorkersIdle { n: u8 },
}

#[derive(Clone, Debug, Serialize, Deserialize)]
pub struct ThreadScript {
    pub processor: u8,
    pub start_yields: u8,
    /// Executed while the pool is guaranteed alive (the pool drop waits for every thread's `pre`).
    pub pre: Vec<Op>,
    /// May overlap the pool drop. Await/WaitRun here are executed only when `hold_scheduler`.
    pub race: Vec<Op>,
    /// Executed after `drop(pool)` has returned, through the thread's surviving `Scheduler`
    /// (only generated when the late-spawn defect is not being avoided, or by its directed mode).
    pub late: Vec<Op>,
    /// Keep the `Scheduler` clone until every handle has been awaited (trigger of
    /// c14-late-spawn-never-resolves when a task is abandoned); otherwise it is dropped before the
    /// final awaits.
    pub hold_scheduler: bool,
}

#[derive(Clone, Debug, Serialize, Deserialize)]
pub struct YieldSite {
    pub site: String,
    pub max: u8,
    pub percent: u8,
}

#[derive(Clone, Copy, Debug, Serialize, Deserialize, PartialEq, Eq)]
pub enum Directed {
    None,
    /// Two back-to-back spawns while both workers of the processor are idle; the first task needs
    /// the second to run (ordinary oracles; the shape is what is directed).
    IdlePair,
    /// After the late spawn, poll once and convict if pending while no worker is alive.
    LateSpawn,
    /// Hold the first spawner between the shutdown check and the state creation until the pool's
    /// signal loop has finished.
    ShutdownRace,
}

#[derive(Clone, Debug, Serialize, Deserialize)]
pub struct VScenario {
    pub processors: u8,
    pub workers_per_processor: u8,
    pub threads: Vec<ThreadScript>,
    pub dropper: usize,
    /// The dropper drops the pool before its race op with this index (>= len: after all of them).
    pub drop_at: usize,
    pub yields: Vec<YieldSite>,
    /// Keep first spawns of a processor out of the shutdown signal loop (avoidance of KEY_RACE).
    pub gate_first_spawn: bool,
    pub directed: Directed,
    pub sub_seed: u64,
    /// Native only: seconds without any progress after which the run is declared hung.
    pub hang_secs: u8,
}

fn gen_kind(rng: &mut Rng) -> Kind {
    match rng.weighted(&[5, 3, 2, 1]) {
        0 => Kind::Regular,
        1 => Kind::Urgent,
        2 => Kind::Forget,
        _ => Kind::UrgentForget,
    }
}

impl VScenario {
    pub fn generate(rng: &mut Rng, mode: &str) -> Self {
        match mode {
            m if m == format!("known-{KEY_LATE}") => return Self::gen_known_late(rng),
            m if m == format!("known-{KEY_RACE}") => return Self::gen_known_race(rng),
            m if m == format!("known-{}", crate::KEY_IDLE_PAIR) => return Self::gen_idle_pair(rng, false),
            _ => {}
        }
        let faulty = mode.starts_with("faulty");
        if !avoid(crate::KEY_IDLE_PAIR) && rng.chance(1, 6) {
            return Self::gen_idle_pair(rng, faulty);
        }
        let late_ok = !avoid(KEY_LATE);
        let processors = rng.range(1, 4) as u8;
        let workers_per_processor = if rng.chance(2, 3) { 1 } else { 2 };
        let nthreads = rng.weighted(&[2, 5, 3]) + 1;
        let total_tasks = rng.range_usize(1, 6).max(nthreads.min(6));
        // Distribute tasks over threads (every thread gets at least one while tasks last).
        let mut per_thread = vec![0_usize; nthreads];
        for k in 0..total_tasks {
            if k < nthreads {
                per_thread[k] += 1;
            } else {
                per_thread[rng.below_usize(nthreads)] += 1;
            }
        }
        let mut next_task = 0_u8;
        let first_proc = rng.below(u64::from(processors)) as u8;
        let mut threads = Vec::new();
        for t in 0..nthreads {
            let processor = if t > 0 && rng.chance(2, 5) {
                first_proc
            } else if t == 0 {
                first_proc
            } else {
                rng.below(u64::from(processors)) as u8
            };
            // How many of this thread's spawns are in `pre`.
            let n = per_thread[t];
            let n_pre = if rng.chance(2, 5) { 0 } else { rng.range_usize(0, n) };
            let mut pre = Vec::new();
            let mut race = Vec::new();
            let mut late = Vec::new();
            let hold_scheduler = late_ok && rng.chance(1, 2);
            let mut open_handles: Vec<u8> = Vec::new(); // spawned, has handle, not awaited
            let mut spawned: Vec<u8> = Vec::new();
            for k in 0..n {
                let in_pre = k < n_pre;
                let list = if in_pre { &mut pre } else { &mut race };
                if rng.chance(1, 3) {
                    list.push(Op::Yield { n: rng.range(1, 6) as u8 });
                }
                let kind = gen_kind(rng);
                let panics = faulty && rng.chance(1, 4);
                let detach = kind.has_handle() && rng.chance(1, 8);
                let task = next_task;
                next_task += 1;
                list.push(Op::Spawn { task, kind, panics, detach });
                spawned.push(task);
                if kind.has_handle() && !detach {
                    open_handles.push(task);
                }
                let may_wait = in_pre || hold_scheduler;
                if may_wait && !open_handles.is_empty() && rng.chance(1, 2) {
                    let i = rng.below_usize(open_handles.len());
                    let task = open_handles.remove(i);
                    list.push(Op::Await { task });
                } else if in_pre && rng.chance(1, 4) {
                    let task = *rng.pick(&spawned);
                    list.push(Op::WaitRun { task });
                }
            }
            if late_ok && rng.chance(1, 3) && usize::from(next_task) < MAX_TASKS {
                let kind = gen_kind(rng);
                let task = next_task;
                next_task += 1;
                late.push(Op::Spawn { task, kind, panics: faulty && rng.chance(1, 4), detach: false });
                if kind.has_handle() && rng.bool() {
                    late.push(Op::Await { task });
                }
            }
            threads.push(ThreadScript {
                processor,
                start_yields: rng.below(8) as u8,
                pre,
                race,
                late,
                hold_scheduler,
            });
        }
        // Late ops need a surviving scheduler.
        for t in &mut threads {
            if !t.late.is_empty() {
                t.hold_scheduler = true;
            }
        }
        let dropper = rng.below_usize(nthreads);
        let drop_at = rng.below_usize(threads[dropper].race.len() + 1);
        let mut yields = Vec::new();
        if faulty {
            for idx in rng.subset(SITES.len(), 2, 5) {
                yields.push(YieldSite {
                    site: SITES[idx].to_owned(),
                    max: rng.range(1, 5) as u8,
                    percent: *rng.pick(&[30_u8, 60, 100]),
                });
            }
        }
        Self {
            processors,
            workers_per_processor,
            threads,
            dropper,
            drop_at,
            yields,
            gate_first_spawn: avoid(KEY_RACE),
            directed: Directed::None,
            sub_seed: rng.next_u64(),
            hang_secs: 20,
        }
    }

    /// Directed: one or two threads; after the pool drop has returned a surviving scheduler
    /// spawns; the handle is polled while no worker exists.
    fn gen_known_late(rng: &mut Rng) -> Self {
        let processors = rng.range(1, 2) as u8;
        let mut pre = Vec::new();
        let mut next = 0_u8;
        if rng.bool() {
            pre.push(Op::Spawn { task: 0, kind: Kind::Regular, panics: false, detach: false });
            pre.push(Op::Await { task: 0 });
            next = 1;
        }
        let kind = if rng.bool() { Kind::Regular } else { Kind::Urgent };
        let late = vec![
            Op::Spawn { task: next, kind, panics: false, detach: false },
            Op::Await { task: next },
        ];
        Self {
            processors,
            workers_per_processor: 1,
            threads: vec![ThreadScript {
                processor: rng.below(u64::from(processors)) as u8,
                start_yields: 0,
                pre,
                race: Vec::new(),
                late,
                hold_scheduler: true,
            }],
            dropper: 0,
            drop_at: 0,
            yields: Vec::new(),
            gate_first_spawn: false,
            directed: Directed::LateSpawn,
            sub_seed: rng.next_u64(),
            hang_secs: 5,
        }
    }

    /// One spawner thread on a processor with two workers: warm the workers up, wait until both are
    /// parked, then spawn A (needs B to have started) and B back to back, await both. With a worker
    /// to spare for B this must always terminate; it hangs if the second spawn wakes nobody.
    fn gen_idle_pair(rng: &mut Rng, faulty: bool) -> Self {
        let processors = rng.range(1, 2) as u8;
        let processor = rng.below(u64::from(processors)) as u8;
        let mut pre = Vec::new();
        let mut next = 0_u8;
        let warm = rng.range(1, 2) as u8;
        for _ in 0..warm {
            pre.push(Op::Spawn { task: next, kind: gen_kind(rng), panics: false, detach: false });
            if matches!(pre.last(), Some(Op::Spawn { kind, .. }) if kind.has_handle()) {
                pre.push(Op::Await { task: next });
            } else {
                pre.push(Op::WaitRun { task: next });
            }
            next += 1;
        }
        let rounds = rng.range(1, 2);
        for _ in 0..rounds {
            let (a, b) = (next, next + 1);
            next += 2;
            pre.push(Op::WaitWorkersIdle { n: 2 });
            pre.push(Op::SpawnDependent { task: a, on: b });
            pre.push(Op::Spawn { task: b, kind: if rng.bool() { Kind::Regular } else { Kind::Urgent }, panics: false, detach: false });
            if rng.bool() {
                pre.push(Op::Await { task: a });
                pre.push(Op::Await { task: b });
            } else {
                pre.push(Op::Await { task: b });
                pre.push(Op::Await { task: a });
            }
        }
        let mut race = Vec::new();
        if rng.bool() && usize::from(next) < MAX_TASKS {
            race.push(Op::Spawn { task: next, kind: gen_kind(rng), panics: faulty && rng.chance(1, 4), detach: false });
        }
        let mut yields = Vec::new();
        if faulty {
            for idx in rng.subset(SITES.len(), 1, 4) {
                // Yields at the sites of the spawn path would separate the two spawns; keep them to
                // the worker and shutdown sites so the pair stays back to back.
                if SITES[idx].starts_with("spawn:") || SITES[idx].starts_with("ensure:") {
                    continue;
                }
                yields.push(YieldSite { site: SITES[idx].to_owned(), max: rng.range(1, 4) as u8, percent: *rng.pick(&[30_u8, 60, 100]) });
            }
        }
        let drop_at = rng.below_usize(race.len() + 1);
        Self {
            processors,
            workers_per_processor: 2,
            threads: vec![ThreadScript { processor, start_yields: rng.below(4) as u8, pre, race, late: Vec::new(), hold_scheduler: false }],
            dropper: 0,
            drop_at,
            yields,
            gate_first_spawn: avoid(KEY_RACE),
            directed: Directed::IdlePair,
            sub_seed: rng.next_u64(),
            hang_secs: 10,
        }
    }

    /// A candidate produced by shrinking must still be a program that terminates on a correct pool.
    fn well_formed(&self) -> bool {
        for t in &self.threads {
            for (i, op) in t.pre.iter().enumerate() {
                if let Op::SpawnDependent { task, on } = op {
                    let next_is_on = matches!(t.pre.get(i + 1), Some(Op::Spawn { task: b, panics: false, .. }) if b == on);
                    let awaited = t.pre[i + 1..].iter().any(|o| matches!(o, Op::Await { task: a } if a == task));
                    if !next_is_on || !awaited || self.workers_per_processor < 2 {
                        return false;
                    }
                }
            }
            if t.race.iter().chain(&t.late).any(|o| matches!(o, Op::SpawnDependent { .. })) {
                return false;
            }
            if self.threads.len() > 1 && t.pre.iter().any(|o| matches!(o, Op::WaitWorkersIdle { .. } | Op::SpawnDependent { .. })) {
                return false;
            }
        }
        true
    }

    /// Directed: thread 0 drops the pool, thread 1 makes the first spawn on its processor and is
    /// held inside `ensure_workers_spawned` until the signal loop is over.
    fn gen_known_race(rng: &mut Rng) -> Self {
        let processors = rng.range(1, 2) as u8;
        let kind = if rng.bool() { Kind::Regular } else { Kind::Forget };
        Self {
            processors,
            workers_per_processor: rng.range(1, 2) as u8,
            threads: vec![
                ThreadScript {
                    processor: 0,
                    start_yields: 0,
                    pre: Vec::new(),
                    race: Vec::new(),
                    late: Vec::new(),
                    hold_scheduler: false,
                },
                ThreadScript {
                    processor: rng.below(u64::from(processors)) as u8,
                    start_yields: 0,
                    pre: Vec::new(),
                    race: vec![Op::Spawn { task: 0, kind, panics: false, detach: false }],
                    late: Vec::new(),
                    hold_scheduler: false,
                },
            ],
            dropper: 0,
            drop_at: 0,
            yields: Vec::new(),
            gate_first_spawn: false,
            directed: Directed::ShutdownRace,
            sub_seed: rng.next_u64(),
            hang_secs: 4,
        }
    }

    pub fn size(&self) -> usize {
        let mut s = usize::from(self.processors) + usize::from(self.workers_per_processor);
        for t in &self.threads {
            s += 6 + usize::from(t.start_yields > 0) + usize::from(t.hold_scheduler);
            for op in t.pre.iter().chain(&t.race).chain(&t.late) {
                s += 3;
                match op {
                    Op::Spawn { kind, panics, detach, .. } => {
                        s += usize::from(*panics) + usize::from(*detach) + usize::from(*kind != Kind::Regular);
                    }
                    Op::Yield { n } => s += usize::from(*n > 1),
                    _ => {}
                }
            }
        }
        s + self.yields.len() * 2 + usize::from(self.drop_at > 0)
    }

    pub fn shrink(&self) -> Vec<Self> {
        let mut out = Vec::new();
        // Remove a whole thread (not in the two-thread directed race).
        if self.threads.len() > 1 && self.directed != Directed::ShutdownRace {
            for t in 0..self.threads.len() {
                let mut c = self.clone();
                c.threads.remove(t);
                if self.dropper == t {
                    c.dropper = 0;
                    c.drop_at = c.threads[0].race.len();
                } else if self.dropper > t {
                    c.dropper -= 1;
                }
                out.push(c);
            }
        }
        // Remove chunks of ops per section.
        for t in 0..self.threads.len() {
            for sec in 0..3 {
                let list = match sec {
                    0 => &self.threads[t].pre,
                    1 => &self.threads[t].race,
                    _ => &self.threads[t].late,
                };
                for smaller in simkit::shrink::remove_chunks(list) {
                    let mut c = self.clone();
                    let removed = list.len() - smaller.len();
                    match sec {
                        0 => c.threads[t].pre = smaller,
                        1 => {
                            c.threads[t].race = smaller;
                            if t == self.dropper {
                                c.drop_at = self.drop_at.saturating_sub(removed);
                            }
                        }
                        _ => c.threads[t].late = smaller,
                    }
                    out.push(c);
                }
            }
        }
        for i in 0..self.yields.len() {
            let mut c = self.clone();
            c.yields.remove(i);
            out.push(c);
        }
        if self.drop_at > 0 {
            let mut c = self.clone();
            c.drop_at = 0;
            out.push(c);
        }
        // Simpler arguments.
        for t in 0..self.threads.len() {
            if self.threads[t].start_yields > 0 {
                let mut c = self.clone();
                c.threads[t].start_yields = 0;
                out.push(c);
            }
            if self.threads[t].hold_scheduler && self.threads[t].late.is_empty() {
                let mut c = self.clone();
                c.threads[t].hold_scheduler = false;
                out.push(c);
            }
            for sec in 0..3 {
                let len = match sec {
                    0 => self.threads[t].pre.len(),
                    1 => self.threads[t].race.len(),
                    _ => self.threads[t].late.len(),
                };
                for i in 0..len {
                    let op = match sec {
                        0 => &self.threads[t].pre[i],
                        1 => &self.threads[t].race[i],
                        _ => &self.threads[t].late[i],
                    };
                    let mut simpler: Vec<Op> = Vec::new();
                    match op {
                        Op::Spawn { task, kind, panics, detach } => {
                            if *panics {
                                simpler.push(Op::Spawn { task: *task, kind: *kind, panics: false, detach: *detach });
                            }
                            if *detach {
                                simpler.push(Op::Spawn { task: *task, kind: *kind, panics: *panics, detach: false });
                            }
                            if *kind == Kind::Urgent {
                                simpler.push(Op::Spawn { task: *task, kind: Kind::Regular, panics: *panics, detach: *detach });
                            }
                        }
                        Op::Yield { n } if *n > 1 => simpler.push(Op::Yield { n: 1 }),
                        _ => {}
                    }
                    for s in simpler {
                        let mut c = self.clone();
                        match sec {
                            0 => c.threads[t].pre[i] = s,
                            1 => c.threads[t].race[i] = s,
                            _ => c.threads[t].late[i] = s,
                        }
                        out.push(c);
                    }
                }
            }
        }
        let max_proc = self.threads.iter().map(|t| t.processor).max().unwrap_or(0);
        if self.processors > max_proc + 1 {
            let mut c = self.clone();
            c.processors = max_proc + 1;
            out.push(c);
        }
        if self.workers_per_processor > 1 {
            let mut c = self.clone();
            c.workers_per_processor = 1;
            out.push(c);
        }
        let size = self.size();
        out.retain(|c| c.size() < size && c.well_formed());
        out
    }
}
