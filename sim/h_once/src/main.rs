//! C05 / C06 — thread-safe one-shot events (`events_once`): exactly-once payload hand-off, outcome
//! model, no lost wake-up (C05); storage released exactly once, after every access by the other
//! endpoint, nothing leaked (C06).
//!
//! Modes
//! * `mt`  — one sender thread and one receiver thread (plus 0–2 rental-traffic threads for the
//!           pooled strategies) run their scripts concurrently as real threads. Meant for Miri,
//!           whose seeded scheduler decides preemption inside the library, emulates weak memory
//!           and reports data races / use-after-free / leaks / deadlocks. Harness-level oracles
//!           run on every execution as well.
//! * `seq` — the same scripts interleaved at operation granularity on one thread, in an order fixed
//!           by the scenario (native bulk: every state-machine transition that does not need a
//!           mid-operation window).
//!
//! Stamps come from one global counter incremented with `Relaxed` ordering: they order harness
//! events without adding a happens-before edge that could mask a missing one in the library.

use std::future::Future;
use std::pin::Pin;
use std::sync::Arc;
use std::sync::atomic::{AtomicU32, AtomicU64, AtomicUsize, Ordering};
use std::task::{Context, Poll, RawWaker, RawWakerVTable, Waker};

use events_once::{
    BoxedReceiver, BoxedSender, Disconnected, EmbeddedEvent, Event, EventLake, EventPool,
    IntoValueError, PooledReceiver, PooledSender, RawEventLake, RawEventPool, RawPooledReceiver,
    RawPooledSender, RawReceiver, RawSender,
};
use serde::{Deserialize, Serialize};
use simkit::{Ctx, Rng, Scenario, Violation, check, entry};

// ------------------------------------------------------------------------------------------------
// Payload with a destruction counter
// ------------------------------------------------------------------------------------------------

struct Payload {
    id: u64,
    // Heap indirection: duplication is a double free and loss a leak under Miri, too.
    boxed: Box<u64>,
    drops: Arc<AtomicU32>,
}

impl Drop for Payload {
    fn drop(&mut self) {
        self.drops.fetch_add(1, Ordering::Relaxed);
    }
}

// ------------------------------------------------------------------------------------------------
// Simulator-owned counting wakers
// ------------------------------------------------------------------------------------------------

#[derive(Default)]
struct WakerCounters {
    clones: AtomicU32,
    drops: AtomicU32,
    wakes: AtomicU32,
    wakes_by_value: AtomicU32,
}

static VTABLE: RawWakerVTable = RawWakerVTable::new(w_clone, w_wake, w_wake_by_ref, w_drop);

unsafe fn w_clone(p: *const ()) -> RawWaker {
    // SAFETY: p came from Arc::into_raw of an Arc<WakerCounters>.
    let c = unsafe { &*p.cast::<WakerCounters>() };
    c.clones.fetch_add(1, Ordering::Relaxed);
    cb_hook(CB_CLONE);
    // SAFETY: as above; the count is incremented for the new RawWaker.
    unsafe { Arc::increment_strong_count(p.cast::<WakerCounters>()) };
    RawWaker::new(p, &VTABLE)
}

unsafe fn w_wake(p: *const ()) {
    // SAFETY: p came from Arc::into_raw; this consumes one reference.
    let c = unsafe { Arc::from_raw(p.cast::<WakerCounters>()) };
    c.wakes.fetch_add(1, Ordering::Relaxed);
    c.wakes_by_value.fetch_add(1, Ordering::Relaxed);
}

unsafe fn w_wake_by_ref(p: *const ()) {
    // SAFETY: p came from Arc::into_raw and is alive.
    let c = unsafe { &*p.cast::<WakerCounters>() };
    c.wakes.fetch_add(1, Ordering::Relaxed);
}

unsafe fn w_drop(p: *const ()) {
    // SAFETY: p came from Arc::into_raw; this consumes one reference.
    let c = unsafe { Arc::from_raw(p.cast::<WakerCounters>()) };
    c.drops.fetch_add(1, Ordering::Relaxed);
    drop(c);
    cb_hook(CB_DROP);
}

// ------------------------------------------------------------------------------------------------
// Waker callbacks as a scheduling seam
// ------------------------------------------------------------------------------------------------
//
// The waker handed to `poll` is user code that the library calls in the middle of its receiver-side
// operations (clone when registering, drop when replacing a registration or when the receiver
// goes away). Whatever that code does is a legal interleaving point, so the simulator owns it:
//  * `mt`:  the callback yields a PRNG-chosen number of times (widens the window between the
//           library's atomic steps for Miri's scheduler) and, at one chosen invocation, waits
//           (bounded, through a Relaxed flag: no happens-before edge is added) until the sender
//           thread has finished - so that a complete send / sender drop lands inside the window.
//  * `seq`: at one chosen invocation the callback performs the sender's action re-entrantly on the
//           same thread (safe code can do this: a waker may own the sender), which places the
//           whole sender operation between two atomic steps of a receiver operation.

const CB_CLONE: usize = 0;
const CB_DROP: usize = 1;
static CB_YIELDS: [AtomicU32; 2] = [AtomicU32::new(0), AtomicU32::new(0)];
static CB_CALLS: [AtomicU32; 2] = [AtomicU32::new(0), AtomicU32::new(0)];
/// 0 = none, 1 = clone, 2 = drop.
static CB_TRIGGER_KIND: AtomicU32 = AtomicU32::new(0);
static CB_TRIGGER_NTH: AtomicU32 = AtomicU32::new(0);
static CB_FIRED: AtomicU32 = AtomicU32::new(0);
static SENDER_DONE: AtomicU32 = AtomicU32::new(0);
/// Rendezvous variant: the receiver announces that it sits inside the chosen callback, the sender
/// then announces that it starts, and both go on at the same moment (all Relaxed).
static SENDER_STARTED: AtomicU32 = AtomicU32::new(0);
static RECEIVER_IN_CB: AtomicU32 = AtomicU32::new(0);
static CB_RENDEZVOUS: AtomicU32 = AtomicU32::new(0);

thread_local! {
    static IS_RECEIVER: std::cell::Cell<bool> = const { std::cell::Cell::new(false) };
    static CB_SENDER: std::cell::RefCell<Option<Box<dyn FnOnce()>>> = const { std::cell::RefCell::new(None) };
    static CB_EVENTS: std::cell::RefCell<Vec<Ev>> = const { std::cell::RefCell::new(Vec::new()) };
}

fn cb_hook(kind: usize) {
    if !IS_RECEIVER.with(std::cell::Cell::get) {
        return;
    }
    let n = CB_CALLS[kind].fetch_add(1, Ordering::Relaxed);
    for _ in 0..CB_YIELDS[kind].load(Ordering::Relaxed) {
        std::thread::yield_now();
    }
    if CB_TRIGGER_KIND.load(Ordering::Relaxed) as usize == kind + 1 && CB_TRIGGER_NTH.load(Ordering::Relaxed) == n {
        let reentrant = CB_SENDER.with(|c| c.borrow_mut().take());
        if let Some(f) = reentrant {
            CB_FIRED.store(1, Ordering::Relaxed);
            f();
        } else if CB_RENDEZVOUS.load(Ordering::Relaxed) != 0 {
            // mt: the sender starts its action at the moment this callback returns, so that the
            // receiver's next atomic step races the sender's steps.
            RECEIVER_IN_CB.store(1, Ordering::Relaxed);
            let mut spins = 0_u32;
            while SENDER_STARTED.load(Ordering::Relaxed) == 0 && spins < 400 {
                std::thread::yield_now();
                spins += 1;
            }
            if SENDER_STARTED.load(Ordering::Relaxed) != 0 {
                CB_FIRED.store(3, Ordering::Relaxed);
            }
        } else {
            // mt: hold this thread here until the sender is done (bounded: never a harness deadlock).
            let mut spins = 0_u32;
            while SENDER_DONE.load(Ordering::Relaxed) == 0 && spins < 400 {
                std::thread::yield_now();
                spins += 1;
            }
            if SENDER_DONE.load(Ordering::Relaxed) != 0 {
                CB_FIRED.store(2, Ordering::Relaxed);
            }
        }
    }
}

fn cb_reset(plan: &CbPlan) {
    CB_YIELDS[CB_CLONE].store(u32::from(plan.yields_clone), Ordering::Relaxed);
    CB_YIELDS[CB_DROP].store(u32::from(plan.yields_drop), Ordering::Relaxed);
    CB_CALLS[CB_CLONE].store(0, Ordering::Relaxed);
    CB_CALLS[CB_DROP].store(0, Ordering::Relaxed);
    let (k, n) = match plan.sender_in {
        Some((CbKind::Clone, n)) => (1, n),
        Some((CbKind::Drop, n)) => (2, n),
        None => (0, 0),
    };
    CB_TRIGGER_KIND.store(k, Ordering::Relaxed);
    CB_TRIGGER_NTH.store(u32::from(n), Ordering::Relaxed);
    CB_FIRED.store(0, Ordering::Relaxed);
    SENDER_DONE.store(0, Ordering::Relaxed);
    SENDER_STARTED.store(0, Ordering::Relaxed);
    RECEIVER_IN_CB.store(0, Ordering::Relaxed);
    CB_RENDEZVOUS.store(u32::from(plan.rendezvous), Ordering::Relaxed);
}

fn new_waker(c: &Arc<WakerCounters>) -> Waker {
    let p = Arc::into_raw(Arc::clone(c)).cast::<()>();
    // SAFETY: the vtable functions uphold the RawWaker contract over an Arc<WakerCounters>.
    unsafe { Waker::from_raw(RawWaker::new(p, &VTABLE)) }
}

// ------------------------------------------------------------------------------------------------
// Release notifications (hook H2)
// ------------------------------------------------------------------------------------------------

const RELEASE_LOG_CAP: usize = 64;
static RELEASE_COUNT: AtomicUsize = AtomicUsize::new(0);
static RELEASE_LOG: [AtomicUsize; RELEASE_LOG_CAP] = [const { AtomicUsize::new(0) }; RELEASE_LOG_CAP];
/// Address and size of caller-embedded storage to poison at release (0 = none).
static POISON_ADDR: AtomicUsize = AtomicUsize::new(0);
static POISON_LEN: AtomicUsize = AtomicUsize::new(0);

fn on_release(addr: usize) {
    let i = RELEASE_COUNT.fetch_add(1, Ordering::Relaxed);
    if i < RELEASE_LOG_CAP {
        RELEASE_LOG[i].store(addr, Ordering::Relaxed);
    }
    if POISON_ADDR.load(Ordering::Relaxed) == addr {
        let len = POISON_LEN.load(Ordering::Relaxed);
        // The releasing endpoint has sole ownership now: the owner of caller-embedded storage may
        // reuse it at once. A plain (non-atomic) overwrite conflicts with every access the other
        // endpoint ever made unless it happens-before this release — which is exactly C06.
        // SAFETY: the harness owns this storage and keeps it allocated until the run ends.
        unsafe { std::ptr::write_bytes(addr as *mut u8, 0xA5, len) };
    }
}

// ------------------------------------------------------------------------------------------------
// Scenario
// ------------------------------------------------------------------------------------------------

#[derive(Clone, Copy, Debug, Serialize, Deserialize, PartialEq, Eq)]
enum Storage {
    Boxed,
    Embedded,
    Pooled,
    RawPooled,
    Lake,
    RawLake,
}

#[derive(Clone, Copy, Debug, Serialize, Deserialize, PartialEq, Eq)]
enum SenderAction {
    Send,
    Drop,
}

#[derive(Clone, Copy, Debug, Serialize, Deserialize, PartialEq, Eq)]
enum RecvOp {
    /// Poll with waker identity 0 or 1 (a different identity than the previous poll = re-poll
    /// with a new waker).
    Poll(u8),
    IsReady,
    IntoValue,
    Drop,
}

#[derive(Clone, Copy, Debug, Serialize, Deserialize, PartialEq, Eq)]
enum CbKind {
    Clone,
    Drop,
}

/// What the simulator-owned waker callbacks do on the receiver's thread (see `cb_hook`).
#[derive(Clone, Copy, Debug, Default, Serialize, Deserialize, PartialEq, Eq)]
struct CbPlan {
    yields_clone: u8,
    yields_drop: u8,
    /// The sender's whole action happens inside the n-th (0-based) invocation of this callback kind
    /// (`seq`: re-entrantly on the same thread; `mt`: the receiver thread waits there for the sender).
    sender_in: Option<(CbKind, u8)>,
    /// `mt` only, with `sender_in`: instead of waiting for the sender to finish, the receiver waits
    /// inside the callback until the sender *starts* (and the sender waits for the receiver to be
    /// there), so the two go on simultaneously.
    #[serde(default)]
    rendezvous: bool,
}

#[derive(Clone, Debug, Serialize, Deserialize)]
struct OnceScenario {
    #[serde(default)]
    cb: CbPlan,
    storage: Storage,
    sender: SenderAction,
    sender_yields: u8,
    receiver_yields: u8,
    receiver: Vec<RecvOp>,
    /// Extra threads renting and returning events on the same pool / lake (pooled strategies).
    traffic_threads: u8,
    /// `seq` mode: position (0..=len) in the receiver script at which the sender acts.
    seq_sender_at: u8,
    concurrent: bool,
}

fn gen_scenario(rng: &mut Rng, storages: &[Storage], concurrent: bool, traffic: bool) -> OnceScenario {
    let storage = *rng.pick(storages);
    let n = rng.range_usize(0, 5);
    let mut receiver = Vec::new();
    for _ in 0..n {
        let op = match rng.weighted(&[6, 2, 2, 1]) {
            0 => RecvOp::Poll(rng.below(2) as u8),
            1 => RecvOp::IsReady,
            2 => RecvOp::IntoValue,
            _ => RecvOp::Drop,
        };
        receiver.push(op);
        if op == RecvOp::Drop {
            break;
        }
    }
    let pooled = !matches!(storage, Storage::Boxed | Storage::Embedded);
    let polls = receiver.iter().filter(|o| matches!(o, RecvOp::Poll(_))).count();
    let mut cb = CbPlan::default();
    if polls > 0 && rng.chance(1, 2) {
        if concurrent {
            if rng.bool() {
                cb.yields_clone = rng.range(1, 6) as u8;
            }
            if rng.bool() {
                cb.yields_drop = rng.range(1, 6) as u8;
            }
        }
        if !concurrent || rng.chance(1, 2) {
            let kind = if rng.bool() { CbKind::Clone } else { CbKind::Drop };
            // Every poll drops the harness's original waker afterwards, so drop invocations are
            // about twice as frequent as clone invocations.
            let max = match kind {
                CbKind::Clone => polls,
                CbKind::Drop => 2 * polls,
            };
            cb.sender_in = Some((kind, rng.below(max as u64) as u8));
        }
    }
    OnceScenario {
        cb,
        storage,
        sender: if rng.chance(3, 4) { SenderAction::Send } else { SenderAction::Drop },
        // Thread start order is the scheduler's; these staggers decide who tends to act first so
        // that sender-first, receiver-first and overlapping executions are all common.
        sender_yields: if rng.bool() { rng.below(4) as u8 } else { rng.range(4, 24) as u8 },
        receiver_yields: if rng.chance(3, 4) { rng.below(4) as u8 } else { rng.range(4, 16) as u8 },
        traffic_threads: if traffic && pooled && rng.chance(1, 2) { rng.range(1, 2) as u8 } else { 0 },
        seq_sender_at: rng.below(receiver.len() as u64 + 1) as u8,
        receiver,
        concurrent,
    }
}

// ------------------------------------------------------------------------------------------------
// Endpoint abstraction over the storage strategies
// ------------------------------------------------------------------------------------------------

trait Tx: Send + 'static {
    fn send(self, v: Payload);
}

trait Rx: Future<Output = Result<Payload, Disconnected>> + Unpin + Send + Sized + 'static {
    fn ready(&self) -> bool;
    fn value(self) -> Result<Payload, IntoValueError<Self>>;
}

macro_rules! endpoints {
    ($tx:ident, $rx:ident) => {
        impl Tx for $tx<Payload> {
            fn send(self, v: Payload) {
                $tx::send(self, v);
            }
        }
        impl Rx for $rx<Payload> {
            fn ready(&self) -> bool {
                self.is_ready()
            }
            fn value(self) -> Result<Payload, IntoValueError<Self>> {
                self.into_value()
            }
        }
    };
}
endpoints!(BoxedSender, BoxedReceiver);
endpoints!(RawSender, RawReceiver);
endpoints!(PooledSender, PooledReceiver);
endpoints!(RawPooledSender, RawPooledReceiver);

// ------------------------------------------------------------------------------------------------
// Shared per-run state
// ------------------------------------------------------------------------------------------------

struct Shared {
    /// Start gate: scripts begin only once every thread of the run exists (thread creation is
    /// far longer than an event operation, so without it the first thread always finishes first).
    go: std::sync::atomic::AtomicBool,
    stamp: AtomicU64,
    payload_drops: Arc<AtomicU32>,
    wakers: [Arc<WakerCounters>; 2],
}

impl Shared {
    fn tick(&self) -> u64 {
        self.stamp.fetch_add(1, Ordering::Relaxed)
    }

    fn wait_go(&self) {
        while !self.go.load(Ordering::Acquire) {
            std::thread::yield_now();
        }
    }
}

/// One harness-level event, stamped.
#[derive(Debug, Clone)]
struct Ev {
    at: u64,
    text: String,
}

#[derive(Debug, Default)]
struct RecvReport {
    events: Vec<Ev>,
    /// Value id received, if any.
    got_value: Option<u64>,
    got_disconnected: bool,
    /// Waker identity of the most recent poll if it returned Pending and the receiver is alive.
    last_pending_waker: Option<u8>,
    consumed: bool,
    problem: Option<Violation>,
}

const VALUE_ID: u64 = 0x00C0_FFEE;

fn yields(n: u8) {
    for _ in 0..n {
        std::thread::yield_now();
    }
}

/// Executes one receiver operation. Returns the receiver back unless it was consumed.
fn recv_op<R: Rx>(
    op: RecvOp,
    rx: R,
    shared: &Shared,
    sender: SenderAction,
    rep: &mut RecvReport,
) -> Option<R> {
    let inv = shared.tick();
    let mut rx = rx;
    match op {
        RecvOp::Poll(w) => {
            let waker = new_waker(&shared.wakers[w as usize]);
            let mut cx = Context::from_waker(&waker);
            let r = Pin::new(&mut rx).poll(&mut cx);
            drop(waker);
            let ret = shared.tick();
            match r {
                Poll::Pending => {
                    rep.events.push(Ev { at: inv, text: format!("r:poll(w{w}) invoked") });
                    rep.events.push(Ev { at: ret, text: "r:poll -> Pending".into() });
                    rep.last_pending_waker = Some(w);
                    Some(rx)
                }
                Poll::Ready(Ok(p)) => {
                    rep.events.push(Ev { at: inv, text: format!("r:poll(w{w}) invoked") });
                    rep.events.push(Ev { at: ret, text: "r:poll -> Ready(Ok)".into() });
                    note_value(p, sender, rep);
                    rep.consumed = true;
                    rep.last_pending_waker = None;
                    drop(rx);
                    None
                }
                Poll::Ready(Err(Disconnected)) => {
                    rep.events.push(Ev { at: inv, text: format!("r:poll(w{w}) invoked") });
                    rep.events.push(Ev { at: ret, text: "r:poll -> Ready(Disconnected)".into() });
                    note_disconnected(sender, rep);
                    rep.consumed = true;
                    rep.last_pending_waker = None;
                    drop(rx);
                    None
                }
            }
        }
        RecvOp::IsReady => {
            let r = rx.ready();
            let ret = shared.tick();
            rep.events.push(Ev { at: inv, text: "r:is_ready invoked".into() });
            rep.events.push(Ev { at: ret, text: format!("r:is_ready -> {r}") });
            Some(rx)
        }
        RecvOp::IntoValue => match rx.value() {
            Ok(p) => {
                let ret = shared.tick();
                rep.events.push(Ev { at: inv, text: "r:into_value invoked".into() });
                rep.events.push(Ev { at: ret, text: "r:into_value -> Ok".into() });
                note_value(p, sender, rep);
                rep.consumed = true;
                rep.last_pending_waker = None;
                None
            }
            Err(IntoValueError::Pending(rx)) => {
                let ret = shared.tick();
                rep.events.push(Ev { at: inv, text: "r:into_value invoked".into() });
                rep.events.push(Ev { at: ret, text: "r:into_value -> Pending".into() });
                Some(rx)
            }
            Err(IntoValueError::Disconnected) => {
                let ret = shared.tick();
                rep.events.push(Ev { at: inv, text: "r:into_value invoked".into() });
                rep.events.push(Ev { at: ret, text: "r:into_value -> Disconnected".into() });
                note_disconnected(sender, rep);
                rep.consumed = true;
                rep.last_pending_waker = None;
                None
            }
        },
        RecvOp::Drop => {
            drop(rx);
            let ret = shared.tick();
            rep.events.push(Ev { at: inv, text: "r:drop invoked".into() });
            rep.events.push(Ev { at: ret, text: "r:drop returned".into() });
            rep.consumed = true;
            rep.last_pending_waker = None;
            None
        }
    }
}

fn note_value(p: Payload, sender: SenderAction, rep: &mut RecvReport) {
    if sender != SenderAction::Send && rep.problem.is_none() {
        rep.problem = Some(Violation::new(
            "value-without-send",
            "receiver obtained a value although the sender never sent",
        ));
    }
    if (p.id != VALUE_ID || *p.boxed != VALUE_ID) && rep.problem.is_none() {
        rep.problem = Some(Violation::new(
            "wrong-value",
            format!("received id {:#x} / boxed {:#x}", p.id, *p.boxed),
        ));
    }
    if p.drops.load(Ordering::Relaxed) != 0 && rep.problem.is_none() {
        rep.problem = Some(Violation::new(
            "payload-destroyed-while-held",
            "the payload's destructor had already run when the receiver obtained it",
        ));
    }
    rep.got_value = Some(p.id);
    drop(p);
}

fn note_disconnected(sender: SenderAction, rep: &mut RecvReport) {
    if sender == SenderAction::Send && rep.problem.is_none() {
        rep.problem = Some(Violation::new(
            "disconnected-after-send",
            "receiver observed Disconnected although the sender sent a value",
        ));
    }
    rep.got_disconnected = true;
}

fn sender_act<T: Tx>(tx: T, action: SenderAction, shared: &Shared, events: &mut Vec<Ev>) {
    let inv = shared.tick();
    match action {
        SenderAction::Send => {
            let p = Payload {
                id: VALUE_ID,
                boxed: Box::new(VALUE_ID),
                drops: Arc::clone(&shared.payload_drops),
            };
            tx.send(p);
            let ret = shared.tick();
            events.push(Ev { at: inv, text: "s:send invoked".into() });
            events.push(Ev { at: ret, text: "s:send returned".into() });
        }
        SenderAction::Drop => {
            drop(tx);
            let ret = shared.tick();
            events.push(Ev { at: inv, text: "s:drop invoked".into() });
            events.push(Ev { at: ret, text: "s:drop returned".into() });
        }
    }
}

// ------------------------------------------------------------------------------------------------
// Endpoint threads: one pair per scenario, or a persistent pair reused by every round of a storm
// ------------------------------------------------------------------------------------------------

type Job = Box<dyn FnOnce() + Send>;

/// Two persistent threads (slot 0: sender role, slot 1: receiver role). A `storm` scenario runs
/// many short rounds on them, so that a round costs two channel hand-offs instead of two thread
/// creations - under Miri this multiplies the number of races per second of interpretation.
struct Exec {
    txs: Vec<std::sync::mpsc::Sender<Job>>,
    joins: Vec<std::thread::JoinHandle<()>>,
}

impl Exec {
    fn new(n: usize) -> Self {
        let mut txs = Vec::new();
        let mut joins = Vec::new();
        for _ in 0..n {
            let (tx, rx) = std::sync::mpsc::channel::<Job>();
            txs.push(tx);
            joins.push(std::thread::spawn(move || {
                while let Ok(job) = rx.recv() {
                    job();
                }
            }));
        }
        Self { txs, joins }
    }
}

impl Drop for Exec {
    fn drop(&mut self) {
        self.txs.clear();
        for j in self.joins.drain(..) {
            let _ = j.join();
        }
    }
}

thread_local! {
    static EXEC: std::cell::RefCell<Option<Exec>> = const { std::cell::RefCell::new(None) };
}

type Done<Ret> = std::sync::mpsc::Receiver<std::thread::Result<Ret>>;

/// Starts `f` on the persistent thread of that slot if a storm is running, else on a new thread.
fn launch<Ret: Send + 'static>(slot: usize, f: impl FnOnce() -> Ret + Send + 'static) -> Done<Ret> {
    let (tx, rx) = std::sync::mpsc::channel();
    let job: Job = Box::new(move || {
        let r = std::panic::catch_unwind(std::panic::AssertUnwindSafe(f));
        let _ = tx.send(r);
    });
    let job = EXEC.with(|e| match e.borrow().as_ref() {
        Some(exec) => {
            exec.txs[slot].send(job).expect("persistent endpoint thread is alive");
            None
        }
        None => Some(job),
    });
    if let Some(job) = job {
        std::thread::spawn(job);
    }
    rx
}

/// Waits for a launched job; a panic inside it continues on the calling thread (simkit reports a
/// panic escaping `run` as a violation of class `panic: ...`).
fn finish<Ret>(done: &Done<Ret>, what: &str) -> Ret {
    match done.recv() {
        Ok(Ok(v)) => v,
        Ok(Err(p)) => std::panic::resume_unwind(p),
        Err(_) => panic!("{what} vanished without a result"),
    }
}

/// Runs the two endpoints' scripts (concurrently or op-interleaved) and the quiescent checks that
/// involve the endpoints. `traffic` is run on extra threads (or inline in `seq`).
fn run_pair<T: Tx, R: Rx>(
    sc: &OnceScenario,
    tx: T,
    rx: R,
    shared: &Arc<Shared>,
    traffic: Option<Arc<dyn Fn() + Send + Sync>>,
    ctx: &mut Ctx,
) -> Result<bool, Violation> {
    let mut all_events: Vec<Ev> = Vec::new();
    let mut rep;
    let rx_left: Option<R>;

    if sc.concurrent {
        let s_shared = Arc::clone(shared);
        let action = sc.sender;
        let sy = sc.sender_yields;
        let sender_done = launch(0, move || {
            let mut events = Vec::new();
            IS_RECEIVER.with(|c| c.set(false));
            s_shared.wait_go();
            if CB_RENDEZVOUS.load(Ordering::Relaxed) != 0 {
                let mut spins = 0_u32;
                while RECEIVER_IN_CB.load(Ordering::Relaxed) == 0 && spins < 400 {
                    std::thread::yield_now();
                    spins += 1;
                }
                SENDER_STARTED.store(1, Ordering::Relaxed);
            }
            yields(sy);
            sender_act(tx, action, &s_shared, &mut events);
            SENDER_DONE.store(1, Ordering::Relaxed);
            events
        });
        let r_shared = Arc::clone(shared);
        let script = sc.receiver.clone();
        let ry = sc.receiver_yields;
        let receiver_done = launch(1, move || {
            let mut rep = RecvReport::default();
            let mut rx = Some(rx);
            IS_RECEIVER.with(|c| c.set(true));
            r_shared.wait_go();
            yields(ry);
            for op in script {
                let Some(r) = rx.take() else { break };
                rx = recv_op(op, r, &r_shared, action, &mut rep);
            }
            IS_RECEIVER.with(|c| c.set(false));
            (rep, rx)
        });
        let mut traffic_threads = Vec::new();
        if let Some(t) = &traffic {
            for _ in 0..sc.traffic_threads {
                let t = Arc::clone(t);
                let t_shared = Arc::clone(shared);
                traffic_threads.push(std::thread::spawn(move || {
                    t_shared.wait_go();
                    t();
                }));
            }
        }
        shared.go.store(true, Ordering::Release);
        let s_events = finish(&sender_done, "sender thread");
        let (r_rep, r_rx) = finish(&receiver_done, "receiver thread");
        for t in traffic_threads {
            t.join().expect("traffic thread");
        }
        all_events.extend(s_events);
        rep = r_rep;
        rx_left = r_rx;
    } else {
        rep = RecvReport::default();
        let mut rx = Some(rx);
        // The sender's action lives in a thread-local slot: whoever takes it first performs it -
        // the chosen waker callback (re-entrantly, in the middle of a receiver operation) or the
        // script position `seq_sender_at` / the end of the script.
        let (s_shared, s_action) = (Arc::clone(shared), sc.sender);
        CB_EVENTS.with(|e| e.borrow_mut().clear());
        CB_SENDER.with(|c| {
            *c.borrow_mut() = Some(Box::new(move || {
                let mut events = Vec::new();
                sender_act(tx, s_action, &s_shared, &mut events);
                CB_EVENTS.with(|e| e.borrow_mut().extend(events));
            }));
        });
        IS_RECEIVER.with(|c| c.set(true));
        // Rental traffic (inline in `seq`) runs once, at the first operation boundary after the
        // sender acted - also when the sender acted inside a waker callback.
        let mut traffic_pending = sc.traffic_threads > 0;
        let mut run_traffic_if_sender_done = |traffic: &Option<Arc<dyn Fn() + Send + Sync>>| {
            if traffic_pending && CB_SENDER.with(|c| c.borrow().is_none()) {
                traffic_pending = false;
                if let Some(t) = traffic {
                    t();
                }
            }
        };
        let fire_sender = || {
            if let Some(f) = CB_SENDER.with(|c| c.borrow_mut().take()) {
                f();
            }
        };
        let at = if sc.cb.sender_in.is_some() {
            sc.receiver.len()
        } else {
            usize::from(sc.seq_sender_at).min(sc.receiver.len())
        };
        for (i, op) in sc.receiver.iter().enumerate() {
            if i == at {
                fire_sender();
            }
            run_traffic_if_sender_done(&traffic);
            let Some(r) = rx.take() else { break };
            rx = recv_op(*op, r, shared, sc.sender, &mut rep);
        }
        fire_sender();
        run_traffic_if_sender_done(&traffic);
        IS_RECEIVER.with(|c| c.set(false));
        all_events.extend(CB_EVENTS.with(|e| std::mem::take(&mut *e.borrow_mut())));
        rx_left = rx;
    }

    // Event log in stamp order (the harness-level interleaving).
    let sender_span = (
        all_events.iter().map(|e| e.at).min().unwrap_or(0),
        all_events.iter().map(|e| e.at).max().unwrap_or(0),
    );
    let overlapped = rep
        .events
        .chunks(2)
        .any(|c| c.len() == 2 && c[0].at < sender_span.1 && c[1].at > sender_span.0);
    all_events.extend(rep.events.iter().cloned());
    all_events.sort_by_key(|e| e.at);
    for e in &all_events {
        ctx.event_str(&e.text);
    }
    if let Some(v) = rep.problem.take() {
        return Err(v);
    }

    // ---- quiescent phase: both scripts are over and their threads joined -----------------------
    if let Some(rx) = rx_left {
        // Lost wake-up: the most recent poll returned Pending with waker W and the sender has
        // since completed its send / drop, so W must have been woken.
        if let Some(w) = rep.last_pending_waker {
            let wakes = shared.wakers[w as usize].wakes.load(Ordering::Relaxed);
            ctx.event(u64::from(wakes.min(2)), || format!("q:wakes(w{w}) = {wakes}"));
            check!(
                wakes >= 1,
                "lost-wakeup",
                "last poll returned Pending with waker {w}; the sender completed afterwards but the waker was never woken"
            );
            ctx.probe("pending-then-woken");
        }
        // The receiver now must see the definite outcome.
        let mut rep2 = RecvReport::default();
        let last = if rep.last_pending_waker.is_some() { RecvOp::Poll(0) } else { RecvOp::IntoValue };
        let left = recv_op(last, rx, shared, sc.sender, &mut rep2);
        for e in &rep2.events {
            ctx.event_str(&e.text);
        }
        if let Some(v) = rep2.problem.take() {
            return Err(v);
        }
        check!(
            left.is_none(),
            "pending-after-sender-done",
            "the sender finished ({:?}) and was joined, yet the receiver still reports Pending",
            sc.sender
        );
        match sc.sender {
            SenderAction::Send => check!(
                rep2.got_value == Some(VALUE_ID),
                "value-lost",
                "sender sent, receiver's final outcome is not the value"
            ),
            SenderAction::Drop => check!(
                rep2.got_disconnected,
                "disconnect-lost",
                "sender dropped unsent, receiver's final outcome is not Disconnected"
            ),
        }
        rep.got_value = rep.got_value.or(rep2.got_value);
    } else {
        ctx.probe(if rep.got_value.is_some() {
            "value-received-by-script"
        } else if rep.got_disconnected {
            "disconnected-seen-by-script"
        } else {
            "receiver-dropped-by-script"
        });
    }
    if overlapped {
        ctx.probe("ops-overlapped");
    }
    Ok(overlapped || !sc.concurrent)
}

fn quiescent_common(sc: &OnceScenario, shared: &Shared, expected_releases: usize, ctx: &mut Ctx) -> Result<(), Violation> {
    // Payload: handed to the receiver xor destroyed, exactly once either way (the receiver drops
    // what it got, so the destructor count is exactly one whenever a value was sent).
    let drops = shared.payload_drops.load(Ordering::Relaxed);
    match sc.sender {
        SenderAction::Send => check!(
            drops == 1,
            if drops == 0 { "payload-leaked" } else { "payload-duplicated" },
            "payload destructor ran {drops} times"
        ),
        SenderAction::Drop => check!(drops == 0, "payload-from-nowhere", "destructor ran {drops} times without a send"),
    }
    for (i, w) in shared.wakers.iter().enumerate() {
        let clones = w.clones.load(Ordering::Relaxed);
        let dropped = w.drops.load(Ordering::Relaxed) + w.wakes_by_value.load(Ordering::Relaxed);
        // Every poll creates one original waker (dropped by the harness) plus the library's clones.
        let originals = dropped.saturating_sub(clones);
        check!(
            Arc::strong_count(w) == 1,
            "waker-leaked-or-overdropped",
            "waker {i}: {} references still alive at quiescence (clones {clones}, drops+consumed {dropped}, originals {originals})",
            Arc::strong_count(w) - 1
        );
    }
    let releases = RELEASE_COUNT.load(Ordering::Relaxed);
    ctx.event(releases as u64, || format!("q:releases = {releases}"));
    check!(
        releases == expected_releases,
        if releases < expected_releases { "storage-not-released" } else { "storage-released-twice" },
        "release_event ran {releases} times, expected {expected_releases}"
    );
    Ok(())
}

fn traffic_rounds() -> usize {
    2
}

impl Scenario for OnceScenario {
    fn generate(rng: &mut Rng, mode: &str) -> Self {
        match mode {
            // C05: storage strategies of the property (boxed, embedded, pooled).
            "mt" => gen_scenario(rng, &[Storage::Boxed, Storage::Embedded, Storage::Pooled], true, false),
            "seq" => gen_scenario(rng, &[Storage::Boxed, Storage::Embedded, Storage::Pooled], false, false),
            // C06: every storage strategy, rental traffic.
            "mt-all" => gen_scenario(
                rng,
                &[Storage::Boxed, Storage::Embedded, Storage::Pooled, Storage::RawPooled, Storage::Lake, Storage::RawLake],
                true,
                true,
            ),
            "seq-all" => gen_scenario(
                rng,
                &[Storage::Boxed, Storage::Embedded, Storage::Pooled, Storage::RawPooled, Storage::Lake, Storage::RawLake],
                false,
                true,
            ),
            other => panic!("unknown mode {other}"),
        }
    }

    fn run(&self, ctx: &mut Ctx) -> Result<bool, Violation> {
        events_once::verif::set_on_release(Some(on_release));
        RELEASE_COUNT.store(0, Ordering::Relaxed);
        POISON_ADDR.store(0, Ordering::Relaxed);
        cb_reset(&self.cb);
        let shared = Arc::new(Shared {
            go: std::sync::atomic::AtomicBool::new(false),
            stamp: AtomicU64::new(1),
            payload_drops: Arc::new(AtomicU32::new(0)),
            wakers: [Arc::new(WakerCounters::default()), Arc::new(WakerCounters::default())],
        });
        ctx.event_str(&format!(
            "cfg: {:?} sender={:?} traffic={} cb={:?}",
            self.storage, self.sender, self.traffic_threads, self.cb
        ));
        let traffic_events = usize::from(self.traffic_threads) * traffic_rounds();
        let traffic_runs = if self.concurrent { traffic_events } else { if self.traffic_threads > 0 { traffic_rounds() } else { 0 } };
        let nt;
        match self.storage {
            Storage::Boxed => {
                let (tx, rx) = Event::<Payload>::boxed();
                nt = run_pair(self, tx, rx, &shared, None, ctx)?;
                quiescent_common(self, &shared, 1, ctx)?;
            }
            Storage::Embedded => {
                let mut place = Box::pin(EmbeddedEvent::<Payload>::new());
                let addr = std::ptr::from_ref::<EmbeddedEvent<Payload>>(&*place) as usize;
                POISON_LEN.store(size_of::<EmbeddedEvent<Payload>>(), Ordering::Relaxed);
                POISON_ADDR.store(addr, Ordering::Relaxed);
                // SAFETY: fresh pinned container, kept alive and untouched until both endpoints
                // are gone (end of this block); after release we only overwrite it as its owner.
                let (tx, rx) = unsafe { Event::placed(place.as_mut()) };
                nt = run_pair(self, tx, rx, &shared, None, ctx)?;
                quiescent_common(self, &shared, 1, ctx)?;
                POISON_ADDR.store(0, Ordering::Relaxed);
                drop(place);
            }
            Storage::Pooled => {
                let pool = EventPool::<Payload>::new();
                let (tx, rx) = pool.rent();
                let p2 = pool.clone();
                let t: Arc<dyn Fn() + Send + Sync> = Arc::new(move || {
                    for _ in 0..traffic_rounds() {
                        let (tx, rx) = p2.rent();
                        drop(rx);
                        drop(tx);
                    }
                });
                nt = run_pair(self, tx, rx, &shared, Some(t), ctx)?;
                quiescent_common(self, &shared, 1 + traffic_runs, ctx)?;
                check!(pool.is_empty() && pool.len() == 0, "pool-not-empty", "pool.len() = {} at quiescence", pool.len());
            }
            Storage::RawPooled => {
                let pool = Arc::new(Box::pin(RawEventPool::<Payload>::new()));
                // SAFETY: the pool outlives the endpoints (dropped at the end of this block, after
                // every thread was joined).
                let (tx, rx) = unsafe { pool.as_ref().as_ref().rent() };
                let p2 = Arc::clone(&pool);
                let t: Arc<dyn Fn() + Send + Sync> = Arc::new(move || {
                    for _ in 0..traffic_rounds() {
                        // SAFETY: as above.
                        let (tx, rx) = unsafe { p2.as_ref().as_ref().rent() };
                        drop(tx);
                        drop(rx);
                    }
                });
                nt = run_pair(self, tx, rx, &shared, Some(t), ctx)?;
                quiescent_common(self, &shared, 1 + traffic_runs, ctx)?;
                check!(pool.is_empty() && pool.len() == 0, "pool-not-empty", "raw pool.len() = {} at quiescence", pool.len());
            }
            Storage::Lake => {
                let lake = EventLake::new();
                let (tx, rx) = lake.rent::<Payload>();
                let l2 = lake.clone();
                let t: Arc<dyn Fn() + Send + Sync> = Arc::new(move || {
                    for _ in 0..traffic_rounds() {
                        let (tx, rx) = l2.rent::<Payload>();
                        drop(rx);
                        drop(tx);
                    }
                });
                nt = run_pair(self, tx, rx, &shared, Some(t), ctx)?;
                quiescent_common(self, &shared, 1 + traffic_runs, ctx)?;
                check!(lake.is_empty() && lake.len() == 0, "lake-not-empty", "lake.len() = {} at quiescence", lake.len());
            }
            Storage::RawLake => {
                let lake = Arc::new(RawEventLake::new());
                // SAFETY: the lake outlives the endpoints.
                let (tx, rx) = unsafe { lake.rent::<Payload>() };
                let l2 = Arc::clone(&lake);
                let t: Arc<dyn Fn() + Send + Sync> = Arc::new(move || {
                    for _ in 0..traffic_rounds() {
                        // SAFETY: as above.
                        let (tx, rx) = unsafe { l2.rent::<Payload>() };
                        drop(tx);
                        drop(rx);
                    }
                });
                nt = run_pair(self, tx, rx, &shared, Some(t), ctx)?;
                quiescent_common(self, &shared, 1 + traffic_runs, ctx)?;
                check!(lake.is_empty() && lake.len() == 0, "lake-not-empty", "raw lake.len() = {} at quiescence", lake.len());
            }
        }
        match CB_FIRED.load(Ordering::Relaxed) {
            1 => {
                ctx.fault("sender-acted-inside-waker-callback");
                ctx.probe(match self.cb.sender_in {
                    Some((CbKind::Clone, _)) => "reentrant-sender-in-waker-clone",
                    _ => "reentrant-sender-in-waker-drop",
                });
            }
            3 => {
                ctx.fault("receiver-and-sender-released-together-from-waker-callback");
                ctx.probe("rendezvous-in-waker-callback");
            }
            2 => {
                ctx.fault("receiver-held-in-waker-callback-until-sender-done");
                ctx.probe(match self.cb.sender_in {
                    Some((CbKind::Clone, _)) => "sender-completed-inside-waker-clone",
                    _ => "sender-completed-inside-waker-drop",
                });
            }
            _ => {}
        }
        if self.cb.yields_clone > 0 || self.cb.yields_drop > 0 {
            ctx.fault("waker-callback-yields");
        }
        ctx.probe(match self.storage {
            Storage::Boxed => "storage:boxed",
            Storage::Embedded => "storage:embedded",
            Storage::Pooled => "storage:pooled",
            Storage::RawPooled => "storage:raw-pooled",
            Storage::Lake => "storage:lake",
            Storage::RawLake => "storage:raw-lake",
        });
        Ok(nt)
    }

    fn shrink(&self) -> Vec<Self> {
        let mut out = Vec::new();
        for r in simkit::shrink::remove_chunks(&self.receiver) {
            let mut s = self.clone();
            s.seq_sender_at = s.seq_sender_at.min(r.len() as u8);
            s.receiver = r;
            out.push(s);
        }
        if self.traffic_threads > 0 {
            let mut s = self.clone();
            s.traffic_threads -= 1;
            out.push(s);
        }
        if self.sender_yields > 0 {
            let mut s = self.clone();
            s.sender_yields -= 1;
            out.push(s);
        }
        if self.receiver_yields > 0 {
            let mut s = self.clone();
            s.receiver_yields -= 1;
            out.push(s);
        }
        if self.storage != Storage::Boxed {
            let mut s = self.clone();
            s.storage = Storage::Boxed;
            s.traffic_threads = 0;
            out.push(s);
        }
        if self.seq_sender_at > 0 {
            let mut s = self.clone();
            s.seq_sender_at -= 1;
            out.push(s);
        }
        if self.cb.yields_clone > 0 {
            let mut s = self.clone();
            s.cb.yields_clone -= 1;
            out.push(s);
        }
        if self.cb.yields_drop > 0 {
            let mut s = self.clone();
            s.cb.yields_drop -= 1;
            out.push(s);
        }
        if let Some((k, n)) = self.cb.sender_in {
            let mut s = self.clone();
            s.cb.sender_in = if n > 0 { Some((k, n - 1)) } else { None };
            out.push(s);
        }
        out
    }

    fn size(&self) -> usize {
        self.receiver.len() * 8
            + usize::from(self.traffic_threads) * 4
            + usize::from(self.sender_yields)
            + usize::from(self.receiver_yields)
            + usize::from(self.seq_sender_at)
            + usize::from(self.cb.yields_clone)
            + usize::from(self.cb.yields_drop)
            + self.cb.sender_in.map_or(0, |(_, n)| 2 + usize::from(n))
            + if self.storage == Storage::Boxed { 0 } else { 3 }
    }
}

/// Many short concurrent rounds on one persistent pair of threads (each round is an ordinary `mt`
/// scenario over a fresh event, with its own oracles evaluated at the round's quiescence).
#[derive(Clone, Debug, Serialize, Deserialize)]
struct StormScenario {
    rounds: Vec<OnceScenario>,
}

fn gen_storm_round(rng: &mut Rng, storages: &[Storage]) -> OnceScenario {
    let storage = *rng.pick(storages);
    if rng.bool() {
        // The core races of the protocol: one sender step against one or two receiver steps, with
        // next to no stagger (the windows are pairs of adjacent atomic operations on either side).
        let (sender, receiver) = match rng.below(9) {
            0 | 1 => (SenderAction::Drop, vec![RecvOp::Drop]),
            2 => (SenderAction::Drop, vec![RecvOp::Poll(0), RecvOp::Drop]),
            3 | 4 => (SenderAction::Drop, vec![RecvOp::Poll(0)]),
            5 => (SenderAction::Send, vec![RecvOp::Poll(0)]),
            6 => (SenderAction::Send, vec![RecvOp::Drop]),
            7 => (SenderAction::Send, vec![RecvOp::Poll(0), RecvOp::Poll(1)]),
            _ => (SenderAction::Send, vec![RecvOp::Poll(0), RecvOp::Drop]),
        };
        let polls = receiver.iter().filter(|o| matches!(o, RecvOp::Poll(_))).count();
        let mut cb = CbPlan::default();
        if polls > 0 && rng.bool() {
            // Release both threads at the moment a chosen waker callback returns: the receiver's
            // next step (the registration CAS after a clone, the state swap after a drop) then
            // races the sender's first steps.
            let kind = if rng.chance(2, 3) { CbKind::Clone } else { CbKind::Drop };
            let max = if kind == CbKind::Clone { polls } else { 2 * polls };
            cb.sender_in = Some((kind, rng.below(max as u64) as u8));
            cb.rendezvous = true;
        }
        return OnceScenario {
            cb,
            storage,
            sender,
            sender_yields: rng.below(3) as u8,
            receiver_yields: rng.below(3) as u8,
            traffic_threads: 0,
            seq_sender_at: 0,
            receiver,
            concurrent: true,
        };
    }
    let n = rng.weighted(&[3, 5, 3, 1]);
    let mut receiver = Vec::new();
    for _ in 0..n {
        let op = match rng.weighted(&[5, 1, 2, 3]) {
            0 => RecvOp::Poll(rng.below(2) as u8),
            1 => RecvOp::IsReady,
            2 => RecvOp::IntoValue,
            _ => RecvOp::Drop,
        };
        receiver.push(op);
        if op == RecvOp::Drop {
            break;
        }
    }
    let mut cb = CbPlan::default();
    if rng.chance(1, 4) {
        cb.yields_clone = rng.below(3) as u8;
        cb.yields_drop = rng.below(3) as u8;
    }
    OnceScenario {
        cb,
        storage,
        sender: if rng.chance(1, 2) { SenderAction::Send } else { SenderAction::Drop },
        sender_yields: rng.below(4) as u8,
        receiver_yields: rng.below(4) as u8,
        traffic_threads: 0,
        seq_sender_at: 0,
        receiver,
        concurrent: true,
    }
}

impl Scenario for StormScenario {
    fn generate(rng: &mut Rng, mode: &str) -> Self {
        let storages: &[Storage] = match mode {
            "storm" => &[Storage::Boxed, Storage::Embedded, Storage::Pooled],
            "storm-all" => &[Storage::Boxed, Storage::Embedded, Storage::Pooled, Storage::RawPooled, Storage::Lake, Storage::RawLake],
            other => panic!("unknown mode {other}"),
        };
        let n = rng.range_usize(12, 32);
        Self { rounds: (0..n).map(|_| gen_storm_round(rng, storages)).collect() }
    }

    fn run(&self, ctx: &mut Ctx) -> Result<bool, Violation> {
        struct Uninstall;
        impl Drop for Uninstall {
            fn drop(&mut self) {
                EXEC.with(|e| *e.borrow_mut() = None);
            }
        }
        EXEC.with(|e| *e.borrow_mut() = Some(Exec::new(2)));
        let _uninstall = Uninstall;
        let mut nontrivial = false;
        for (i, round) in self.rounds.iter().enumerate() {
            ctx.event_str(&format!("round {i}"));
            nontrivial |= round.run(ctx)?;
        }
        ctx.probe("storm-rounds");
        Ok(nontrivial)
    }

    fn shrink(&self) -> Vec<Self> {
        let mut out: Vec<Self> = simkit::shrink::remove_chunks(&self.rounds).into_iter().map(|rounds| Self { rounds }).collect();
        for (i, r) in self.rounds.iter().enumerate() {
            for smaller in r.shrink() {
                if smaller.concurrent {
                    let mut c = self.clone();
                    c.rounds[i] = smaller;
                    out.push(c);
                }
            }
        }
        out
    }

    fn size(&self) -> usize {
        self.rounds.iter().map(|r| 4 + r.size()).sum()
    }
}

fn main() {
    simkit::cli_main(
        "h_once",
        vec![
            entry::<OnceScenario>("C05", "mt", "sender thread vs receiver thread; boxed/embedded/pooled"),
            entry::<OnceScenario>("C05", "seq", "op-granular interleavings on one thread"),
            entry::<OnceScenario>("C06", "mt-all", "all storage strategies, rental traffic threads"),
            entry::<OnceScenario>("C06", "seq-all", "op-granular interleavings, all storage strategies"),
            entry::<StormScenario>("C05", "storm", "12-32 short concurrent rounds per scenario on one persistent thread pair; boxed/embedded/pooled"),
            entry::<StormScenario>("C06", "storm-all", "the same over all storage strategies"),
        ],
    )
}
