//! The allocator seam of C18.
//!
//! `SimAlloc` is the *inner* allocator handed to `alloc_tracker::Allocator<A>`: it logs every request it
//! receives, verbatim, into a fixed-size lock-free log (no allocation, no locks, only `const` thread-locals
//! without destructors — so it is usable as part of a `#[global_allocator]`), and serves memory from `System`
//! — or returns null when the fault plan armed a failure for the calling thread.
//!
//! `Shim<A>` is the *outer* marker put around the tracker: it forwards verbatim, but first notes (per thread,
//! per re-entrancy depth) what the program asked for, so that `SimAlloc` can compare what arrives at the
//! bottom with what was issued at the top (transparency oracle), and so that log entries carry the
//! re-entrancy depth (depth 1 = issued by the program; depth ≥ 2 = issued by the tracker's own code while it
//! was serving a call, i.e. its bootstrap allocations).

use std::alloc::{GlobalAlloc, Layout, System};
use std::cell::Cell;
use std::sync::atomic::Ordering::{Acquire, Relaxed, Release};
use std::sync::atomic::{AtomicBool, AtomicU64, AtomicUsize};

pub const K_ALLOC: u8 = 1;
pub const K_ZEROED: u8 = 2;
pub const K_REALLOC: u8 = 3;
pub const K_DEALLOC: u8 = 4;

#[must_use]
pub fn kind_name(k: u8) -> &'static str {
    match k {
        K_ALLOC => "alloc",
        K_ZEROED => "alloc_zeroed",
        K_REALLOC => "realloc",
        K_DEALLOC => "dealloc",
        _ => "?",
    }
}

/// One request as seen at some level of the allocator stack. Addresses are kept as integers and are only
/// ever compared, never logged into the event trace.
#[derive(Clone, Copy, Debug, PartialEq, Eq, Default)]
pub struct Req {
    pub kind: u8,
    pub size: usize,
    pub align: usize,
    pub ptr_in: usize,
    pub new_size: usize,
}

impl Req {
    #[must_use]
    pub fn describe(&self) -> String {
        match self.kind {
            K_REALLOC => format!(
                "realloc(size={}, align={}, new_size={})",
                self.size, self.align, self.new_size
            ),
            k => format!("{}(size={}, align={})", kind_name(k), self.size, self.align),
        }
    }
}

/// A log entry: the request `SimAlloc` received, what it returned, who asked and at which depth.
#[derive(Clone, Copy, Debug)]
pub struct Entry {
    pub req: Req,
    pub ret: usize,
    pub tid: u32,
    pub depth: u8,
    pub faulted: bool,
}

impl Entry {
    /// Does the property count this call? (alloc / alloc_zeroed / realloc: yes; dealloc: no.)
    #[must_use]
    pub fn is_counted_kind(&self) -> bool {
        matches!(self.req.kind, K_ALLOC | K_ZEROED | K_REALLOC)
    }

    /// Requested size the property attributes to this call (full new size for a reallocation).
    #[must_use]
    pub fn counted_bytes(&self) -> u64 {
        match self.req.kind {
            K_ALLOC | K_ZEROED => self.req.size as u64,
            K_REALLOC => self.req.new_size as u64,
            _ => 0,
        }
    }
}

#[cfg(miri)]
pub const LOG_CAP: usize = 1 << 12;
#[cfg(not(miri))]
pub const LOG_CAP: usize = 1 << 17;

struct Slot {
    meta: AtomicU64,
    size: AtomicUsize,
    align: AtomicUsize,
    ptr_in: AtomicUsize,
    new_size: AtomicUsize,
    ret: AtomicUsize,
}

impl Slot {
    const fn new() -> Self {
        Self {
            meta: AtomicU64::new(0),
            size: AtomicUsize::new(0),
            align: AtomicUsize::new(0),
            ptr_in: AtomicUsize::new(0),
            new_size: AtomicUsize::new(0),
            ret: AtomicUsize::new(0),
        }
    }
}

/// Fixed-size append-only log. Slots are claimed with one `fetch_add`; a slot becomes readable when its
/// `meta` word (written last, `Release`) carries the ready bit and the current epoch.
pub struct Log {
    len: AtomicUsize,
    overflow: AtomicBool,
    epoch: AtomicU64,
    slots: [Slot; LOG_CAP],
}

const READY: u64 = 1 << 17;
const FAULTED: u64 = 1 << 16;

impl Log {
    const fn new() -> Self {
        Self {
            len: AtomicUsize::new(0),
            overflow: AtomicBool::new(false),
            epoch: AtomicU64::new(1),
            slots: [const { Slot::new() }; LOG_CAP],
        }
    }

    /// Number of entries claimed so far (a position usable as a window boundary).
    #[must_use]
    pub fn len(&self) -> usize {
        self.len.load(Acquire).min(LOG_CAP)
    }

    #[must_use]
    pub fn is_empty(&self) -> bool {
        self.len() == 0
    }

    #[must_use]
    pub fn overflowed(&self) -> bool {
        self.overflow.load(Relaxed)
    }

    /// Forgets everything. Only at a quiescent point (no other thread inside an allocator call).
    pub fn reset(&self) {
        self.epoch.fetch_add(1, Relaxed);
        self.overflow.store(false, Relaxed);
        self.len.store(0, Release);
    }

    /// Entry `i`, or `None` if it is still being written (only possible for another thread's entry while
    /// threads run concurrently) or stale.
    #[must_use]
    pub fn get(&self, i: usize) -> Option<Entry> {
        let s = self.slots.get(i)?;
        let meta = s.meta.load(Acquire);
        if meta & READY == 0 || (meta >> 24) & 0xFFFF != self.epoch.load(Relaxed) & 0xFFFF {
            return None;
        }
        Some(Entry {
            req: Req {
                kind: (meta & 0xFF) as u8,
                size: s.size.load(Relaxed),
                align: s.align.load(Relaxed),
                ptr_in: s.ptr_in.load(Relaxed),
                new_size: s.new_size.load(Relaxed),
            },
            ret: s.ret.load(Relaxed),
            tid: (meta >> 40) as u32,
            depth: ((meta >> 8) & 0xFF) as u8,
            faulted: meta & FAULTED != 0,
        })
    }

    fn push(&self, req: Req, ret: usize, tid: u32, depth: u8, faulted: bool) {
        let i = self.len.fetch_add(1, Relaxed);
        let Some(s) = self.slots.get(i) else {
            self.overflow.store(true, Relaxed);
            // Keep `len` from wandering towards overflow of the counter itself.
            self.len.store(LOG_CAP, Relaxed);
            return;
        };
        s.size.store(req.size, Relaxed);
        s.align.store(req.align, Relaxed);
        s.ptr_in.store(req.ptr_in, Relaxed);
        s.new_size.store(req.new_size, Relaxed);
        s.ret.store(ret, Relaxed);
        let meta = u64::from(req.kind)
            | (u64::from(depth) << 8)
            | if faulted { FAULTED } else { 0 }
            | READY
            | ((self.epoch.load(Relaxed) & 0xFFFF) << 24)
            | (u64::from(tid & 0x00FF_FFFF) << 40);
        s.meta.store(meta, Release);
    }
}

pub static LOG: Log = Log::new();

// ------------------------------------------------------------------------------------------------
// Per-thread state (const-initialised, no destructors: usable inside a global allocator at any time).
// ------------------------------------------------------------------------------------------------

const MAX_DEPTH: usize = 4;

#[derive(Clone, Copy)]
struct Pending {
    req: Req,
    seen: u8,
    ret: usize,
}

const NO_PENDING: Pending = Pending {
    req: Req {
        kind: 0,
        size: 0,
        align: 0,
        ptr_in: 0,
        new_size: 0,
    },
    seen: 0,
    ret: 0,
};

thread_local! {
    static TID: Cell<u32> = const { Cell::new(0) };
    static DEPTH: Cell<u8> = const { Cell::new(0) };
    static FAIL_NEXT: Cell<bool> = const { Cell::new(false) };
    static PENDING: [Cell<Pending>; MAX_DEPTH] = const { [const { Cell::new(NO_PENDING) }; MAX_DEPTH] };
}

/// Labels the calling thread in subsequent log entries (0 = unlabelled: the driver thread, or a thread that
/// has not reached harness code yet).
pub fn set_tid(t: u32) {
    TID.with(|c| c.set(t));
}

#[must_use]
pub fn tid() -> u32 {
    TID.with(Cell::get)
}

/// Fault plan: the next program-level request (alloc / alloc_zeroed / realloc at depth ≤ 1) of the calling
/// thread is answered with null by `SimAlloc`.
pub fn arm_fail() {
    FAIL_NEXT.with(|c| c.set(true));
}

/// Still armed (the fault did not fire)? Disarms.
pub fn disarm_fail() -> bool {
    FAIL_NEXT.with(|c| c.replace(false))
}

// ------------------------------------------------------------------------------------------------
// Transparency mismatches (recorded without allocating; polled by the harness after every operation).
// ------------------------------------------------------------------------------------------------

pub const MM_KIND: u64 = 1;
pub const MM_LAYOUT: u64 = 2;
pub const MM_PTR: u64 = 3;
pub const MM_NEW_SIZE: u64 = 4;
pub const MM_NOT_FORWARDED: u64 = 5;
pub const MM_FORWARDED_TWICE: u64 = 6;
pub const MM_RETURN_CHANGED: u64 = 7;
pub const MM_UNSOLICITED: u64 = 8;
pub const MM_DEPTH: u64 = 9;

static MM_COUNT: AtomicU64 = AtomicU64::new(0);
static MM_CODE: AtomicU64 = AtomicU64::new(0);
static MM_WORDS: [AtomicU64; 12] = [const { AtomicU64::new(0) }; 12];

#[derive(Debug, Clone)]
pub struct Mismatch {
    pub code: u64,
    pub count: u64,
    pub issued: Req,
    pub arrived: Req,
    pub ret_inner: usize,
    pub ret_outer: usize,
}

impl Mismatch {
    #[must_use]
    pub fn class(&self) -> &'static str {
        match self.code {
            MM_KIND => "forward-kind-mismatch",
            MM_LAYOUT => "forward-layout-mismatch",
            MM_PTR => "forward-pointer-mismatch",
            MM_NEW_SIZE => "forward-new-size-mismatch",
            MM_NOT_FORWARDED => "call-not-forwarded",
            MM_FORWARDED_TWICE => "call-forwarded-twice",
            MM_RETURN_CHANGED => "return-value-changed",
            MM_UNSOLICITED => "unsolicited-inner-call",
            _ => "harness-depth-overflow",
        }
    }

    #[must_use]
    pub fn describe(&self) -> String {
        format!(
            "{}: program issued {}, inner allocator saw {}; ptr_in equal: {}; inner returned null: {}, tracker returned null: {}, returns equal: {} ({} mismatch(es) since last poll)",
            self.class(),
            self.issued.describe(),
            self.arrived.describe(),
            self.issued.ptr_in == self.arrived.ptr_in,
            self.ret_inner == 0,
            self.ret_outer == 0,
            self.ret_inner == self.ret_outer,
            self.count
        )
    }
}

fn note_mismatch(code: u64, issued: Req, arrived: Req, ret_inner: usize, ret_outer: usize) {
    if MM_COUNT.fetch_add(1, Relaxed) == 0 {
        let w = [
            u64::from(issued.kind),
            issued.size as u64,
            issued.align as u64,
            issued.ptr_in as u64,
            issued.new_size as u64,
            u64::from(arrived.kind),
            arrived.size as u64,
            arrived.align as u64,
            arrived.ptr_in as u64,
            arrived.new_size as u64,
            ret_inner as u64,
            ret_outer as u64,
        ];
        for (slot, v) in MM_WORDS.iter().zip(w) {
            slot.store(v, Relaxed);
        }
        MM_CODE.store(code, Release);
    }
}

/// The first mismatch recorded since the last poll, if any. Quiescent points only.
pub fn take_mismatch() -> Option<Mismatch> {
    let count = MM_COUNT.load(Acquire);
    if count == 0 {
        return None;
    }
    let code = MM_CODE.load(Acquire);
    let mut w = [0_u64; 12];
    for (dst, src) in w.iter_mut().zip(MM_WORDS.iter()) {
        *dst = src.load(Relaxed);
    }
    MM_CODE.store(0, Relaxed);
    MM_COUNT.store(0, Release);
    Some(Mismatch {
        code,
        count,
        issued: Req {
            kind: w[0] as u8,
            size: w[1] as usize,
            align: w[2] as usize,
            ptr_in: w[3] as usize,
            new_size: w[4] as usize,
        },
        arrived: Req {
            kind: w[5] as u8,
            size: w[6] as usize,
            align: w[7] as usize,
            ptr_in: w[8] as usize,
            new_size: w[9] as usize,
        },
        ret_inner: w[10] as usize,
        ret_outer: w[11] as usize,
    })
}

// ------------------------------------------------------------------------------------------------
// Shim: the marker around the tracker.
// ------------------------------------------------------------------------------------------------

/// Forwards verbatim to `A` (the tracker); notes what was asked and checks what came back.
pub struct Shim<A>(pub A);

#[inline]
fn enter(req: Req) -> usize {
    let d = DEPTH.with(Cell::get) as usize;
    if d >= MAX_DEPTH {
        note_mismatch(MM_DEPTH, req, Req::default(), 0, 0);
        // Still count the level so that leave() stays balanced.
        DEPTH.with(|c| c.set(c.get().saturating_add(1)));
        return d;
    }
    PENDING.with(|p| {
        p[d].set(Pending {
            req,
            seen: 0,
            ret: 0,
        });
    });
    DEPTH.with(|c| c.set(d as u8 + 1));
    d
}

#[inline]
fn leave(d: usize, ret_outer: usize) {
    DEPTH.with(|c| c.set(d as u8));
    if d >= MAX_DEPTH {
        return;
    }
    let p = PENDING.with(|p| p[d].replace(NO_PENDING));
    if p.seen == 0 {
        note_mismatch(MM_NOT_FORWARDED, p.req, Req::default(), 0, ret_outer);
    } else if p.seen == 1 && p.ret != ret_outer {
        note_mismatch(MM_RETURN_CHANGED, p.req, p.req, p.ret, ret_outer);
    }
}

// SAFETY: every method forwards its arguments unchanged to the wrapped allocator and returns its result.
unsafe impl<A: GlobalAlloc> GlobalAlloc for Shim<A> {
    unsafe fn alloc(&self, layout: Layout) -> *mut u8 {
        let d = enter(Req {
            kind: K_ALLOC,
            size: layout.size(),
            align: layout.align(),
            ptr_in: 0,
            new_size: 0,
        });
        // SAFETY: same contract as ours.
        let r = unsafe { self.0.alloc(layout) };
        leave(d, r as usize);
        r
    }

    unsafe fn alloc_zeroed(&self, layout: Layout) -> *mut u8 {
        let d = enter(Req {
            kind: K_ZEROED,
            size: layout.size(),
            align: layout.align(),
            ptr_in: 0,
            new_size: 0,
        });
        // SAFETY: same contract as ours.
        let r = unsafe { self.0.alloc_zeroed(layout) };
        leave(d, r as usize);
        r
    }

    unsafe fn realloc(&self, ptr: *mut u8, layout: Layout, new_size: usize) -> *mut u8 {
        let d = enter(Req {
            kind: K_REALLOC,
            size: layout.size(),
            align: layout.align(),
            ptr_in: ptr as usize,
            new_size,
        });
        // SAFETY: same contract as ours.
        let r = unsafe { self.0.realloc(ptr, layout, new_size) };
        leave(d, r as usize);
        r
    }

    unsafe fn dealloc(&self, ptr: *mut u8, layout: Layout) {
        let d = enter(Req {
            kind: K_DEALLOC,
            size: layout.size(),
            align: layout.align(),
            ptr_in: ptr as usize,
            new_size: 0,
        });
        // SAFETY: same contract as ours.
        unsafe { self.0.dealloc(ptr, layout) };
        leave(d, 0);
    }
}

// ------------------------------------------------------------------------------------------------
// SimAlloc: the inner allocator.
// ------------------------------------------------------------------------------------------------

pub struct SimAlloc;

#[inline]
fn dangling(align: usize) -> *mut u8 {
    std::ptr::without_provenance_mut(align.max(1))
}

/// Compares the arriving request with what the program issued at this depth, logs it, and says whether the
/// fault plan wants this call to fail.
#[inline]
fn arrive(req: Req) -> (u8, bool) {
    let depth = DEPTH.with(Cell::get);
    let d = depth as usize;
    if d == 0 || d > MAX_DEPTH {
        note_mismatch(MM_UNSOLICITED, Req::default(), req, 0, 0);
    } else {
        PENDING.with(|p| {
            let mut cur = p[d - 1].get();
            if cur.seen > 0 {
                note_mismatch(MM_FORWARDED_TWICE, cur.req, req, 0, 0);
            } else if cur.req.kind != req.kind {
                note_mismatch(MM_KIND, cur.req, req, 0, 0);
            } else if cur.req.size != req.size || cur.req.align != req.align {
                note_mismatch(MM_LAYOUT, cur.req, req, 0, 0);
            } else if cur.req.ptr_in != req.ptr_in {
                note_mismatch(MM_PTR, cur.req, req, 0, 0);
            } else if cur.req.new_size != req.new_size {
                note_mismatch(MM_NEW_SIZE, cur.req, req, 0, 0);
            }
            cur.seen = cur.seen.saturating_add(1);
            p[d - 1].set(cur);
        });
    }
    let fail = req.kind != K_DEALLOC && depth <= 1 && FAIL_NEXT.with(|c| c.replace(false));
    (depth, fail)
}

#[inline]
fn depart(req: Req, ret: usize, depth: u8, faulted: bool) {
    let d = depth as usize;
    if d >= 1 && d <= MAX_DEPTH {
        PENDING.with(|p| {
            let mut cur = p[d - 1].get();
            if cur.seen == 1 {
                cur.ret = ret;
                p[d - 1].set(cur);
            }
        });
    }
    LOG.push(req, ret, TID.with(Cell::get), depth, faulted);
}

// SAFETY: memory comes from `System` with the caller's layout; zero-size requests (outside the `GlobalAlloc`
// contract, but the tracker must pass them through like anything else) are answered with a dangling,
// suitably aligned pointer and never reach `System`.
unsafe impl GlobalAlloc for SimAlloc {
    unsafe fn alloc(&self, layout: Layout) -> *mut u8 {
        let req = Req {
            kind: K_ALLOC,
            size: layout.size(),
            align: layout.align(),
            ptr_in: 0,
            new_size: 0,
        };
        let (depth, fail) = arrive(req);
        let ret = if fail {
            std::ptr::null_mut()
        } else if layout.size() == 0 {
            dangling(layout.align())
        } else {
            // SAFETY: non-zero size, valid layout.
            unsafe { System.alloc(layout) }
        };
        depart(req, ret as usize, depth, fail);
        ret
    }

    unsafe fn alloc_zeroed(&self, layout: Layout) -> *mut u8 {
        let req = Req {
            kind: K_ZEROED,
            size: layout.size(),
            align: layout.align(),
            ptr_in: 0,
            new_size: 0,
        };
        let (depth, fail) = arrive(req);
        let ret = if fail {
            std::ptr::null_mut()
        } else if layout.size() == 0 {
            dangling(layout.align())
        } else {
            // SAFETY: non-zero size, valid layout.
            unsafe { System.alloc_zeroed(layout) }
        };
        depart(req, ret as usize, depth, fail);
        ret
    }

    unsafe fn realloc(&self, ptr: *mut u8, layout: Layout, new_size: usize) -> *mut u8 {
        let req = Req {
            kind: K_REALLOC,
            size: layout.size(),
            align: layout.align(),
            ptr_in: ptr as usize,
            new_size,
        };
        let (depth, fail) = arrive(req);
        let ret = if fail {
            std::ptr::null_mut()
        } else if layout.size() == 0 {
            if new_size == 0 {
                dangling(layout.align())
            } else {
                // SAFETY: non-zero size; the alignment is that of a valid layout.
                unsafe { System.alloc(Layout::from_size_align_unchecked(new_size, layout.align())) }
            }
        } else if new_size == 0 {
            // SAFETY: `ptr` was allocated by `System` with `layout`.
            unsafe { System.dealloc(ptr, layout) };
            dangling(layout.align())
        } else {
            // SAFETY: `ptr` was allocated by `System` with `layout`; `new_size` is non-zero.
            unsafe { System.realloc(ptr, layout, new_size) }
        };
        depart(req, ret as usize, depth, fail);
        ret
    }

    unsafe fn dealloc(&self, ptr: *mut u8, layout: Layout) {
        let req = Req {
            kind: K_DEALLOC,
            size: layout.size(),
            align: layout.align(),
            ptr_in: ptr as usize,
            new_size: 0,
        };
        let (depth, _) = arrive(req);
        if layout.size() != 0 {
            // SAFETY: `ptr` was allocated by `System` with `layout`.
            unsafe { System.dealloc(ptr, layout) };
        }
        depart(req, 0, depth, false);
    }
}
