//! Concurrent configuration of C18 (modes `conc`, `conc-tiny`): real threads run their scripts *at the same time*
//! on the tracker (direct flavour). The schedule is the operating system's natively and Miri's seeded scheduler under
//! Miri (preemption inside `track_allocation`, the thread-local bootstrap, the registry mutex and
//! `allocation_totals`), yet every checked quantity is schedule-independent, so runs stay deterministic:
//!
//! * a thread span counts only its own thread's calls — exact at any time, whatever other threads do;
//! * the outer process span is opened before the threads start and closed after they are joined (quiescent at both
//!   ends): it must equal the whole log;
//! * process spans opened and closed *while* others allocate are not exact by the property; they are only bounded
//!   (own calls ≤ reported ≤ own calls + everything the other threads did in the run) and must not panic
//!   ("could not possibly decrease");
//! * report totals per operation name are checked when everything is joined (shared names) or immediately
//!   (names private to one thread).

use std::alloc::{GlobalAlloc, Layout};
use std::collections::BTreeMap;
use std::sync::{Arc, Barrier};

use alloc_tracker::Session;
use serde::{Deserialize, Serialize};
use simkit::{Ctx, Rng, Scenario, Violation, check, mix};

use crate::engine::DIRECT;
use crate::simalloc::{self, K_REALLOC, LOG, set_tid};

#[derive(Clone, Debug, Serialize, Deserialize, PartialEq, Eq)]
pub enum COp {
    Alloc { size: usize, align_log2: u8, zeroed: bool },
    Realloc { sel: usize, new_size: usize },
    Dealloc { sel: usize },
    /// `shared`: operation name common to all threads; otherwise a name private to this thread.
    OpenThread { name: usize, shared: bool },
    CloseThread { sel: usize, iterations: u64 },
    /// Open a process span, make `k` small allocations, close it — while the other threads keep going.
    ProcessProbe { k: u8 },
}

#[derive(Clone, Debug, Serialize, Deserialize)]
pub struct ConcScenario {
    pub scripts: Vec<Vec<COp>>,
}

struct Span {
    name: String,
    private: bool,
    start: usize,
    span: alloc_tracker::ThreadSpan,
}

#[derive(Default, Clone)]
struct Totals {
    bytes: u64,
    count: u64,
    iters: u64,
    spans: u64,
}

#[derive(Default)]
struct ThreadOut {
    events: Vec<(u64, String)>,
    recorded: Vec<(String, Totals)>,
    probes: Vec<(u64, u64, u64)>, // (reported count, reported bytes, own count) of in-flight process spans
    violation: Option<Violation>,
    realloc_in_span: bool,
    counted: u64,
}

/// This thread's counted calls / bytes in the log window; entries of other threads may still be in flight.
fn own_window(start: usize, end: usize, tid: u32) -> (u64, u64, bool) {
    let (mut count, mut bytes, mut realloc) = (0, 0, false);
    for i in start..end {
        if let Some(e) = LOG.get(i) {
            if e.tid == tid && e.is_counted_kind() {
                count += 1;
                bytes += e.counted_bytes();
                realloc |= e.req.kind == K_REALLOC;
            }
        }
    }
    (count, bytes, realloc)
}

fn thread_main(t: usize, script: &[COp], session: &Session, keep_log: bool) -> ThreadOut {
    let tid = t as u32 + 1;
    set_tid(tid);
    let mut out = ThreadOut::default();
    let mut blocks: Vec<(*mut u8, usize, usize)> = Vec::new();
    let mut spans: Vec<Span> = Vec::new();
    let mut model: BTreeMap<String, Totals> = BTreeMap::new();
    let ev = |out: &mut ThreadOut, code: u64, text: &dyn Fn() -> String| {
        out.events.push((mix(t as u64, code), if keep_log { text() } else { String::new() }));
    };
    let r: Result<(), Violation> = (|| {
        let close = |out: &mut ThreadOut,
                         model: &mut BTreeMap<String, Totals>,
                         s: Span,
                         iterations: u64|
         -> Result<(), Violation> {
            drop(s.span.iterations(iterations));
            let end = LOG.len();
            let (count, bytes, realloc) = own_window(s.start, end, tid);
            out.realloc_in_span |= realloc;
            let mut tot = Totals::default();
            tot.bytes = bytes;
            tot.count = count;
            tot.iters = iterations;
            tot.spans = 1;
            out.recorded.push((s.name.clone(), tot));
            if s.private {
                let m = model.entry(s.name.clone()).or_default();
                m.bytes += bytes;
                m.count += count;
                m.iters += iterations;
                m.spans += 1;
                let report = session.to_report();
                let Some((_, op)) = report.operations().find(|(n, _)| *n == s.name) else {
                    return Err(Violation::new("report-names-wrong", format!("thread {t}: {} missing", s.name)));
                };
                check!(
                    op.total_allocations_count() == m.count,
                    "thread-span-count-wrong",
                    "thread {t}: after closing a span under {} (own log window: {count} calls / {bytes} bytes) the operation totals are {} calls / {} bytes, expected {} / {}",
                    s.name,
                    op.total_allocations_count(),
                    op.total_bytes_allocated(),
                    m.count,
                    m.bytes
                );
                check!(
                    op.total_bytes_allocated() == m.bytes,
                    "thread-span-bytes-wrong",
                    "thread {t}: after closing a span under {} (own log window: {count} calls / {bytes} bytes) the operation totals are {} calls / {} bytes, expected {} / {}",
                    s.name,
                    op.total_allocations_count(),
                    op.total_bytes_allocated(),
                    m.count,
                    m.bytes
                );
                check!(
                    op.total_iterations() == m.iters && op.statistics().map_or(0, |x| x.span_count) == m.spans,
                    "report-iterations-wrong",
                    "thread {t}: {} iterations / span count wrong",
                    s.name
                );
            }
            Ok(())
        };
        for (i, op) in script.iter().enumerate() {
            match *op {
                COp::Alloc { size, align_log2, zeroed } => {
                    let size = size.max(1);
                    let align = 1_usize << align_log2.min(12);
                    let layout = Layout::from_size_align(size, align).expect("layout");
                    let before = LOG.len();
                    // SAFETY: non-zero size.
                    let p = unsafe {
                        if zeroed {
                            DIRECT.alloc_zeroed(layout)
                        } else {
                            DIRECT.alloc(layout)
                        }
                    };
                    let after = LOG.len();
                    let (c, b, _) = own_window(before, after, tid);
                    ev(&mut out, mix(1, mix(size as u64, align as u64)), &|| {
                        format!("t{t} op {i}: alloc size={size} align={align} zeroed={zeroed}")
                    });
                    check!(!p.is_null(), "null-mismatch", "thread {t} op {i}: null without a fault");
                    check!(
                        c == 1 && b == size as u64,
                        "call-not-forwarded",
                        "thread {t} op {i}: own log window shows {c} calls / {b} bytes for one alloc of {size}"
                    );
                    check!(p as usize % align == 0, "misaligned", "thread {t} op {i}");
                    if zeroed {
                        // SAFETY: valid for size bytes.
                        let z = unsafe { std::slice::from_raw_parts(p, size) }.iter().all(|x| *x == 0);
                        check!(z, "not-zeroed", "thread {t} op {i}");
                    }
                    // SAFETY: valid for size bytes.
                    unsafe { p.write_bytes(t as u8 + 1, size) };
                    blocks.push((p, size, align));
                    out.counted += 1;
                }
                COp::Realloc { sel, new_size } => {
                    if blocks.is_empty() {
                        continue;
                    }
                    let bi = sel % blocks.len();
                    let (p0, size, align) = blocks[bi];
                    let new_size = new_size.max(1);
                    let layout = Layout::from_size_align(size, align).expect("layout");
                    let before = LOG.len();
                    // SAFETY: live block of this layout.
                    let p = unsafe { DIRECT.realloc(p0, layout, new_size) };
                    let after = LOG.len();
                    let (c, b, _) = own_window(before, after, tid);
                    ev(&mut out, mix(3, mix(bi as u64, new_size as u64)), &|| {
                        format!("t{t} op {i}: realloc block {bi} {size} -> {new_size}")
                    });
                    check!(!p.is_null(), "null-mismatch", "thread {t} op {i}: null without a fault");
                    check!(
                        c == 1 && b == new_size as u64,
                        "call-not-forwarded",
                        "thread {t} op {i}: own log window shows {c} calls / {b} bytes for one realloc to {new_size}"
                    );
                    // SAFETY: valid for new_size bytes.
                    let kept = unsafe { std::slice::from_raw_parts(p, size.min(new_size)) }
                        .iter()
                        .all(|x| *x == t as u8 + 1);
                    check!(kept, "content-lost", "thread {t} op {i}: realloc lost contents");
                    // SAFETY: valid for new_size bytes.
                    unsafe { p.write_bytes(t as u8 + 1, new_size) };
                    blocks[bi] = (p, new_size, align);
                    out.counted += 1;
                }
                COp::Dealloc { sel } => {
                    if blocks.is_empty() {
                        continue;
                    }
                    let bi = sel % blocks.len();
                    let (p, size, align) = blocks.swap_remove(bi);
                    ev(&mut out, mix(4, bi as u64), &|| format!("t{t} op {i}: dealloc block {bi}"));
                    // SAFETY: live block of this layout.
                    unsafe { DIRECT.dealloc(p, Layout::from_size_align(size, align).expect("layout")) };
                }
                COp::OpenThread { name, shared } => {
                    let name_s = if shared { format!("shared{name}") } else { format!("t{t}-op{name}") };
                    let op = session.operation(name_s.clone());
                    let start = LOG.len();
                    let span = op.measure_thread();
                    ev(&mut out, mix(8, mix(name as u64, u64::from(shared))), &|| {
                        format!("t{t} op {i}: open thread span under {name_s}")
                    });
                    spans.push(Span {
                        name: name_s,
                        private: !shared,
                        start,
                        span,
                    });
                }
                COp::CloseThread { sel, iterations } => {
                    if spans.is_empty() {
                        continue;
                    }
                    let si = sel % spans.len();
                    let s = spans.remove(si);
                    ev(&mut out, mix(10, mix(si as u64, iterations)), &|| {
                        format!("t{t} op {i}: close thread span {si} ({}) iterations {iterations}", s.name)
                    });
                    close(&mut out, &mut model, s, iterations)?;
                }
                COp::ProcessProbe { k } => {
                    let name_s = format!("t{t}-probe");
                    let op = session.operation(name_s.clone());
                    let before = session
                        .to_report()
                        .operations()
                        .find(|(n, _)| *n == name_s)
                        .map_or((0, 0), |(_, o)| (o.total_allocations_count(), o.total_bytes_allocated()));
                    let start = LOG.len();
                    let span = op.measure_process();
                    for _ in 0..k {
                        let layout = Layout::new::<u64>();
                        // SAFETY: non-zero size; freed right away with the same layout.
                        unsafe {
                            let p = DIRECT.alloc(layout);
                            if !p.is_null() {
                                DIRECT.dealloc(p, layout);
                            }
                        }
                    }
                    drop(span.iterations(1));
                    let end = LOG.len();
                    let (own, _, _) = own_window(start, end, tid);
                    let after = session
                        .to_report()
                        .operations()
                        .find(|(n, _)| *n == name_s)
                        .map_or((0, 0), |(_, o)| (o.total_allocations_count(), o.total_bytes_allocated()));
                    ev(&mut out, mix(11, u64::from(k)), &|| format!("t{t} op {i}: in-flight process span around {k} allocations"));
                    out.probes.push((after.0 - before.0, after.1 - before.1, own));
                    out.recorded.push((
                        name_s,
                        Totals {
                            bytes: after.1 - before.1,
                            count: after.0 - before.0,
                            iters: 1,
                            spans: 1,
                        },
                    ));
                    out.counted += u64::from(k);
                }
            }
        }
        while let Some(s) = spans.pop() {
            close(&mut out, &mut model, s, 1)?;
        }
        Ok(())
    })();
    // Whatever happened, no span may be dropped without a count and no block may leak.
    for s in spans.drain(..) {
        drop(s.span.iterations(0));
    }
    for (p, size, align) in blocks.drain(..) {
        // SAFETY: live block of this layout.
        unsafe { DIRECT.dealloc(p, Layout::from_size_align(size, align).expect("layout")) };
    }
    out.violation = r.err();
    out
}

impl Scenario for ConcScenario {
    fn generate(rng: &mut Rng, mode: &str) -> Self {
        let tiny = mode.ends_with("tiny");
        let threads = if tiny { rng.range_usize(2, 3) } else { rng.range_usize(2, 8) };
        let scripts = (0..threads)
            .map(|_| {
                let n = if tiny { rng.range_usize(2, 8) } else { rng.range_usize(3, 60) };
                (0..n)
                    .map(|_| match rng.weighted(&[8, 4, 3, 4, 4, 2]) {
                        0 => COp::Alloc {
                            size: if tiny || rng.chance(7, 8) {
                                rng.range_usize(1, 200)
                            } else {
                                rng.range_usize(201, 300_000)
                            },
                            align_log2: rng.range(0, if tiny { 6 } else { 12 }) as u8,
                            zeroed: rng.chance(1, 3),
                        },
                        1 => COp::Realloc {
                            sel: rng.below_usize(16),
                            new_size: if tiny || rng.chance(7, 8) {
                                rng.range_usize(1, 300)
                            } else {
                                rng.range_usize(301, 300_000)
                            },
                        },
                        2 => COp::Dealloc { sel: rng.below_usize(16) },
                        3 => COp::OpenThread {
                            name: rng.below_usize(2),
                            shared: rng.chance(1, 2),
                        },
                        4 => COp::CloseThread {
                            sel: rng.below_usize(8),
                            iterations: *rng.pick(&[0_u64, 1, 1, 1, 2, 7, 1000]),
                        },
                        _ => COp::ProcessProbe { k: rng.range(0, 3) as u8 },
                    })
                    .collect()
            })
            .collect();
        Self { scripts }
    }

    fn run(&self, ctx: &mut Ctx) -> Result<bool, Violation> {
        assert!(
            !crate::engine::INSTALLED.load(std::sync::atomic::Ordering::Relaxed),
            "harness: conc modes run in h_alloc"
        );
        let n = self.scripts.len();
        if n == 0 {
            return Ok(false);
        }
        set_tid(0);
        LOG.reset();
        let _ = simalloc::take_mismatch();
        let session = Arc::new(Session::new().no_stdout().no_file());
        let outer_op = session.operation("outer");
        ctx.event(n as u64, || format!("config: {n} concurrent threads"));
        let start = LOG.len();
        let outer = outer_op.measure_process();
        let barrier = Arc::new(Barrier::new(n));
        let keep_log = ctx.keep_log;
        let handles: Vec<_> = self
            .scripts
            .iter()
            .enumerate()
            .map(|(t, script)| {
                let script = script.clone();
                let session = Arc::clone(&session);
                let barrier = Arc::clone(&barrier);
                std::thread::spawn(move || {
                    barrier.wait();
                    thread_main(t, &script, &session, keep_log)
                })
            })
            .collect();
        let mut outs = Vec::new();
        for h in handles {
            match h.join() {
                Ok(o) => outs.push(o),
                Err(p) => {
                    drop(outer.iterations(0));
                    return Err(simkit::panic_violation(&p));
                }
            }
        }
        drop(outer.iterations(3));
        let end = LOG.len();
        assert!(!LOG.overflowed(), "harness: SimAlloc log overflowed");
        for o in &mut outs {
            for (code, text) in o.events.drain(..) {
                ctx.event(code, || text);
            }
        }
        for o in &outs {
            if let Some(v) = &o.violation {
                return Err(v.clone());
            }
        }
        if let Some(m) = simalloc::take_mismatch() {
            return Err(Violation::new(m.class(), m.describe()));
        }
        // Quiescent: the outer process span equals the whole log.
        let (mut count, mut bytes) = (0_u64, 0_u64);
        let mut per_tid: BTreeMap<u32, u64> = BTreeMap::new();
        for i in start..end {
            let e = LOG.get(i).expect("readable once all threads are joined");
            if e.is_counted_kind() {
                count += 1;
                bytes += e.counted_bytes();
                *per_tid.entry(e.tid).or_insert(0) += 1;
            }
        }
        let scripted: u64 = outs.iter().map(|o| o.counted).sum();
        check!(
            count == scripted,
            "call-not-forwarded",
            "the inner allocator logged {count} counted calls, the threads made {scripted}"
        );
        let report = session.to_report();
        let got: BTreeMap<String, (u64, u64, u64, u64)> = report
            .operations()
            .map(|(n, o)| {
                (
                    n.to_owned(),
                    (
                        o.total_allocations_count(),
                        o.total_bytes_allocated(),
                        o.total_iterations(),
                        o.statistics().map_or(0, |s| s.span_count),
                    ),
                )
            })
            .collect();
        let outer_got = got.get("outer").copied().unwrap_or_default();
        ctx.event(mix(count, bytes), || {
            format!("outer process span: log has {count} calls / {bytes} bytes, reported {} / {}", outer_got.0, outer_got.1)
        });
        check!(
            outer_got.0 == count,
            "process-span-count-wrong",
            "outer process span (opened before {n} threads started, closed after they were joined): log holds {count} counted calls / {bytes} bytes, span reported {} / {}",
            outer_got.0,
            outer_got.1
        );
        check!(
            outer_got.1 == bytes,
            "process-span-bytes-wrong",
            "outer process span (opened before {n} threads started, closed after they were joined): log holds {count} counted calls / {bytes} bytes, span reported {} / {}",
            outer_got.0,
            outer_got.1
        );
        check!(outer_got.2 == 3 && outer_got.3 == 1, "report-iterations-wrong", "outer: {outer_got:?}");
        // Report totals per name = sums of the spans recorded under it, by whichever thread.
        let mut want: BTreeMap<String, Totals> = BTreeMap::new();
        for o in &outs {
            for (name, t) in &o.recorded {
                let w = want.entry(name.clone()).or_default();
                w.bytes += t.bytes;
                w.count += t.count;
                w.iters += t.iters;
                w.spans += t.spans;
            }
        }
        for (name, w) in &want {
            let g = got.get(name).copied().unwrap_or_default();
            check!(
                g == (w.count, w.bytes, w.iters, w.spans),
                "report-totals-wrong",
                "operation {name}: report says {g:?} (calls, bytes, iterations, spans), the spans recorded under it sum to ({}, {}, {}, {})",
                w.count,
                w.bytes,
                w.iters,
                w.spans
            );
            if name.starts_with("shared") && w.spans >= 2 {
                ctx.probe("shared-name-spans-from-several-closes");
            }
        }
        // In-flight process spans: bounded, never exact.
        for (t, o) in outs.iter().enumerate() {
            let foreign: u64 = per_tid.iter().filter(|(k, _)| **k != t as u32 + 1).map(|(_, v)| *v).sum();
            for (rc, _rb, own) in &o.probes {
                check!(
                    *rc >= *own && *rc <= *own + foreign,
                    "process-span-out-of-bounds",
                    "thread {t}: an in-flight process span reported {rc} calls; own calls inside {own}, other threads made {foreign} in the whole run"
                );
                if *rc > *own {
                    ctx.probe("in-flight-process-span-saw-other-threads");
                }
                ctx.probe("in-flight-process-span");
            }
        }
        let allocating_threads = per_tid.len();
        if allocating_threads >= 2 {
            ctx.probe("process-span-2+-threads-allocated");
        }
        let realloc_in_span = outs.iter().any(|o| o.realloc_in_span);
        if realloc_in_span {
            ctx.probe("realloc-inside-span");
        }
        Ok(allocating_threads >= 2 || realloc_in_span)
    }

    fn shrink(&self) -> Vec<Self> {
        let mut out = Vec::new();
        if self.scripts.len() > 1 {
            for i in 0..self.scripts.len() {
                let mut s = self.scripts.clone();
                s.remove(i);
                out.push(Self { scripts: s });
            }
        }
        for (i, script) in self.scripts.iter().enumerate() {
            for c in simkit::shrink::remove_chunks(script) {
                let mut s = self.scripts.clone();
                s[i] = c;
                out.push(Self { scripts: s });
            }
        }
        out
    }

    fn size(&self) -> usize {
        self.scripts.len() + self.scripts.iter().map(Vec::len).sum::<usize>() * 2
    }
}
