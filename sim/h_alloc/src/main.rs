//! `h_alloc`: global allocator = System. Serves the direct and concurrent modes itself; for the `installed*` modes it
//! replaces itself (exec) with the sibling binary `h_alloc_installed`, whose global allocator is the tracker.

/// Keys of known defects whose triggers the ordinary modes must not generate, each with a `known-<key>` mode that
/// reproduces it. C18 has none: every mode is strict about everything it generates.
const AVOID_KNOWN: &[&str] = h_alloc::engine::AVOID_KNOWN;

fn wants_installed(args: &[String]) -> bool {
    let value_of = |name: &str| {
        args.iter().position(|a| a == name).and_then(|i| args.get(i + 1)).cloned()
    };
    match args.first().map(String::as_str) {
        Some("batch") => value_of("--mode").is_some_and(|m| m.starts_with("installed")),
        Some("replay" | "minimize") => {
            let text = if let Some(j) = value_of("--json") {
                Some(j)
            } else {
                #[cfg(not(miri))]
                {
                    value_of("--file").and_then(|f| std::fs::read_to_string(f).ok())
                }
                #[cfg(miri)]
                {
                    None
                }
            };
            text.and_then(|t| serde_json::from_str::<serde_json::Value>(&t).ok())
                .and_then(|v| v.get("mode").and_then(|m| m.as_str()).map(|m| m.starts_with("installed")))
                .unwrap_or(false)
        }
        _ => false,
    }
}

fn main() {
    let args: Vec<String> = std::env::args().skip(1).collect();
    if wants_installed(&args) {
        #[cfg(all(unix, not(miri)))]
        {
            use std::os::unix::process::CommandExt as _;
            let exe = std::env::current_exe().expect("current exe");
            let sibling = exe.with_file_name("h_alloc_installed");
            // In the installed binary every allocation of every thread of the process is observed, so no thread but
            // the driver and the simulated threads may exist: switch simkit's watchdog thread off (a stuck operation
            // is still reported by the mailbox's own 30 s bound, a stuck process by the driver's chunk timeout).
            let mut args = args;
            if args.first().map(String::as_str) == Some("batch") {
                if let Some(i) = args.iter().position(|a| a == "--timeout-s") {
                    args.drain(i..(i + 2).min(args.len()));
                }
                args.push("--timeout-s".to_owned());
                args.push("0".to_owned());
            }
            let err = std::process::Command::new(&sibling).args(&args).exec();
            eprintln!("h_alloc: cannot exec {}: {err}", sibling.display());
            std::process::exit(2);
        }
        #[cfg(not(all(unix, not(miri))))]
        {
            eprintln!("h_alloc: installed modes need the native h_alloc_installed binary");
            std::process::exit(2);
        }
    }
    debug_assert!(AVOID_KNOWN.is_empty());
    simkit::cli_main("h_alloc", h_alloc::entries())
}
