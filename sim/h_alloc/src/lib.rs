//! h_alloc — deterministic-simulation harness for property C18 (alloc_tracker: allocation tracking is exact and
//! transparent). See `engine.rs` for the oracles, `simalloc.rs` for the allocator seam, `conc.rs` for the
//! concurrent (Miri-oriented) configuration.

pub mod conc;
pub mod engine;
pub mod simalloc;
pub mod threads;

use simkit::{Entry, entry};

/// The `(property, mode)` table shared by both binaries.
#[must_use]
pub fn entries() -> Vec<Entry> {
    vec![
        entry::<engine::AllocScenario>("C18", "direct", "scripted calls on Allocator<SimAlloc>, spans/reports, 1-16 threads, no faults"),
        entry::<engine::AllocScenario>("C18", "direct-faulty", "as direct, inner allocator returns null on plan"),
        entry::<engine::AllocScenario>("C18", "tiny", "direct, small (Miri sample)"),
        entry::<engine::AllocScenario>("C18", "tiny-faulty", "direct-faulty, small (Miri sample)"),
        entry::<conc::ConcScenario>("C18", "conc", "threads run scripts concurrently; thread spans exact, process span at quiescent ends"),
        entry::<conc::ConcScenario>("C18", "conc-tiny", "conc, small (Miri: seeded preemption inside tracker code)"),
        entry::<engine::AllocScenario>("C18", "installed", "tracker installed as #[global_allocator]; ordinary Rust workloads (runs in h_alloc_installed)"),
        entry::<engine::AllocScenario>("C18", "installed-faulty", "installed, with null returns through try_reserve / raw alloc"),
    ]
}
