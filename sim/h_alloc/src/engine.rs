//! The operation-granular scenario of C18 (modes `direct`, `direct-faulty`, `tiny`, `tiny-faulty`, `installed`,
//! `installed-faulty`).
//!
//! What is being decided (property C18): with `tracker = alloc_tracker::Allocator<SimAlloc>`,
//!  (T) transparency — every `alloc` / `alloc_zeroed` / `realloc` / `dealloc` reaches the inner allocator exactly once
//!      with the identical layout / pointer / new size, and the tracker returns exactly what the inner allocator
//!      returned (null included);
//!  (A) accounting — a thread span closed at a quiescent point reports count = number of alloc / alloc_zeroed /
//!      realloc calls made by its thread between start and end and bytes = sum of their *requested* sizes (full new
//!      size for a realloc, nothing for dealloc, a call answered with null still counts: the property speaks of calls
//!      and requested sizes, not of successes); a process span reports the same over all threads (threads born or
//!      ended inside the span included); the tracker's own bootstrap allocations are in nobody's span;
//!  (R) reporting — per operation name, a session report's totals are the sums over the spans recorded under that
//!      name (through any `Operation` handle), and `Report::merge` adds reports per name.
//! The reference for (A) is SimAlloc's log, never the script: the log is what the inner allocator really saw.

use std::alloc::{GlobalAlloc, Layout};
use std::cell::RefCell;
use std::collections::{BTreeMap, BTreeSet};
use std::sync::Arc;
use std::sync::atomic::{AtomicBool, Ordering};

use alloc_tracker::{Allocator, Operation, ProcessSpan, Report, Session, ThreadSpan};
use serde::{Deserialize, Serialize};
use simkit::{Ctx, Rng, Scenario, Violation, check, mix};

use crate::simalloc::{
    self, Entry, K_ALLOC, K_DEALLOC, K_REALLOC, K_ZEROED, LOG, Req, Shim, SimAlloc, arm_fail, disarm_fail, set_tid,
};
use crate::threads::Threads;

/// Known defects whose triggers ordinary modes must not generate (none for C18 at the time of writing).
pub const AVOID_KNOWN: &[&str] = &[];

/// The tracker instance used by the direct flavour (not installed as the global allocator). The tracker keeps no
/// per-instance state — its counters are process-global (`thread_local!` pointer into a never-cleared global
/// registry) — so one static instance is equivalent to a fresh instance per run.
pub static DIRECT: Shim<Allocator<SimAlloc>> = Shim(Allocator::new(SimAlloc));

/// Set by the `h_alloc_installed` binary, whose `#[global_allocator]` is `Shim<Allocator<SimAlloc>>`.
pub static INSTALLED: AtomicBool = AtomicBool::new(false);

pub const MAX_THREADS: usize = 16;

/// Log label of the driver thread (simulated thread `i` is `i + 1`; 0 = a thread that has not reached harness code).
pub const MAIN_TID: u32 = 0x00FF_FFFE;

#[derive(Clone, Copy, Debug, Serialize, Deserialize, PartialEq, Eq)]
pub enum Workload {
    /// `Vec<u8>` / `Vec<u64>` / `Vec<[u64; 4]>` grown by `push` (amortised growth: alloc then reallocs).
    VecPush { elem: u8, n: u32 },
    /// `String::push_str` in a loop.
    StringPush { n: u32 },
    /// `vec![0u8; n].into_boxed_slice()` (the `alloc_zeroed` path) or `Box::new([1u8; 64])` when n == 0.
    Boxed { n: u32 },
    /// exact-size `collect()`.
    Collect { n: u32 },
    /// many small `format!` strings.
    Format { n: u32 },
    /// B-tree nodes.
    BTree { n: u32 },
    /// `Vec::with_capacity(cap)`, a few pushes, `shrink_to_fit` (a *shrinking* realloc).
    Shrink { cap: u32 },
    /// `Vec::try_reserve_exact(n)` on a vector that already owns memory; with `fail` the inner allocator answers null.
    TryReserve { n: u32 },
}

#[derive(Clone, Debug, Serialize, Deserialize, PartialEq, Eq)]
pub enum Op {
    Alloc { t: usize, size: usize, align_log2: u8, zeroed: bool, fail: bool },
    Realloc { t: usize, sel: usize, new_size: usize, fail: bool },
    Dealloc { t: usize, sel: usize },
    Work { t: usize, w: Workload, keep: bool, fail: bool },
    GrowKept { t: usize, sel: usize, n: u32 },
    DropKept { t: usize, sel: usize },
    OpenThread { t: usize, session: usize, name: usize, new_handle: bool },
    OpenProcess { t: usize, session: usize, name: usize, new_handle: bool },
    Close { sel: usize, iterations: u64, t: usize },
    Report { session: usize },
    MergeAll,
    Spawn,
    Exit { t: usize },
}

#[derive(Clone, Debug, Serialize, Deserialize)]
pub struct AllocScenario {
    pub installed: bool,
    pub faulty: bool,
    pub threads: usize,
    pub sessions: usize,
    pub names: usize,
    pub ops: Vec<Op>,
    /// Allocations every simulated thread makes from a thread-local destructor while it exits (0 = none; absent in
    /// replay files written before this existed).
    #[serde(default)]
    pub teardown: u32,
}

// ------------------------------------------------------------------------------------------------
// Generation
// ------------------------------------------------------------------------------------------------

struct GenCfg {
    installed: bool,
    faulty: bool,
    tiny: bool,
}

fn gen_size(rng: &mut Rng, cfg: &GenCfg) -> usize {
    if cfg.tiny {
        return match rng.weighted(&[1, 10, 6]) {
            0 if !cfg.installed => 0,
            0 | 1 => rng.range_usize(1, 32),
            _ => rng.range_usize(33, 600),
        };
    }
    match rng.weighted(&[if cfg.installed { 0 } else { 2 }, 30, 20, 10, 3]) {
        0 => 0,
        1 => rng.range_usize(1, 64),
        2 => rng.range_usize(65, 4096),
        3 => rng.range_usize(4097, 128 * 1024),
        _ => rng.range_usize(128 * 1024 + 1, 1024 * 1024),
    }
}

fn gen_iterations(rng: &mut Rng) -> u64 {
    match rng.weighted(&[1, 8, 3, 2, 1]) {
        0 => 0,
        1 => 1,
        2 => rng.range(2, 10),
        3 => rng.range(11, 1000),
        _ => rng.range(1001, 1_000_000),
    }
}

fn gen_workload(rng: &mut Rng) -> Workload {
    match rng.weighted(&[6, 3, 3, 2, 2, 2, 2, 2]) {
        0 => Workload::VecPush {
            elem: *rng.pick(&[1_u8, 8, 32]),
            n: match rng.weighted(&[1, 6, 2]) {
                0 => 0,
                1 => rng.range(1, 200) as u32,
                _ => rng.range(201, 5000) as u32,
            },
        },
        1 => Workload::StringPush { n: rng.range(0, 300) as u32 },
        2 => Workload::Boxed {
            n: *rng.pick(&[0_u32, 1, 8, 64, 4096, 65_536, 1_048_576]),
        },
        3 => Workload::Collect { n: rng.range(0, 500) as u32 },
        4 => Workload::Format { n: rng.range(1, 40) as u32 },
        5 => Workload::BTree { n: rng.range(1, 200) as u32 },
        6 => Workload::Shrink { cap: rng.range(8, 4000) as u32 },
        _ => Workload::TryReserve { n: rng.range(1, 100_000) as u32 },
    }
}

impl AllocScenario {
    fn generate_with(rng: &mut Rng, cfg: &GenCfg) -> Self {
        let threads = if cfg.tiny {
            rng.range_usize(1, 3)
        } else if cfg.installed {
            rng.range_usize(1, 6)
        } else {
            match rng.weighted(&[3, 4, 2]) {
                0 => 1,
                1 => rng.range_usize(2, 5),
                _ => rng.range_usize(6, MAX_THREADS),
            }
        };
        let sessions = rng.range_usize(1, 3);
        let names = rng.range_usize(1, 4);
        let n_ops = if cfg.tiny {
            rng.range_usize(3, 14)
        } else if cfg.installed {
            rng.range_usize(5, 60)
        } else {
            rng.range_usize(5, 120)
        };
        // Operation mix re-drawn per run (swarm): some runs are span-heavy, some allocation-heavy.
        let w_alloc = rng.range(8, 40) as u32;
        let w_realloc = rng.range(2, 20) as u32;
        let w_dealloc = rng.range(2, 16) as u32;
        let w_work = if cfg.installed { rng.range(10, 40) as u32 } else { 0 };
        let w_kept = if cfg.installed { rng.range(2, 10) as u32 } else { 0 };
        let w_open_t = rng.range(3, 14) as u32;
        let w_open_p = rng.range(2, 10) as u32;
        let w_close = rng.range(4, 18) as u32;
        let w_report = rng.range(0, 4) as u32;
        let w_merge = rng.range(0, 2) as u32;
        let w_spawn = rng.range(0, 3) as u32;
        let w_exit = rng.range(0, 3) as u32;
        let weights = [
            w_alloc, w_realloc, w_dealloc, w_work, w_kept, w_kept, w_open_t, w_open_p, w_close, w_report, w_merge,
            w_spawn, w_exit,
        ];
        // Tiny histories (Miri) have few operations: spend them on what the property is about.
        let weights = if cfg.tiny {
            [12, 10, 3, 0, 0, 0, 6, 8, 10, 1, 1, 1, 1]
        } else {
            weights
        };
        let fail_rate = if cfg.faulty { rng.range(1, 4) } else { 0 }; // out of 8
        let mut ops = Vec::with_capacity(n_ops);
        for _ in 0..n_ops {
            let t = rng.below_usize(MAX_THREADS);
            let fail = cfg.faulty && rng.chance(fail_rate, 8);
            let op = match rng.weighted(&weights) {
                0 => Op::Alloc {
                    t,
                    size: gen_size(rng, cfg),
                    align_log2: match rng.weighted(&[5, 3, 1]) {
                        0 => rng.range(0, 4) as u8,
                        1 => rng.range(5, 9) as u8,
                        _ => rng.range(10, 12) as u8,
                    },
                    zeroed: rng.chance(1, 3),
                    fail,
                },
                1 => Op::Realloc {
                    t,
                    sel: rng.below_usize(64),
                    new_size: gen_size(rng, cfg),
                    fail,
                },
                2 => Op::Dealloc { t, sel: rng.below_usize(64) },
                3 => Op::Work {
                    t,
                    w: gen_workload(rng),
                    keep: rng.chance(1, 3),
                    fail,
                },
                4 => Op::GrowKept {
                    t,
                    sel: rng.below_usize(64),
                    n: rng.range(1, 3000) as u32,
                },
                5 => Op::DropKept { t, sel: rng.below_usize(64) },
                6 => Op::OpenThread {
                    t,
                    session: rng.below_usize(3),
                    name: rng.below_usize(4),
                    new_handle: rng.chance(1, 3),
                },
                7 => Op::OpenProcess {
                    t,
                    session: rng.below_usize(3),
                    name: rng.below_usize(4),
                    new_handle: rng.chance(1, 3),
                },
                8 => Op::Close {
                    sel: rng.below_usize(64),
                    iterations: gen_iterations(rng),
                    t,
                },
                9 => Op::Report { session: rng.below_usize(3) },
                10 => Op::MergeAll,
                11 => Op::Spawn,
                _ => Op::Exit { t },
            };
            ops.push(op);
        }
        // Drawn last, so that everything above is what it was before this existed.
        let teardown = match rng.weighted(&[1, 3]) {
            0 => 0,
            _ => rng.range(1, 3) as u32,
        };
        Self {
            installed: cfg.installed,
            faulty: cfg.faulty,
            threads,
            sessions,
            names,
            ops,
            teardown,
        }
    }
}

// ------------------------------------------------------------------------------------------------
// Execution state
// ------------------------------------------------------------------------------------------------

#[derive(Clone, Copy)]
struct SendPtr(*mut u8);
// SAFETY: a raw heap pointer; the blocks it names are only touched by one simulated thread at a time.
unsafe impl Send for SendPtr {}

#[derive(Clone, Copy)]
struct Block {
    id: u64,
    ptr: SendPtr,
    size: usize,
    align: usize,
    owner: usize,
}

enum Kept {
    Bytes(Vec<u8>),
    Words(Vec<u64>),
    Wide(Vec<[u64; 4]>),
    Str(String),
    Boxed(#[allow(dead_code)] Box<[u8]>),
    Strs(Vec<String>),
    Map(BTreeMap<u64, u64>),
}

#[derive(Clone, Copy, PartialEq, Eq, Debug)]
enum SpanKind {
    Thread,
    Process,
}

struct OpenSpan {
    id: u64,
    kind: SpanKind,
    session: usize,
    name: usize,
    thread: usize,
    start: usize,
    threads_at_open: usize,
    saw_exit: bool,
    pspan: Option<ProcessSpan>,
}

#[derive(Default, Clone, Debug)]
struct OpModel {
    bytes: u64,
    count: u64,
    iters: u64,
    spans: u64,
    s_nn: f64,
    s_nb: f64,
    s_nc: f64,
}

impl OpModel {
    fn add(&mut self, iterations: u64, bytes: u64, count: u64) {
        self.bytes += bytes;
        self.count += count;
        self.iters += iterations;
        self.spans += 1;
        let n = iterations as f64;
        self.s_nn += n * n;
        self.s_nb += n * bytes as f64;
        self.s_nc += n * count as f64;
    }

    fn merge(&mut self, o: &Self) {
        self.bytes += o.bytes;
        self.count += o.count;
        self.iters += o.iters;
        self.spans += o.spans;
        self.s_nn += o.s_nn;
        self.s_nb += o.s_nb;
        self.s_nc += o.s_nc;
    }
}

thread_local! {
    /// `ThreadSpan` is `!Send`: open thread spans live on their simulated thread.
    static TSPANS: RefCell<Vec<(u64, ThreadSpan)>> = const { RefCell::new(Vec::new()) };
}

fn pattern(id: u64, j: usize) -> u8 {
    (id.wrapping_mul(31).wrapping_add(j as u64 * 7).wrapping_add(13) & 0xFF) as u8
}

const PAT: usize = 48;

/// Writes the canary pattern (prefix + last byte).
///
/// # Safety
/// `p` must be valid for writes of `size` bytes.
unsafe fn write_pattern(p: *mut u8, size: usize, id: u64) {
    for j in 0..size.min(PAT) {
        // SAFETY: j < size.
        unsafe { p.add(j).write(pattern(id, j)) };
    }
    if size > PAT {
        // SAFETY: size - 1 < size.
        unsafe { p.add(size - 1).write(pattern(id, size - 1)) };
    }
}

/// Checks the canary pattern over the first `upto` bytes (and the last byte when `with_last`).
///
/// # Safety
/// `p` must be valid for reads of `size` bytes.
unsafe fn check_pattern(p: *const u8, size: usize, id: u64, upto: usize, with_last: bool) -> bool {
    for j in 0..size.min(PAT).min(upto) {
        // SAFETY: j < size.
        if unsafe { p.add(j).read() } != pattern(id, j) {
            return false;
        }
    }
    if with_last && size > PAT {
        // SAFETY: size - 1 < size.
        if unsafe { p.add(size - 1).read() } != pattern(id, size - 1) {
            return false;
        }
    }
    true
}

struct RawOut {
    ptr: SendPtr,
    before: usize,
    after: usize,
    still_armed: bool,
    content_ok: bool,
}

struct Window {
    bytes: u64,
    count: u64,
    tids: BTreeSet<u32>,
    reallocs: u64,
    faulted: u64,
    bootstrap: u64,
    zero_sized: u64,
}

/// Sums the log window `[start, end)`: every program-level (depth ≤ 1) alloc / alloc_zeroed / realloc entry, of one
/// thread (`Some(tid)`) or of all threads (`None`).
fn window(start: usize, end: usize, tid: Option<u32>) -> Window {
    let mut w = Window {
        bytes: 0,
        count: 0,
        tids: BTreeSet::new(),
        reallocs: 0,
        faulted: 0,
        bootstrap: 0,
        zero_sized: 0,
    };
    for i in start..end {
        let Some(e) = LOG.get(i) else {
            panic!("harness: log entry {i} unreadable at a quiescent point");
        };
        if tid.is_some_and(|t| t != e.tid) {
            continue;
        }
        if e.depth >= 2 {
            w.bootstrap += 1;
            continue;
        }
        if !e.is_counted_kind() {
            continue;
        }
        w.count += 1;
        w.bytes += e.counted_bytes();
        w.tids.insert(e.tid);
        if e.req.kind == K_REALLOC {
            w.reallocs += 1;
        }
        if e.faulted {
            w.faulted += 1;
        }
        if e.counted_bytes() == 0 {
            w.zero_sized += 1;
        }
    }
    w
}

struct World<'a> {
    sc: &'a AllocScenario,
    threads: Threads,
    alive: Vec<bool>,
    sessions: Vec<Arc<Session>>,
    handles: Vec<BTreeMap<usize, Vec<Arc<Operation>>>>,
    model: Vec<BTreeMap<usize, OpModel>>,
    spans: Vec<OpenSpan>,
    blocks: Vec<Block>,
    kept: Vec<Kept>,
    next_id: u64,
    nontrivial: bool,
    bootstrap_total: u64,
    spawned_total: usize,
    /// Log windows of thread start-up: the only places where entries of a not-yet-labelled thread may appear.
    spawn_windows: Vec<(usize, usize)>,
}

/// Operation-granular runs have exactly one runnable thread at any instant, so all their threads may share one CPU;
/// that turns every hand-over into a plain context switch instead of a cross-CPU wake-up (an order of magnitude
/// cheaper on virtualised hosts). Purely a throughput measure: nothing observable depends on it.
fn pin_to_one_cpu() {
    #[cfg(all(target_os = "linux", not(miri)))]
    {
        static ONCE: std::sync::Once = std::sync::Once::new();
        ONCE.call_once(|| {
            // SAFETY: plain libc calls on a zero-initialised cpu_set_t owned by this frame.
            unsafe {
                let mut set: libc::cpu_set_t = std::mem::zeroed();
                if libc::sched_getaffinity(0, size_of::<libc::cpu_set_t>(), &raw mut set) != 0 {
                    return;
                }
                let allowed: Vec<usize> = (0..libc::CPU_SETSIZE as usize).filter(|c| libc::CPU_ISSET(*c, &set)).collect();
                if allowed.len() < 2 {
                    return;
                }
                // Stay where the scheduler put this process (it starts processes on a lightly loaded CPU).
                let here = libc::sched_getcpu();
                let cpu = if here >= 0 && allowed.contains(&(here as usize)) {
                    here as usize
                } else {
                    allowed[std::process::id() as usize % allowed.len()]
                };
                let mut one: libc::cpu_set_t = std::mem::zeroed();
                libc::CPU_SET(cpu, &mut one);
                let _ = libc::sched_setaffinity(0, size_of::<libc::cpu_set_t>(), &raw const one);
            }
        });
    }
}

fn opn(i: usize) -> String {
    if i == usize::MAX { "end of run".to_owned() } else { format!("op {i}") }
}

fn name_str(n: usize) -> String {
    format!("op{n}")
}

fn approx(a: f64, b: f64) -> bool {
    (a - b).abs() <= 1e-9 * a.abs().max(b.abs()).max(1.0)
}

impl World<'_> {
    fn pick_thread(&self, t: usize) -> Option<usize> {
        let alive: Vec<usize> = (0..self.alive.len()).filter(|i| self.alive[*i]).collect();
        if alive.is_empty() {
            None
        } else {
            Some(alive[t % alive.len()])
        }
    }

    fn handle(&mut self, session: usize, name: usize, new_handle: bool, ctx: &mut Ctx) -> Arc<Operation> {
        let list = self.handles[session].entry(name).or_default();
        if new_handle || list.is_empty() {
            if !list.is_empty() {
                ctx.probe("second-handle-same-name");
            }
            let h = Arc::new(self.sessions[session].operation(name_str(name)));
            list.push(Arc::clone(&h));
            self.model[session].entry(name).or_default();
            h
        } else {
            Arc::clone(&list[list.len() - 1])
        }
    }

    /// Polls the transparency oracle and the log's health. Called after every operation.
    fn poll(&self, what: &str) -> Result<(), Violation> {
        assert!(!LOG.overflowed(), "harness: SimAlloc log overflowed");
        if let Some(m) = simalloc::take_mismatch() {
            return Err(Violation::new(m.class(), format!("during {what}: {}", m.describe())));
        }
        Ok(())
    }

    /// Exactly one program-level entry must have appeared in `[before, after)`; returns it.
    fn sole_entry(&mut self, before: usize, after: usize, what: &str) -> Result<Entry, Violation> {
        let mut found: Option<Entry> = None;
        let mut n = 0;
        for i in before..after {
            let e = LOG.get(i).expect("readable at a quiescent point");
            if e.depth >= 2 {
                self.bootstrap_total += 1;
                continue;
            }
            n += 1;
            found = Some(e);
        }
        check!(
            n == 1,
            if n == 0 { "call-not-forwarded" } else { "extra-inner-calls" },
            "{what}: the inner allocator saw {n} program-level requests for one call"
        );
        Ok(found.expect("n == 1"))
    }

    fn check_entry(e: &Entry, want: Req, ret: usize, tid: u32, faulted: bool, what: &str) -> Result<(), Violation> {
        check!(
            e.req.kind == want.kind,
            "forward-kind-mismatch",
            "{what}: issued {}, inner allocator logged {}",
            want.describe(),
            e.req.describe()
        );
        check!(
            e.req.size == want.size && e.req.align == want.align,
            "forward-layout-mismatch",
            "{what}: issued {}, inner allocator logged {}",
            want.describe(),
            e.req.describe()
        );
        check!(
            e.req.ptr_in == want.ptr_in,
            "forward-pointer-mismatch",
            "{what}: the pointer given to the inner allocator is not the one the program passed"
        );
        check!(
            e.req.new_size == want.new_size,
            "forward-new-size-mismatch",
            "{what}: issued {}, inner allocator logged {}",
            want.describe(),
            e.req.describe()
        );
        check!(
            e.ret == ret,
            "return-value-changed",
            "{what}: inner allocator returned null={}, tracker returned null={} (addresses differ)",
            e.ret == 0,
            ret == 0
        );
        check!(e.tid == tid, "harness-tid", "{what}: entry tid {} expected {tid}", e.tid);
        check!(
            e.faulted == faulted,
            "harness-fault-plan",
            "{what}: fault armed={faulted} but entry faulted={}",
            e.faulted
        );
        Ok(())
    }

    fn op_alloc(
        &mut self,
        ctx: &mut Ctx,
        i: usize,
        t: usize,
        size: usize,
        align_log2: u8,
        zeroed: bool,
        fail: bool,
    ) -> Result<(), Violation> {
        let Some(th) = self.pick_thread(t) else { return Ok(()) };
        let installed = self.sc.installed;
        let size = if installed { size.max(1) } else { size };
        let align = 1_usize << align_log2.min(12);
        let layout = Layout::from_size_align(size, align).expect("valid layout");
        let id = self.next_id;
        self.next_id += 1;
        let out = self.threads.exec(th, move || {
            set_tid(th as u32 + 1);
            if fail {
                arm_fail();
            }
            let before = LOG.len();
            // SAFETY: direct flavour: SimAlloc defines zero-size requests; installed flavour: size >= 1.
            let p = unsafe {
                match (installed, zeroed) {
                    (false, false) => DIRECT.alloc(layout),
                    (false, true) => DIRECT.alloc_zeroed(layout),
                    (true, false) => std::alloc::alloc(layout),
                    (true, true) => std::alloc::alloc_zeroed(layout),
                }
            };
            let after = LOG.len();
            let still_armed = disarm_fail();
            let mut content_ok = true;
            if !p.is_null() && size > 0 {
                if zeroed {
                    // SAFETY: p is valid for `size` bytes.
                    content_ok = unsafe { std::slice::from_raw_parts(p, size) }.iter().all(|b| *b == 0);
                }
                // SAFETY: p is valid for `size` bytes.
                unsafe { write_pattern(p, size, id) };
            }
            RawOut {
                ptr: SendPtr(p),
                before,
                after,
                still_armed,
                content_ok,
            }
        })?;
        let what = format!(
            "op {i}: {}(size={size}, align={align}) on thread {th}",
            if zeroed { "alloc_zeroed" } else { "alloc" }
        );
        let p = out.ptr.0;
        ctx.event(
            mix(mix(1 + u64::from(zeroed), size as u64), mix(align as u64, mix(th as u64, u64::from(p.is_null())))),
            || format!("{what} -> {}", if p.is_null() { "null" } else { "ok" }),
        );
        self.poll(&what)?;
        check!(!out.still_armed, "harness-fault-plan", "{what}: armed fault did not fire");
        let e = self.sole_entry(out.before, out.after, &what)?;
        Self::check_entry(
            &e,
            Req {
                kind: if zeroed { K_ZEROED } else { K_ALLOC },
                size,
                align,
                ptr_in: 0,
                new_size: 0,
            },
            p as usize,
            th as u32 + 1,
            fail,
            &what,
        )?;
        check!(
            p.is_null() == fail,
            "null-mismatch",
            "{what}: fault={fail} but tracker returned null={}",
            p.is_null()
        );
        if fail {
            ctx.fault("alloc_returns_null");
            return Ok(());
        }
        check!(p as usize % align == 0, "misaligned", "{what}: result not aligned");
        check!(out.content_ok, "not-zeroed", "{what}: alloc_zeroed memory is not zero");
        if size == 0 {
            ctx.probe("zero-size-request");
        }
        if size >= 64 * 1024 {
            ctx.probe("large-request(>=64KiB)");
        }
        if align >= 1024 {
            ctx.probe("large-alignment(>=1024)");
        }
        self.blocks.push(Block {
            id,
            ptr: SendPtr(p),
            size,
            align,
            owner: th,
        });
        Ok(())
    }

    fn op_realloc(
        &mut self,
        ctx: &mut Ctx,
        i: usize,
        t: usize,
        sel: usize,
        new_size: usize,
        fail: bool,
    ) -> Result<(), Violation> {
        let Some(th) = self.pick_thread(t) else { return Ok(()) };
        if self.blocks.is_empty() {
            return Ok(());
        }
        let installed = self.sc.installed;
        let bi = sel % self.blocks.len();
        let b = self.blocks[bi];
        let new_size = if installed { new_size.max(1) } else { new_size };
        let layout = Layout::from_size_align(b.size, b.align).expect("valid layout");
        let out = self.threads.exec(th, move || {
            set_tid(th as u32 + 1);
            let p0 = b.ptr;
            // SAFETY: the block is live with `b.size` bytes.
            let pre_ok = b.size == 0 || unsafe { check_pattern(p0.0, b.size, b.id, usize::MAX, true) };
            if fail {
                arm_fail();
            }
            let before = LOG.len();
            // SAFETY: p0 is a live block of `layout` from this allocator.
            let p = unsafe {
                if installed {
                    std::alloc::realloc(p0.0, layout, new_size)
                } else {
                    DIRECT.realloc(p0.0, layout, new_size)
                }
            };
            let after = LOG.len();
            let still_armed = disarm_fail();
            let mut content_ok = pre_ok;
            if p.is_null() {
                // The old block must be untouched.
                // SAFETY: still live.
                content_ok &= b.size == 0 || unsafe { check_pattern(p0.0, b.size, b.id, usize::MAX, true) };
            } else if new_size > 0 {
                // SAFETY: p is valid for new_size bytes.
                content_ok &= b.size == 0 || unsafe { check_pattern(p, new_size, b.id, b.size.min(new_size), false) };
                // SAFETY: p is valid for new_size bytes.
                unsafe { write_pattern(p, new_size, b.id) };
            }
            RawOut {
                ptr: SendPtr(p),
                before,
                after,
                still_armed,
                content_ok,
            }
        })?;
        let what = format!(
            "op {i}: realloc(block {} size={} align={} -> new_size={new_size}) on thread {th}",
            b.id, b.size, b.align
        );
        let p = out.ptr.0;
        ctx.event(
            mix(mix(3, b.id), mix(new_size as u64, mix(th as u64, u64::from(p.is_null())))),
            || format!("{what} -> {}", if p.is_null() { "null" } else { "ok" }),
        );
        self.poll(&what)?;
        check!(!out.still_armed, "harness-fault-plan", "{what}: armed fault did not fire");
        let e = self.sole_entry(out.before, out.after, &what)?;
        Self::check_entry(
            &e,
            Req {
                kind: K_REALLOC,
                size: b.size,
                align: b.align,
                ptr_in: b.ptr.0 as usize,
                new_size,
            },
            p as usize,
            th as u32 + 1,
            fail,
            &what,
        )?;
        check!(
            p.is_null() == fail,
            "null-mismatch",
            "{what}: fault={fail} but tracker returned null={}",
            p.is_null()
        );
        check!(out.content_ok, "content-lost", "{what}: block contents not preserved");
        if th != b.owner {
            ctx.probe("cross-thread-realloc");
        }
        if new_size < b.size {
            ctx.probe("shrinking-realloc");
        }
        if fail {
            ctx.fault("alloc_returns_null");
            ctx.probe("realloc-returned-null");
            return Ok(());
        }
        check!(p as usize % b.align == 0, "misaligned", "{what}: result not aligned");
        let nb = &mut self.blocks[bi];
        nb.ptr = SendPtr(p);
        nb.size = new_size;
        nb.owner = th;
        Ok(())
    }

    fn op_dealloc(&mut self, ctx: &mut Ctx, i: usize, t: usize, sel: usize) -> Result<(), Violation> {
        let Some(th) = self.pick_thread(t) else { return Ok(()) };
        if self.blocks.is_empty() {
            return Ok(());
        }
        let installed = self.sc.installed;
        let bi = sel % self.blocks.len();
        let b = self.blocks.remove(bi);
        let layout = Layout::from_size_align(b.size, b.align).expect("valid layout");
        let out = self.threads.exec(th, move || {
            set_tid(th as u32 + 1);
            // SAFETY: the block is live with `b.size` bytes.
            let content_ok = b.size == 0 || unsafe { check_pattern(b.ptr.0, b.size, b.id, usize::MAX, true) };
            let before = LOG.len();
            // SAFETY: a live block of `layout` from this allocator.
            unsafe {
                if installed {
                    std::alloc::dealloc(b.ptr.0, layout);
                } else {
                    DIRECT.dealloc(b.ptr.0, layout);
                }
            }
            let after = LOG.len();
            RawOut {
                ptr: b.ptr,
                before,
                after,
                still_armed: false,
                content_ok,
            }
        })?;
        let what = format!(
            "{}: dealloc(block {} size={} align={}) on thread {th}",
            opn(i), b.id, b.size, b.align
        );
        ctx.event(mix(mix(4, b.id), th as u64), || what.clone());
        self.poll(&what)?;
        let e = self.sole_entry(out.before, out.after, &what)?;
        Self::check_entry(
            &e,
            Req {
                kind: K_DEALLOC,
                size: b.size,
                align: b.align,
                ptr_in: b.ptr.0 as usize,
                new_size: 0,
            },
            0,
            th as u32 + 1,
            false,
            &what,
        )?;
        check!(out.content_ok, "content-lost", "{what}: block contents damaged before release");
        if th != b.owner {
            ctx.probe("cross-thread-dealloc");
        }
        Ok(())
    }

    fn op_work(
        &mut self,
        ctx: &mut Ctx,
        i: usize,
        t: usize,
        w: Workload,
        keep: bool,
        fail: bool,
    ) -> Result<(), Violation> {
        let Some(th) = self.pick_thread(t) else { return Ok(()) };
        let (kept, before, after, ok, fired) = self.threads.exec(th, move || {
            set_tid(th as u32 + 1);
            let before = LOG.len();
            let (kept, ok, fired) = run_workload(w, fail);
            let after = LOG.len();
            let kept = if keep {
                kept
            } else {
                drop(kept);
                None
            };
            (kept, before, after, ok, fired)
        })?;
        let what = format!("op {i}: workload {w:?} on thread {th}");
        let win = window(before, after, Some(th as u32 + 1));
        ctx.event(mix(mix(5, win.count), mix(win.bytes, mix(th as u64, u64::from(fired)))), || {
            format!("{what} -> {} calls, {} bytes{}", win.count, win.bytes, if fired { ", null injected" } else { "" })
        });
        self.poll(&what)?;
        check!(ok, "workload-broken", "{what}: the workload observed wrong contents or a wrong result");
        if fired {
            ctx.fault("alloc_returns_null");
            check!(win.faulted >= 1, "harness-fault-plan", "{what}: fault fired but no faulted entry in the log");
        }
        if win.reallocs > 0 {
            ctx.probe("workload-realloc");
        }
        if let Some(k) = kept {
            self.kept.push(k);
        }
        Ok(())
    }

    fn op_grow_kept(&mut self, ctx: &mut Ctx, i: usize, t: usize, sel: usize, n: u32) -> Result<(), Violation> {
        let Some(th) = self.pick_thread(t) else { return Ok(()) };
        if self.kept.is_empty() {
            return Ok(());
        }
        let ki = sel % self.kept.len();
        let k = self.kept.swap_remove(ki);
        let (k, before, after) = self.threads.exec(th, move || {
            set_tid(th as u32 + 1);
            let before = LOG.len();
            let mut k = k;
            match &mut k {
                Kept::Bytes(v) => v.extend(std::iter::repeat_n(7_u8, n as usize)),
                Kept::Words(v) => v.extend(std::iter::repeat_n(7_u64, n as usize)),
                Kept::Wide(v) => v.extend(std::iter::repeat_n([7_u64; 4], n as usize / 8)),
                Kept::Str(s) => {
                    for _ in 0..n / 4 {
                        s.push_str("grow");
                    }
                }
                Kept::Strs(v) => v.push("x".repeat(n as usize)),
                Kept::Map(m) => {
                    for x in 0..u64::from(n / 16) {
                        m.insert(1_000_000 + x, x);
                    }
                }
                Kept::Boxed(_) => {}
            }
            let after = LOG.len();
            (k, before, after)
        })?;
        let what = format!("op {i}: grow kept object by {n} on thread {th}");
        let win = window(before, after, Some(th as u32 + 1));
        ctx.event(mix(mix(6, win.count), mix(win.bytes, th as u64)), || {
            format!("{what} -> {} calls, {} bytes", win.count, win.bytes)
        });
        self.poll(&what)?;
        if win.reallocs > 0 {
            ctx.probe("kept-object-realloc-on-other-op");
        }
        self.kept.push(k);
        Ok(())
    }

    fn op_drop_kept(&mut self, ctx: &mut Ctx, i: usize, t: usize, sel: usize) -> Result<(), Violation> {
        let Some(th) = self.pick_thread(t) else { return Ok(()) };
        if self.kept.is_empty() {
            return Ok(());
        }
        let ki = sel % self.kept.len();
        let k = self.kept.swap_remove(ki);
        self.threads.exec(th, move || {
            set_tid(th as u32 + 1);
            drop(k);
        })?;
        let what = format!("{}: drop kept object on thread {th}", opn(i));
        ctx.event(mix(7, th as u64), || what.clone());
        self.poll(&what)
    }

    fn op_open(
        &mut self,
        ctx: &mut Ctx,
        i: usize,
        kind: SpanKind,
        t: usize,
        session: usize,
        name: usize,
        new_handle: bool,
    ) -> Result<(), Violation> {
        let Some(th) = self.pick_thread(t) else { return Ok(()) };
        let session = session % self.sessions.len();
        let name = name % self.sc.names.max(1);
        let h = self.handle(session, name, new_handle, ctx);
        let id = self.next_id;
        self.next_id += 1;
        let direct_len = LOG.len();
        let (start, pspan) = match kind {
            SpanKind::Thread => {
                let start = self.threads.exec(th, move || {
                    set_tid(th as u32 + 1);
                    let start = LOG.len();
                    let span = h.measure_thread();
                    TSPANS.with(|s| s.borrow_mut().push((id, span)));
                    start
                })?;
                (start, None)
            }
            SpanKind::Process => {
                let (start, span) = self.threads.exec(th, move || {
                    set_tid(th as u32 + 1);
                    let start = LOG.len();
                    let span = h.measure_process();
                    (start, span)
                })?;
                (start, Some(span))
            }
        };
        let what = format!("op {i}: open {kind:?} span {id} (session {session}, {}) on thread {th}", name_str(name));
        ctx.event(mix(mix(8 + kind as u64, id), mix(th as u64, mix(session as u64, name as u64))), || what.clone());
        self.poll(&what)?;
        if !self.sc.installed {
            check!(
                LOG.len() == direct_len,
                "unsolicited-inner-call",
                "{what}: the inner allocator was called while opening a span"
            );
        }
        if self.spans.iter().any(|s| s.kind == SpanKind::Thread && s.thread == th) && kind == SpanKind::Thread {
            ctx.probe("nested-thread-spans");
        }
        if self.spans.iter().any(|s| s.kind == SpanKind::Process) && kind == SpanKind::Process {
            ctx.probe("overlapping-process-spans");
        }
        self.spans.push(OpenSpan {
            id,
            kind,
            session,
            name,
            thread: th,
            start,
            threads_at_open: self.threads.len(),
            saw_exit: false,
            pspan,
        });
        Ok(())
    }

    fn close_span(
        &mut self,
        ctx: &mut Ctx,
        what_prefix: &str,
        si: usize,
        iterations: u64,
        t: usize,
    ) -> Result<(), Violation> {
        let mut span = self.spans.remove(si);
        let id = span.id;
        let (th, end) = match span.kind {
            SpanKind::Thread => {
                let th = span.thread;
                let end = self.threads.exec(th, move || {
                    set_tid(th as u32 + 1);
                    let span = TSPANS.with(|s| {
                        let mut s = s.borrow_mut();
                        let pos = s.iter().position(|(sid, _)| *sid == id).expect("span stored on its thread");
                        s.remove(pos).1
                    });
                    drop(span.iterations(iterations));
                    LOG.len()
                })?;
                (th, end)
            }
            SpanKind::Process => {
                let th = self.pick_thread(t).expect("at least one thread alive");
                let ps = span.pspan.take().expect("process span present");
                let end = self.threads.exec(th, move || {
                    set_tid(th as u32 + 1);
                    drop(ps.iterations(iterations));
                    LOG.len()
                })?;
                (th, end)
            }
        };
        let tid = match span.kind {
            SpanKind::Thread => Some(span.thread as u32 + 1),
            SpanKind::Process => None,
        };
        let win = window(span.start, end, tid);
        let what = format!(
            "{what_prefix}: close {:?} span {id} (session {}, {}, iterations {iterations}) on thread {th}; log window [{}, {end}) holds {} counted calls / {} bytes",
            span.kind,
            span.session,
            name_str(span.name),
            span.start,
            win.count,
            win.bytes
        );
        self.poll(&what)?;

        // What did the span report? Only operation totals are observable: difference them.
        let report = self.sessions[span.session].to_report();
        let before = self.model[span.session].get(&span.name).cloned().unwrap_or_default();
        let name = name_str(span.name);
        let Some((_, rop)) = report.operations().find(|(n, _)| *n == name) else {
            return Err(Violation::new("report-names-wrong", format!("{what}: operation {name} missing from the report")));
        };
        let got_bytes = i128::from(rop.total_bytes_allocated()) - i128::from(before.bytes);
        let got_count = i128::from(rop.total_allocations_count()) - i128::from(before.count);
        let installed = self.sc.installed;
        ctx.event(
            mix(
                mix(10, id),
                if installed {
                    // Main-thread and std-internal allocations are part of honest windows in the installed flavour;
                    // they are exact per run but kept out of the trace so that it covers scripted behaviour only.
                    mix(iterations, th as u64)
                } else {
                    mix(mix(win.bytes, win.count), mix(iterations, th as u64))
                },
            ),
            || format!("{what} -> reported {got_count} calls / {got_bytes} bytes"),
        );
        let (c_class, b_class) = match span.kind {
            SpanKind::Thread => ("thread-span-count-wrong", "thread-span-bytes-wrong"),
            SpanKind::Process => ("process-span-count-wrong", "process-span-bytes-wrong"),
        };
        check!(
            got_count == i128::from(win.count),
            c_class,
            "{what}, but the span reported {got_count} calls ({got_bytes} bytes)"
        );
        check!(
            got_bytes == i128::from(win.bytes),
            b_class,
            "{what}, but the span reported {got_bytes} bytes ({got_count} calls)"
        );
        self.model[span.session]
            .entry(span.name)
            .or_default()
            .add(iterations, win.bytes, win.count);
        self.check_session(span.session, &report, &what)?;

        // Coverage bookkeeping.
        if win.reallocs > 0 {
            ctx.probe("realloc-inside-span");
            self.nontrivial = true;
        }
        if win.faulted > 0 {
            ctx.probe("null-return-inside-span");
        }
        if win.zero_sized > 0 {
            ctx.probe("zero-size-inside-span");
        }
        if win.count == 0 {
            ctx.probe("span-without-allocations");
        }
        if iterations == 0 {
            ctx.probe("iterations-0");
        }
        match span.kind {
            SpanKind::Process => {
                if win.tids.iter().filter(|t| (1..=MAX_THREADS as u32).contains(*t)).count() >= 2 {
                    ctx.probe("process-span-2+-threads-allocated");
                    self.nontrivial = true;
                }
                if win.bootstrap > 0 {
                    ctx.probe("tracker-bootstrap-inside-process-span");
                }
                if span.saw_exit {
                    ctx.probe("process-span-over-thread-exit");
                }
                if win.tids.iter().any(|t| *t as usize > span.threads_at_open && *t != MAIN_TID) {
                    ctx.probe("process-span-counts-thread-born-inside");
                }
                if th != span.thread {
                    ctx.probe("process-span-closed-on-other-thread");
                }
            }
            SpanKind::Thread => {
                let all = window(span.start, end, None);
                if all.count > win.count {
                    ctx.probe("thread-span-excludes-other-threads");
                }
            }
        }
        Ok(())
    }

    fn check_session(&self, s: usize, report: &Report, what: &str) -> Result<(), Violation> {
        let model = &self.model[s];
        check_report(report, model, what, "report")
    }

    fn op_report(&mut self, ctx: &mut Ctx, i: usize, session: usize) -> Result<(), Violation> {
        let s = session % self.sessions.len();
        let report = self.sessions[s].to_report();
        let what = format!("{}: report of session {s}", opn(i));
        ctx.event(mix(12, s as u64), || what.clone());
        self.poll(&what)?;
        self.check_session(s, &report, &what)?;
        let empty = self.model[s].values().all(|m| m.iters == 0);
        check!(
            self.sessions[s].is_empty() == empty && report.is_empty() == empty,
            "report-is-empty-wrong",
            "{what}: is_empty() session={} report={} but the model says {empty}",
            self.sessions[s].is_empty(),
            report.is_empty()
        );
        Ok(())
    }

    fn op_merge(&mut self, ctx: &mut Ctx, what: &str) -> Result<(), Violation> {
        let reports: Vec<Report> = self.sessions.iter().map(|s| s.to_report()).collect();
        let mut merged = reports[0].clone();
        let mut model = self.model[0].clone();
        let mut shared = false;
        for (r, m) in reports.iter().zip(&self.model).skip(1) {
            merged = Report::merge(&merged, r);
            for (k, v) in m {
                if let Some(e) = model.get_mut(k) {
                    if e.spans > 0 && v.spans > 0 {
                        shared = true;
                    }
                    e.merge(v);
                } else {
                    model.insert(*k, v.clone());
                }
            }
        }
        ctx.event(mix(13, reports.len() as u64), || format!("{what}: merge {} reports", reports.len()));
        self.poll(what)?;
        if shared {
            ctx.probe("merge-of-shared-operation-name");
        }
        check_report(&merged, &model, what, "merge")?;
        // Merging must not disturb its inputs.
        for (s, r) in reports.iter().enumerate() {
            check_report(r, &self.model[s], what, "report")?;
        }
        Ok(())
    }

    fn op_spawn(&mut self, ctx: &mut Ctx, i: usize) -> Result<(), Violation> {
        if self.threads.len() >= MAX_THREADS {
            return Ok(());
        }
        let before = LOG.len();
        let idx = self.threads.spawn();
        self.spawn_windows.push((before, LOG.len()));
        self.alive.push(true);
        self.spawned_total += 1;
        let what = format!("op {i}: spawn thread {idx}");
        ctx.event(mix(14, idx as u64), || what.clone());
        self.poll(&what)
    }

    fn op_exit(&mut self, ctx: &mut Ctx, i: usize, t: usize) -> Result<(), Violation> {
        if self.alive.iter().filter(|a| **a).count() <= 1 {
            return Ok(());
        }
        let th = self.pick_thread(t).expect("threads alive");
        // A thread span cannot outlive its thread: close what is open there (each close is checked).
        while let Some(si) = self.spans.iter().position(|s| s.kind == SpanKind::Thread && s.thread == th) {
            self.close_span(ctx, &format!("op {i} (before exit of thread {th})"), si, 1, 0)?;
        }
        let now = LOG.len();
        for s in &mut self.spans {
            if s.kind == SpanKind::Process && window(s.start, now, Some(th as u32 + 1)).count > 0 {
                s.saw_exit = true;
            }
        }
        self.threads.exit(th)?;
        if LOG.len() > now && self.spans.iter().any(|s| s.kind == SpanKind::Process) {
            // The exiting thread allocated from a thread-local destructor inside an open process span.
            ctx.probe("teardown-allocation-inside-process-span");
        }
        self.alive[th] = false;
        let what = format!("op {i}: thread {th} exits");
        ctx.event(mix(15, th as u64), || what.clone());
        self.poll(&what)
    }

    fn finish(&mut self, ctx: &mut Ctx) -> Result<(), Violation> {
        while !self.spans.is_empty() {
            let si = self.spans.len() - 1;
            self.close_span(ctx, "end of run", si, 1, si)?;
        }
        for s in 0..self.sessions.len() {
            self.op_report(ctx, usize::MAX, s)?;
        }
        self.op_merge(ctx, "end of run")?;
        while !self.blocks.is_empty() {
            let n = self.blocks.len();
            self.op_dealloc(ctx, usize::MAX, n, n - 1)?;
        }
        while !self.kept.is_empty() {
            let n = self.kept.len();
            self.op_drop_kept(ctx, usize::MAX, n, n - 1)?;
        }
        Ok(())
    }
}

impl Drop for World<'_> {
    fn drop(&mut self) {
        // Only non-empty after a violation. A span dropped without an iteration count panics, and a panic inside a
        // thread-local destructor aborts the process; running more library code on a state already known to be
        // wrong is no better. Forget whatever is still open (leaks one `Arc` reference per span on a failing run).
        for s in self.spans.drain(..) {
            if let Some(ps) = s.pspan {
                std::mem::forget(ps);
            }
        }
        for t in 0..self.alive.len() {
            if self.alive[t] {
                let _ = self.threads.exec(t, || {
                    TSPANS.with(|s| {
                        for (_, span) in s.borrow_mut().drain(..) {
                            std::mem::forget(span);
                        }
                    });
                });
            }
        }
    }
}

fn check_report(
    report: &Report,
    model: &BTreeMap<usize, OpModel>,
    what: &str,
    prefix: &str,
) -> Result<(), Violation> {
    let got: BTreeMap<String, &alloc_tracker::ReportOperation> =
        report.operations().map(|(n, o)| (n.to_owned(), o)).collect();
    let want: BTreeMap<String, &OpModel> = model.iter().map(|(k, v)| (name_str(*k), v)).collect();
    check!(
        got.keys().eq(want.keys()),
        &format!("{prefix}-names-wrong"),
        "{what}: operations {:?}, expected {:?}",
        got.keys().collect::<Vec<_>>(),
        want.keys().collect::<Vec<_>>()
    );
    for (name, m) in &want {
        let o = got[name];
        check!(
            o.total_bytes_allocated() == m.bytes && o.total_allocations_count() == m.count,
            &format!("{prefix}-totals-wrong"),
            "{what}: {name} totals {} bytes / {} calls, the spans recorded under it sum to {} / {}",
            o.total_bytes_allocated(),
            o.total_allocations_count(),
            m.bytes,
            m.count
        );
        check!(
            o.total_iterations() == m.iters,
            &format!("{prefix}-iterations-wrong"),
            "{what}: {name} iterations {}, expected {}",
            o.total_iterations(),
            m.iters
        );
        let spans = o.statistics().map_or(0, |s| s.span_count);
        check!(
            spans == m.spans,
            &format!("{prefix}-span-count-wrong"),
            "{what}: {name} span count {spans}, expected {}",
            m.spans
        );
        let (wb, wc) = if m.spans > 0 && m.s_nn > 0.0 {
            (Some(m.s_nb / m.s_nn), Some(m.s_nc / m.s_nn))
        } else {
            (None, None)
        };
        let ok = |got: Option<f64>, want: Option<f64>| match (got, want) {
            (None, None) => true,
            (Some(a), Some(b)) => approx(a, b),
            _ => false,
        };
        check!(
            ok(o.bytes(), wb) && ok(o.allocations(), wc),
            &format!("{prefix}-per-iteration-wrong"),
            "{what}: {name} per-iteration bytes {:?} / calls {:?}, expected {wb:?} / {wc:?}",
            o.bytes(),
            o.allocations()
        );
    }
    Ok(())
}

/// Ordinary Rust code whose allocations go through the global allocator. Returns (object, contents ok, fault fired).
fn run_workload(w: Workload, fail: bool) -> (Option<Kept>, bool, bool) {
    match w {
        Workload::VecPush { elem, n } => match elem {
            1 => {
                let mut v = Vec::new();
                for i in 0..n {
                    v.push(i as u8);
                }
                let ok = v.len() == n as usize && v.iter().enumerate().all(|(i, b)| *b == i as u8);
                (Some(Kept::Bytes(v)), ok, false)
            }
            8 => {
                let mut v = Vec::new();
                for i in 0..n {
                    v.push(u64::from(i));
                }
                let ok = v.len() == n as usize && v.iter().enumerate().all(|(i, b)| *b == i as u64);
                (Some(Kept::Words(v)), ok, false)
            }
            _ => {
                let mut v = Vec::new();
                for i in 0..n.min(1500) {
                    v.push([u64::from(i); 4]);
                }
                let ok = v.iter().enumerate().all(|(i, b)| b[3] == i as u64);
                (Some(Kept::Wide(v)), ok, false)
            }
        },
        Workload::StringPush { n } => {
            let mut s = String::new();
            for _ in 0..n {
                s.push_str("abc");
            }
            let ok = s.len() == 3 * n as usize;
            (Some(Kept::Str(s)), ok, false)
        }
        Workload::Boxed { n } => {
            if n == 0 {
                let b: Box<[u8]> = Box::new([1_u8; 64]);
                let ok = b.iter().all(|x| *x == 1);
                (Some(Kept::Boxed(b)), ok, false)
            } else {
                let b = vec![0_u8; n as usize].into_boxed_slice();
                let ok = b.len() == n as usize && b.iter().all(|x| *x == 0);
                (Some(Kept::Boxed(b)), ok, false)
            }
        }
        Workload::Collect { n } => {
            let v: Vec<u64> = (0..u64::from(n)).map(|x| x * 2).collect();
            let ok = v.len() == n as usize;
            (Some(Kept::Words(v)), ok, false)
        }
        Workload::Format { n } => {
            let v: Vec<String> = (0..n).map(|i| format!("item-{i}-of-{n}")).collect();
            let ok = v.len() == n as usize;
            (Some(Kept::Strs(v)), ok, false)
        }
        Workload::BTree { n } => {
            let mut m = BTreeMap::new();
            for i in 0..u64::from(n) {
                m.insert(i.wrapping_mul(0x9E37_79B9) % 10_007, i);
            }
            let ok = !m.is_empty();
            (Some(Kept::Map(m)), ok, false)
        }
        Workload::Shrink { cap } => {
            let mut v: Vec<u64> = Vec::with_capacity(cap as usize);
            for i in 0..5 {
                v.push(i);
            }
            v.shrink_to_fit();
            let ok = v == [0, 1, 2, 3, 4];
            (Some(Kept::Words(v)), ok, false)
        }
        Workload::TryReserve { n } => {
            let mut v: Vec<u8> = vec![9_u8; 10];
            if fail {
                arm_fail();
            }
            let r = v.try_reserve_exact(n as usize + 16);
            let still = disarm_fail();
            let fired = fail && !still;
            let ok = v.len() == 10 && v.iter().all(|b| *b == 9) && (r.is_err() == fired);
            (Some(Kept::Bytes(v)), ok, fired)
        }
    }
}

impl Scenario for AllocScenario {
    fn generate(rng: &mut Rng, mode: &str) -> Self {
        let cfg = GenCfg {
            installed: mode.starts_with("installed"),
            faulty: mode.ends_with("faulty"),
            tiny: mode.starts_with("tiny"),
        };
        Self::generate_with(rng, &cfg)
    }

    fn run(&self, ctx: &mut Ctx) -> Result<bool, Violation> {
        assert!(
            self.installed == INSTALLED.load(Ordering::Relaxed),
            "harness: flavour installed={} needs the matching binary (h_alloc for direct, h_alloc_installed for installed)",
            self.installed
        );
        pin_to_one_cpu();
        let n_threads = self.threads.clamp(1, MAX_THREADS);
        let n_sessions = self.sessions.clamp(1, 3);
        // Quiescent: only this thread runs. Forget earlier entries (installed flavour: everything the process did
        // so far) and any stale transparency note.
        set_tid(MAIN_TID);
        LOG.reset();
        let _ = simalloc::take_mismatch();
        crate::threads::TEARDOWN_ALLOCS.store(self.teardown.min(8), Ordering::Relaxed);
        let threads = Threads::new(self.installed, n_threads);
        let startup_window = (0, LOG.len());
        let mut w = World {
            sc: self,
            threads,
            alive: vec![true; n_threads],
            sessions: (0..n_sessions).map(|_| Arc::new(Session::new().no_stdout().no_file())).collect(),
            handles: vec![BTreeMap::new(); n_sessions],
            model: vec![BTreeMap::new(); n_sessions],
            spans: Vec::new(),
            blocks: Vec::new(),
            kept: Vec::new(),
            next_id: 0,
            nontrivial: false,
            bootstrap_total: 0,
            spawned_total: n_threads,
            spawn_windows: vec![startup_window],
        };
        ctx.event(mix(n_threads as u64, mix(n_sessions as u64, self.names as u64)), || {
            format!(
                "config: {} threads, {} sessions, {} names, installed={}, faulty={}",
                n_threads, n_sessions, self.names, self.installed, self.faulty
            )
        });
        for (i, op) in self.ops.iter().enumerate() {
            match *op {
                Op::Alloc { t, size, align_log2, zeroed, fail } => {
                    w.op_alloc(ctx, i, t, size, align_log2, zeroed, fail && self.faulty)?;
                }
                Op::Realloc { t, sel, new_size, fail } => {
                    w.op_realloc(ctx, i, t, sel, new_size, fail && self.faulty)?;
                }
                Op::Dealloc { t, sel } => w.op_dealloc(ctx, i, t, sel)?,
                Op::Work { t, w: wl, keep, fail } => {
                    if self.installed {
                        w.op_work(ctx, i, t, wl, keep, fail && self.faulty)?;
                    }
                }
                Op::GrowKept { t, sel, n } => {
                    if self.installed {
                        w.op_grow_kept(ctx, i, t, sel, n)?;
                    }
                }
                Op::DropKept { t, sel } => {
                    if self.installed {
                        w.op_drop_kept(ctx, i, t, sel)?;
                    }
                }
                Op::OpenThread { t, session, name, new_handle } => {
                    w.op_open(ctx, i, SpanKind::Thread, t, session, name, new_handle)?;
                }
                Op::OpenProcess { t, session, name, new_handle } => {
                    w.op_open(ctx, i, SpanKind::Process, t, session, name, new_handle)?;
                }
                Op::Close { sel, iterations, t } => {
                    if !w.spans.is_empty() {
                        let si = sel % w.spans.len();
                        w.close_span(ctx, &format!("op {i}"), si, iterations, t)?;
                    }
                }
                Op::Report { session } => w.op_report(ctx, i, session)?,
                Op::MergeAll => w.op_merge(ctx, &format!("op {i}"))?,
                Op::Spawn => w.op_spawn(ctx, i)?,
                Op::Exit { t } => w.op_exit(ctx, i, t)?,
            }
        }
        w.finish(ctx)?;
        if !self.installed {
            // Direct flavour: the log holds the scripted calls and nothing else.
            let n = LOG.len();
            let boot = (0..n).filter(|i| LOG.get(*i).is_some_and(|e| e.depth >= 2)).count();
            check!(boot == 0, "unsolicited-inner-call", "direct flavour: {boot} nested inner calls");
        } else {
            // Installed flavour: tracker-originated (nested) requests exist only as per-thread bootstrap:
            // at most two per thread that ever ran in this run (counter block + registry growth).
            let n = LOG.len();
            // Quiescence audit: every request of this run came from the driver or from a labelled simulated
            // thread, except inside thread start-up windows. Anything else means some other thread of the process
            // (e.g. simkit's watchdog: run the installed jobs with --timeout-s 0) allocated while the harness
            // assumed quiescence — a harness fault, not a verdict.
            for i in 0..n {
                let e = LOG.get(i).expect("readable at a quiescent point");
                assert!(
                    e.tid != 0 || w.spawn_windows.iter().any(|(a, b)| i >= *a && i < *b),
                    "harness: log entry {i} ({}) was made by an unlabelled thread outside thread start-up",
                    e.req.describe()
                );
            }
            let boot = (0..n).filter(|i| LOG.get(*i).is_some_and(|e| e.depth >= 2)).count();
            check!(
                boot <= 2 * (w.spawned_total + 1),
                "bootstrap-unbounded",
                "{boot} tracker-originated requests for {} threads",
                w.spawned_total
            );
            if boot > 0 {
                ctx.probe("tracker-bootstrap-observed");
            }
        }
        let nt = w.nontrivial;
        drop(w);
        Ok(nt)
    }

    fn shrink(&self) -> Vec<Self> {
        let mut out: Vec<Self> = simkit::shrink::remove_chunks(&self.ops)
            .into_iter()
            .map(|ops| Self { ops, ..self.clone() })
            .collect();
        if self.teardown > 0 {
            out.push(Self { teardown: 0, ..self.clone() });
        }
        if self.threads > 1 {
            out.push(Self { threads: 1, ..self.clone() });
            out.push(Self { threads: self.threads - 1, ..self.clone() });
        }
        if self.sessions > 1 {
            out.push(Self { sessions: 1, ..self.clone() });
        }
        if self.names > 1 {
            out.push(Self { names: 1, ..self.clone() });
        }
        for (i, op) in self.ops.iter().enumerate() {
            let mut simpler: Vec<Op> = Vec::new();
            match op {
                Op::Alloc { t, size, align_log2, zeroed, fail } => {
                    if *fail {
                        simpler.push(Op::Alloc { t: *t, size: *size, align_log2: *align_log2, zeroed: *zeroed, fail: false });
                    }
                    if *size > 16 {
                        simpler.push(Op::Alloc { t: *t, size: 16, align_log2: *align_log2, zeroed: *zeroed, fail: *fail });
                    }
                    if *align_log2 > 0 {
                        simpler.push(Op::Alloc { t: *t, size: *size, align_log2: 0, zeroed: *zeroed, fail: *fail });
                    }
                    if *t > 0 {
                        simpler.push(Op::Alloc { t: 0, size: *size, align_log2: *align_log2, zeroed: *zeroed, fail: *fail });
                    }
                }
                Op::Realloc { t, sel, new_size, fail } => {
                    if *fail {
                        simpler.push(Op::Realloc { t: *t, sel: *sel, new_size: *new_size, fail: false });
                    }
                    if *new_size > 16 {
                        simpler.push(Op::Realloc { t: *t, sel: *sel, new_size: 16, fail: *fail });
                    }
                    if *t > 0 {
                        simpler.push(Op::Realloc { t: 0, sel: *sel, new_size: *new_size, fail: *fail });
                    }
                }
                Op::Close { sel, iterations, t } => {
                    if *iterations != 1 {
                        simpler.push(Op::Close { sel: *sel, iterations: 1, t: *t });
                    }
                }
                Op::Work { t, w, keep, fail } => {
                    if *fail {
                        simpler.push(Op::Work { t: *t, w: *w, keep: *keep, fail: false });
                    }
                    if *keep {
                        simpler.push(Op::Work { t: *t, w: *w, keep: false, fail: *fail });
                    }
                }
                _ => {}
            }
            for s in simpler {
                let mut ops = self.ops.clone();
                ops[i] = s;
                out.push(Self { ops, ..self.clone() });
            }
        }
        out
    }

    fn size(&self) -> usize {
        let mut n = self.ops.len() * 8 + self.threads + self.sessions + self.names;
        for op in &self.ops {
            n += match op {
                Op::Alloc { t, size, align_log2, fail, .. } => {
                    usize::from(*fail) + usize::from(*size > 16) + usize::from(*align_log2 > 0) + usize::from(*t > 0)
                }
                Op::Realloc { t, new_size, fail, .. } => {
                    usize::from(*fail) + usize::from(*new_size > 16) + usize::from(*t > 0)
                }
                Op::Close { iterations, .. } => usize::from(*iterations != 1),
                Op::Work { keep, fail, .. } => usize::from(*fail) + usize::from(*keep),
                _ => 0,
            };
        }
        n
    }
}
