//! Simulated threads. Direct flavour: simkit's `Coordinator` (mpsc mailboxes). Installed flavour: `MiniCoord`, a
//! mailbox built from `Mutex` + `Condvar` only, because there every allocation of every thread is observed: a worker
//! must not allocate after it has acknowledged an operation (std's mpsc lazily allocates per-thread wait contexts on
//! the first *blocking* receive, which may come after an acknowledgement), otherwise "quiescent point" would be a lie.

use std::alloc::{GlobalAlloc as _, Layout};
use std::any::Any;
use std::cell::Cell;
use std::panic::{AssertUnwindSafe, catch_unwind};
use std::sync::atomic::{AtomicU32, Ordering};
use std::sync::{Arc, Condvar, Mutex};
use std::thread::JoinHandle;

use simkit::Violation;
use simkit::coord::{Coordinator, ExecError};

/// How many allocations every simulated thread makes from a thread-local destructor while it is being torn down
/// (set by the engine from the scenario before the threads start; 0 = none).
pub static TEARDOWN_ALLOCS: AtomicU32 = AtomicU32::new(0);

/// A thread-local value whose destructor allocates. It is touched before the thread's first tracked allocation, so
/// that - destructors running in reverse order of registration - it is destroyed *after* anything the tracker keeps
/// per thread: what it allocates is made by a thread that is alive and inside any process span still open, and must
/// be counted like every other call.
struct Teardown {
    n: Cell<u32>,
    direct: Cell<bool>,
}

impl Drop for Teardown {
    fn drop(&mut self) {
        for k in 0..self.n.get() {
            let size = 200 + 8 * k as usize;
            if self.direct.get() {
                let l = Layout::from_size_align(size, 8).expect("layout");
                // SAFETY: non-zero size; the block is released with the layout it was requested with.
                unsafe {
                    let p = crate::engine::DIRECT.alloc(l);
                    if !p.is_null() {
                        crate::engine::DIRECT.dealloc(p, l);
                    }
                }
            } else {
                let v: Vec<u8> = Vec::with_capacity(size);
                drop(std::hint::black_box(v));
            }
        }
    }
}

thread_local! {
    static TEARDOWN: Teardown = const { Teardown { n: Cell::new(0), direct: Cell::new(false) } };
}

/// First thing a simulated thread does: registers the destructor above.
pub fn arm_teardown(direct: bool) {
    let n = TEARDOWN_ALLOCS.load(Ordering::Relaxed);
    TEARDOWN.with(|t| {
        t.n.set(n);
        t.direct.set(direct);
    });
}

type MiniJob = Box<dyn FnOnce() -> Box<dyn Any + Send> + Send + 'static>;

#[derive(Default)]
struct MailState {
    job: Option<MiniJob>,
    quit: bool,
    started: bool,
    done: bool,
    result: Option<Result<Box<dyn Any + Send>, String>>,
}

#[derive(Default)]
struct Mailbox {
    m: Mutex<MailState>,
    cv: Condvar,
}

struct MiniThread {
    mb: Arc<Mailbox>,
    handle: Option<JoinHandle<()>>,
    /// An operation on this thread ran into the wall-clock bound: its result may still arrive later, so the mailbox
    /// is never used again and the thread is not joined.
    blocked: std::cell::Cell<bool>,
}

/// Wall-clock bound for one operation (native only). Generous: with one runnable thread a hang is a property of the
/// schedule, and the bound must not fire on a merely overloaded machine.
const OP_TIMEOUT_S: u64 = 120;

#[derive(Default)]
pub struct MiniCoord {
    threads: Vec<MiniThread>,
}

fn masked(msg: &str) -> String {
    let mut out = String::new();
    let mut last_hash = false;
    for ch in msg.chars().take(100) {
        if ch.is_ascii_digit() {
            if !last_hash {
                out.push('#');
            }
            last_hash = true;
        } else {
            last_hash = false;
            out.push(if ch == '\n' { ' ' } else { ch });
        }
    }
    out
}

fn panicked(msg: &str) -> Violation {
    Violation::new(&format!("panic: {}", masked(msg)), msg.to_owned())
}

impl MiniCoord {
    fn spawn(&mut self) -> usize {
        let idx = self.threads.len();
        let mb = Arc::new(Mailbox::default());
        let mb2 = Arc::clone(&mb);
        let handle = std::thread::Builder::new()
            .name(format!("mini-{idx}"))
            .spawn(move || {
                arm_teardown(false);
                let mb = mb2;
                // Label this thread's log entries from the start (simulated thread i is tid i + 1).
                crate::simalloc::set_tid(idx as u32 + 1);
                {
                    let mut st = mb.m.lock().expect("mailbox");
                    st.started = true;
                    mb.cv.notify_all();
                }
                loop {
                    let job = {
                        let mut st = mb.m.lock().expect("mailbox");
                        loop {
                            if let Some(j) = st.job.take() {
                                break Some(j);
                            }
                            if st.quit {
                                break None;
                            }
                            st = mb.cv.wait(st).expect("mailbox");
                        }
                    };
                    let Some(job) = job else { break };
                    let r = catch_unwind(AssertUnwindSafe(job)).map_err(|p| simkit::panic_message(&p));
                    let mut st = mb.m.lock().expect("mailbox");
                    st.result = Some(r);
                    st.done = true;
                    mb.cv.notify_all();
                }
            })
            .expect("spawn simulated thread");
        {
            let mut st = mb.m.lock().expect("mailbox");
            while !st.started {
                st = mb.cv.wait(st).expect("mailbox");
            }
        }
        self.threads.push(MiniThread {
            mb,
            handle: Some(handle),
            blocked: std::cell::Cell::new(false),
        });
        idx
    }

    fn exec<R: Send + 'static>(&self, t: usize, f: impl FnOnce() -> R + Send + 'static) -> Result<R, Violation> {
        let th = &self.threads[t];
        if th.handle.is_none() {
            return Err(Violation::new("harness-dead-thread", format!("thread {t} is gone")));
        }
        if th.blocked.get() {
            return Err(Violation::new("blocked", format!("thread {t} is still inside an earlier operation")));
        }
        let job: MiniJob = Box::new(move || Box::new(f()) as Box<dyn Any + Send>);
        let mut st = th.mb.m.lock().expect("mailbox");
        st.job = Some(job);
        st.done = false;
        th.mb.cv.notify_all();
        while !st.done {
            #[cfg(miri)]
            {
                st = th.mb.cv.wait(st).expect("mailbox");
            }
            #[cfg(not(miri))]
            {
                let (g, to) = th
                    .mb
                    .cv
                    .wait_timeout(st, std::time::Duration::from_secs(OP_TIMEOUT_S))
                    .expect("mailbox");
                st = g;
                if to.timed_out() && !st.done {
                    th.blocked.set(true);
                    return Err(Violation::new(
                        "blocked",
                        format!("operation on thread {t} did not finish in {OP_TIMEOUT_S} s"),
                    ));
                }
            }
        }
        let r = st.result.take().expect("result present when done");
        drop(st);
        match r {
            Ok(b) => Ok(*b.downcast::<R>().expect("result type")),
            Err(msg) => Err(panicked(&msg)),
        }
    }

    fn exit(&mut self, t: usize) -> Result<(), Violation> {
        let th = &mut self.threads[t];
        {
            let mut st = th.mb.m.lock().expect("mailbox");
            st.quit = true;
            th.mb.cv.notify_all();
        }
        if let Some(h) = th.handle.take() {
            if th.blocked.get() {
                // Cannot be joined; leak it (the run is already a violation).
                return Err(Violation::new("blocked", format!("thread {t} cannot exit")));
            }
            h.join().map_err(|p| panicked(&simkit::panic_message(&p)))?;
        }
        Ok(())
    }
}

impl Drop for MiniCoord {
    fn drop(&mut self) {
        for t in 0..self.threads.len() {
            let _ = self.exit(t);
        }
    }
}

pub enum Kind {
    Sim(Coordinator),
    Mini(MiniCoord),
}

pub struct Threads {
    kind: Kind,
    /// Set once any operation ran into the wall-clock bound; nothing is handed to any thread afterwards.
    gave_up: std::cell::Cell<bool>,
}

impl Threads {
    #[must_use]
    pub fn new(installed: bool, n: usize) -> Self {
        let kind = if installed {
            let mut m = MiniCoord::default();
            for _ in 0..n {
                m.spawn();
            }
            Kind::Mini(m)
        } else {
            let mut c = Coordinator::new(n);
            c.op_timeout = std::time::Duration::from_secs(OP_TIMEOUT_S);
            for t in 0..n {
                let _ = c.exec(t, || arm_teardown(true));
            }
            Kind::Sim(c)
        };
        Self {
            kind,
            gave_up: std::cell::Cell::new(false),
        }
    }

    pub fn spawn(&mut self) -> usize {
        match &mut self.kind {
            Kind::Sim(c) => {
                let idx = c.spawn();
                let _ = c.exec(idx, || arm_teardown(true));
                idx
            }
            Kind::Mini(m) => m.spawn(),
        }
    }

    #[must_use]
    pub fn len(&self) -> usize {
        match &self.kind {
            Kind::Sim(c) => c.len(),
            Kind::Mini(m) => m.threads.len(),
        }
    }

    #[must_use]
    pub fn is_empty(&self) -> bool {
        self.len() == 0
    }

    pub fn exec<R: Send + 'static>(&self, t: usize, f: impl FnOnce() -> R + Send + 'static) -> Result<R, Violation> {
        if self.gave_up.get() {
            return Err(Violation::new("blocked", "an earlier operation never finished".to_owned()));
        }
        let r = match &self.kind {
            Kind::Sim(c) => c.exec(t, f).map_err(|e| match e {
                ExecError::Panicked(msg) => panicked(&msg),
                ExecError::Blocked => {
                    Violation::new("blocked", format!("operation on thread {t} did not finish in {OP_TIMEOUT_S} s"))
                }
                ExecError::Dead => Violation::new("harness-dead-thread", format!("thread {t} is gone")),
            }),
            Kind::Mini(m) => m.exec(t, f),
        };
        if r.as_ref().is_err_and(|v| v.class == "blocked") {
            self.gave_up.set(true);
        }
        r
    }

    pub fn exit(&mut self, t: usize) -> Result<(), Violation> {
        match &mut self.kind {
            Kind::Sim(c) => c.exit_thread(t).map_err(|e| match e {
                ExecError::Panicked(msg) => panicked(&msg),
                ExecError::Blocked => Violation::new("blocked", format!("thread {t} cannot exit")),
                ExecError::Dead => Violation::new("harness-dead-thread", format!("thread {t} is gone")),
            }),
            Kind::Mini(m) => m.exit(t),
        }
    }
}
