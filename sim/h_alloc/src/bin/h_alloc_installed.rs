//! `h_alloc_installed`: the tracker is the process's global allocator, over SimAlloc, inside the marker shim:
//! program -> Shim -> alloc_tracker::Allocator -> SimAlloc -> System. Every allocation of the process (std, simkit,
//! serde, the harness itself) goes through the tracker and is logged by SimAlloc.

use alloc_tracker::Allocator;
use h_alloc::simalloc::{Shim, SimAlloc};

#[global_allocator]
static GLOBAL: Shim<Allocator<SimAlloc>> = Shim(Allocator::new(SimAlloc));

fn main() {
    h_alloc::engine::INSTALLED.store(true, std::sync::atomic::Ordering::Relaxed);
    simkit::cli_main("h_alloc", h_alloc::entries())
}
