//! C13 — region values (`region_cached`, `region_local`): own writes visible to region-pinned
//! threads, one writer's values never observed out of order, never persistently stale.
//!
//! Engines and modes
//! * `mt`, `mt-faulty` — 2–4 real threads behind a start gate run short scripts concurrently over
//!   one `RegionCached<Val>` / `RegionLocal<Val>` on `many_cpus::fake` hardware (1–8 regions).
//!   Meant for Miri, whose seeded scheduler decides preemption inside the library, `arc-swap` and
//!   `rsevents` (deadlock detection is exact there). PRNG-chosen yield staggers before every
//!   operation and inside the payload's `Clone` / the region-local initialiser (simulator seams)
//!   widen the window between an initialiser's load of the latest value and its store of the
//!   regional copy. `mt-full*` are the same generators with the avoid-known restriction off.
//! * `seq`, `seq-faulty` — native bulk: the same scripts executed in a PRNG-chosen total order on
//!   one worker thread per simulated thread (pin state is per thread), exact sequential model
//!   after every operation (value and number of seam invocations, i.e. cache effectiveness).
//! * `gated` — native, deterministic sub-operation schedules: a seam invocation (Clone during
//!   regional initialisation / region-local initialiser) parks its thread while the scheduler runs
//!   the next operations of other threads, then resumes it. This places writes exactly inside the
//!   initialiser's load..store window without relying on a random scheduler.
//! * `known-*` — directed gated scenarios reproducing the defects listed in `AVOID_KNOWN`.
//!
//! Stamps come from one global counter incremented with `Relaxed` ordering.

use std::cell::{Cell, RefCell};
use std::panic::{AssertUnwindSafe, catch_unwind, resume_unwind};
use std::sync::atomic::{AtomicBool, AtomicU8, AtomicU32, AtomicU64, Ordering};
use std::sync::mpsc::{Receiver, Sender, channel};
use std::sync::{Arc, Mutex};

use many_cpus::SystemHardware;
use many_cpus::fake::{HardwareBuilder, ProcessorBuilder};
use region_cached::RegionCached;
use region_local::RegionLocal;
use serde::{Deserialize, Serialize};
use simkit::{Ctx, Rng, Scenario, Violation, check, entry, hash_str, mix};

const K_CACHED: &str = "c13-stale-region-after-racing-write";
const K_LOCAL: &str = "c13-local-write-lost-to-racing-init";

/// Defects known on the tree being checked. While a key is listed the ordinary modes do not
/// generate its trigger (a write overlapping a read that may initialise a region): `mt*` modes
/// serialise reads against writes with a harness-level gate (reads still race reads, writes still
/// race writes), `gated` does not run a triggering write inside a parked initialiser.
/// `known-<key>` reproduces the defect deterministically.
// Both were fixed in /repo (778cae8, 1629359): nothing is avoided any more - reads race writes in
// every mode and the directed modes stay as regression searches.
const AVOID_KNOWN: &[&str] = &[];

fn avoid(key: &str) -> bool {
    AVOID_KNOWN.contains(&key)
}

// ------------------------------------------------------------------------------------------------
// Payload and seams
// ------------------------------------------------------------------------------------------------

/// `(writer, seq)` as the harness keeps it (never the payload type: cloning that is a seam call).
type V = (u8, u32);
const INIT: V = (0, 0);
const FINAL_WRITER: u8 = 200;
const INJECTED: &str = "injected seam panic";

#[derive(Copy, Debug)]
struct Val {
    writer: u8,
    seq: u32,
}

#[allow(clippy::expl_impl_clone_on_copy, reason = "Clone is a simulator seam")]
impl Clone for Val {
    fn clone(&self) -> Self {
        seam_call();
        Self {
            writer: self.writer,
            seq: self.seq,
        }
    }
}

fn local_init() -> Val {
    seam_call();
    Val { writer: 0, seq: 0 }
}

struct Seam {
    calls: AtomicU32,
    panic_mask: AtomicU64,
    fired: AtomicU32,
    yields: [AtomicU8; 8],
    writes_in_flight: AtomicU32,
    raced: AtomicU32,
    pause_active: AtomicBool,
    paused: AtomicU32,
}

static SEAM: Seam = Seam {
    calls: AtomicU32::new(0),
    panic_mask: AtomicU64::new(0),
    fired: AtomicU32::new(0),
    yields: [const { AtomicU8::new(0) }; 8],
    writes_in_flight: AtomicU32::new(0),
    raced: AtomicU32::new(0),
    pause_active: AtomicBool::new(false),
    paused: AtomicU32::new(0),
};
/// Gated runs: where a parked seam invocation reports to, and which invocations park.
static GATE: Mutex<Option<(Sender<Msg>, Vec<u32>)>> = Mutex::new(None);

thread_local! {
    static MY_T: Cell<usize> = const { Cell::new(usize::MAX) };
    static RESUME_RX: RefCell<Option<Receiver<()>>> = const { RefCell::new(None) };
}

const R: Ordering = Ordering::Relaxed;

fn seam_reset(sc: &RegionScenario) {
    SEAM.calls.store(0, R);
    let mut mask = 0_u64;
    for &k in &sc.panic_calls {
        if k < 64 {
            mask |= 1 << k;
        }
    }
    SEAM.panic_mask.store(mask, R);
    SEAM.fired.store(0, R);
    for (i, y) in SEAM.yields.iter().enumerate() {
        y.store(sc.seam_yields.get(i).copied().unwrap_or(0), R);
    }
    SEAM.writes_in_flight.store(0, R);
    SEAM.raced.store(0, R);
    SEAM.pause_active.store(false, R);
    SEAM.paused.store(0, R);
}

/// No panics, yields or parking any more (quiescent phase).
fn seam_calm() {
    SEAM.panic_mask.store(0, R);
    for y in &SEAM.yields {
        y.store(0, R);
    }
    *GATE.lock().unwrap() = None;
}

fn seam_call() {
    let k = SEAM.calls.fetch_add(1, R);
    if SEAM.writes_in_flight.load(R) > 0 {
        SEAM.raced.fetch_add(1, R);
    }
    for _ in 0..SEAM.yields[(k % 8) as usize].load(R) {
        std::thread::yield_now();
    }
    if !SEAM.pause_active.load(R) {
        let tx = {
            let g = GATE.lock().unwrap();
            match &*g {
                Some((tx, calls)) if calls.contains(&k) => Some(tx.clone()),
                _ => None,
            }
        };
        if let Some(tx) = tx {
            let t = MY_T.with(Cell::get);
            if t != usize::MAX {
                SEAM.paused.fetch_add(1, R);
                let _ = tx.send(Msg::Paused(t, k));
                RESUME_RX.with(|r| {
                    if let Some(rx) = r.borrow().as_ref() {
                        let _ = rx.recv();
                    }
                });
            }
        }
    }
    if k < 64 && SEAM.panic_mask.load(R) & (1 << k) != 0 {
        SEAM.fired.fetch_add(1, R);
        panic!("{INJECTED}");
    }
}

// ------------------------------------------------------------------------------------------------
// Scenario description
// ------------------------------------------------------------------------------------------------

#[derive(Clone, Copy, Debug, PartialEq, Eq, Serialize, Deserialize)]
enum Kind {
    Cached,
    Local,
}

impl Kind {
    fn tag(self) -> &'static str {
        match self {
            Kind::Cached => "cached",
            Kind::Local => "local",
        }
    }
}

#[derive(Clone, Copy, Debug, PartialEq, Eq, Serialize, Deserialize)]
enum OpKind {
    /// `set_global` / `set_local`
    Write,
    /// `with_cached` / `with_local`
    With,
    /// `get_cached` / `get_local`
    Get,
}

#[derive(Clone, Copy, Debug, PartialEq, Eq, Serialize, Deserialize)]
struct Op {
    k: OpKind,
    /// `yield_now` calls before the operation (mt stagger).
    pre: u8,
}

#[derive(Clone, Debug, PartialEq, Eq, Serialize, Deserialize)]
struct ThreadSpec {
    /// Index of the region this thread is pinned to; `None` = unpinned (the fake platform picks a
    /// processor per call).
    pin: Option<u8>,
    /// Pin to every processor of the region (region-pinned, not processor-pinned; costs a full
    /// `ProcessorSet::filter`) instead of to its first processor.
    #[serde(default)]
    whole: bool,
    /// Own linked instance created on the thread after pinning (fast path with the regional state
    /// cached in the instance) or the shared instance created by the unpinned main thread.
    own: bool,
    ops: Vec<Op>,
}

#[derive(Clone, Copy, Debug, PartialEq, Eq, Serialize, Deserialize)]
struct Pause {
    /// Seam invocation (0-based, counted over the run) that parks.
    call: u32,
    /// Number of following eligible steps of other threads executed while it is parked.
    run: u8,
}

#[derive(Clone, Debug, PartialEq, Eq, Serialize, Deserialize)]
struct RegionScenario {
    /// `true`: real concurrent threads (Miri); `false`: one runner at a time in `order`.
    concurrent: bool,
    kind: Kind,
    /// Memory region id of region index i (ids may be sparse).
    region_ids: Vec<u8>,
    /// Processors in region index i.
    procs: Vec<u8>,
    threads: Vec<ThreadSpec>,
    /// Sequential runs: thread index per step.
    order: Vec<u8>,
    pauses: Vec<Pause>,
    /// Seam invocations (Clone during regional initialisation / region-local initialiser) that panic.
    panic_calls: Vec<u32>,
    /// `yield_now` calls inside seam invocation k (index k % 8).
    seam_yields: Vec<u8>,
    /// Concurrent runs: reads never overlap writes (avoid-known restriction).
    exclusive: bool,
    /// Gated runs: a parked initialiser may be overtaken by a write that hits its region.
    trigger_allowed: bool,
    /// Sequential runs without pauses: no worker threads, the runner re-pins itself per operation.
    #[serde(default)]
    inline: bool,
    /// Unpinned reads in the quiescent phase (their region is library entropy: Miri only for Local).
    unpinned_quiescent: bool,
}

// ------------------------------------------------------------------------------------------------
// World
// ------------------------------------------------------------------------------------------------

enum Inst {
    C(RegionCached<Val>),
    L(RegionLocal<Val>),
}

impl Inst {
    fn fresh(&self) -> Self {
        match self {
            Inst::C(x) => Inst::C(x.clone()),
            Inst::L(x) => Inst::L(x.clone()),
        }
    }

    fn write(&self, v: V) {
        let val = Val {
            writer: v.0,
            seq: v.1,
        };
        SEAM.writes_in_flight.fetch_add(1, R);
        match self {
            Inst::C(x) => x.set_global(val),
            Inst::L(x) => x.set_local(val),
        }
        SEAM.writes_in_flight.fetch_sub(1, R);
    }

    fn read(&self, get: bool) -> V {
        match (self, get) {
            (Inst::C(x), false) => x.with_cached(|v| (v.writer, v.seq)),
            (Inst::C(x), true) => {
                let v = x.get_cached();
                (v.writer, v.seq)
            }
            (Inst::L(x), false) => x.with_local(|v| (v.writer, v.seq)),
            (Inst::L(x), true) => {
                let v = x.get_local();
                (v.writer, v.seq)
            }
        }
    }
}

#[derive(Clone, Copy, Debug, PartialEq, Eq)]
enum Out {
    Wrote(V),
    Read(V),
    Panicked,
}

#[derive(Clone, Copy, Debug)]
struct Rec {
    t: usize,
    i: usize,
    k: OpKind,
    inv: u64,
    ret: u64,
    out: Out,
}

enum Msg {
    Done(usize, Rec),
    Paused(usize, u32),
    Crashed(String),
}

struct World {
    stamp: AtomicU64,
    go: AtomicBool,
    target: Inst,
    _hw: SystemHardware,
    /// Per region index: one-processor set, and (only where a script needs it) the whole region.
    single: Vec<many_cpus::ProcessorSet>,
    whole: Vec<Option<many_cpus::ProcessorSet>>,
    /// Every processor (pinning to it un-pins a thread when there are several regions).
    all: many_cpus::ProcessorSet,
    /// (active readers, active writers) for the avoid-known gate.
    gate: Mutex<(u32, u32)>,
    exclusive: bool,
}

impl World {
    fn tick(&self) -> u64 {
        self.stamp.fetch_add(1, R)
    }

    fn enter(&self, write: bool) {
        if !self.exclusive {
            return;
        }
        loop {
            {
                let mut g = self.gate.lock().unwrap();
                if write && g.0 == 0 {
                    g.1 += 1;
                    return;
                }
                if !write && g.1 == 0 {
                    g.0 += 1;
                    return;
                }
            }
            std::thread::yield_now();
        }
    }

    fn leave(&self, write: bool) {
        if !self.exclusive {
            return;
        }
        let mut g = self.gate.lock().unwrap();
        if write {
            g.1 -= 1;
        } else {
            g.0 -= 1;
        }
    }
}

fn build_hw(sc: &RegionScenario) -> SystemHardware {
    let mut b = HardwareBuilder::new();
    let mut id = 0_u32;
    for (i, &rid) in sc.region_ids.iter().enumerate() {
        for _ in 0..sc.procs.get(i).copied().unwrap_or(1).max(1) {
            b = b.processor(ProcessorBuilder::new().id(id).memory_region(u32::from(rid)));
            id += 1;
        }
    }
    SystemHardware::fake(b)
}

impl World {
    /// Pins the calling thread to region index `r`.
    fn pin(&self, r: usize, whole: bool) {
        match (&self.whole[r], whole) {
            (Some(set), true) => set.pin_current_thread_to(),
            _ => self.single[r].pin_current_thread_to(),
        }
    }
}

/// Executes one operation; an injected seam panic is an expected outcome, anything else unwinds.
fn do_op(w: &World, inst: &Inst, t: usize, i: usize, op: Op, next_seq: &mut u32) -> Rec {
    for _ in 0..op.pre {
        std::thread::yield_now();
    }
    let write = op.k == OpKind::Write;
    w.enter(write);
    let inv = w.tick();
    let out = if write {
        *next_seq += 1;
        let v = (u8::try_from(t + 1).expect("few threads"), *next_seq);
        inst.write(v);
        Out::Wrote(v)
    } else {
        match catch_unwind(AssertUnwindSafe(|| inst.read(op.k == OpKind::Get))) {
            Ok(v) => Out::Read(v),
            Err(p) => {
                if simkit::panic_message(&p) == INJECTED {
                    Out::Panicked
                } else {
                    w.leave(write);
                    resume_unwind(p);
                }
            }
        }
    };
    let ret = w.tick();
    w.leave(write);
    Rec {
        t,
        i,
        k: op.k,
        inv,
        ret,
        out,
    }
}

impl RegionScenario {
    fn pin_idx(&self, t: usize) -> Option<usize> {
        self.threads[t]
            .pin
            .map(|p| usize::from(p) % self.region_ids.len())
    }

    /// An operation the run skips (keeps shrunk scenarios well-formed): region-local writes by an
    /// unpinned thread land in a region the harness cannot know.
    fn skipped(&self, t: usize, op: Op) -> bool {
        self.kind == Kind::Local && op.k == OpKind::Write && self.threads[t].pin.is_none()
    }

    fn new_world(&self) -> Arc<World> {
        let hw = build_hw(self);
        // `filter` runs the whole selection machinery (very slow under Miri): decompose once.
        let all = hw.all_processors();
        let singles = all.decompose();
        let mut single = Vec::new();
        let mut whole = Vec::new();
        for (r, &rid) in self.region_ids.iter().enumerate() {
            single.push(
                singles
                    .iter()
                    .find(|s| s.processors().first().memory_region_id() == u32::from(rid))
                    .expect("region has a processor")
                    .clone(),
            );
            let wanted = self.threads.iter().enumerate().any(|(t, th)| th.whole && self.pin_idx(t) == Some(r));
            whole.push(if wanted {
                all.filter(|p| p.memory_region_id() == u32::from(rid))
            } else {
                None
            });
        }
        let target = match self.kind {
            Kind::Cached => Inst::C(RegionCached::with_hardware(Val { writer: 0, seq: 0 }, hw.clone())),
            Kind::Local => Inst::L(RegionLocal::with_hardware(local_init, hw.clone())),
        };
        Arc::new(World {
            stamp: AtomicU64::new(1),
            go: AtomicBool::new(false),
            target,
            _hw: hw,
            single,
            whole,
            all,
            gate: Mutex::new((0, 0)),
            exclusive: self.exclusive && self.concurrent,
        })
    }
}

// ------------------------------------------------------------------------------------------------
// Concurrent runner (Miri)
// ------------------------------------------------------------------------------------------------

fn run_concurrent(sc: &RegionScenario, w: &Arc<World>) -> Result<Vec<Rec>, Violation> {
    let mut handles = Vec::new();
    for t in 0..sc.threads.len() {
        let w = Arc::clone(w);
        let spec = sc.threads[t].clone();
        let pin = sc.pin_idx(t);
        let skip: Vec<bool> = spec.ops.iter().map(|&op| sc.skipped(t, op)).collect();
        handles.push(std::thread::spawn(move || {
            if let Some(r) = pin {
                w.pin(r, spec.whole);
            }
            while !w.go.load(Ordering::Acquire) {
                std::thread::yield_now();
            }
            let own = if spec.own { Some(w.target.fresh()) } else { None };
            let inst = own.as_ref().unwrap_or(&w.target);
            let mut recs = Vec::new();
            let mut next_seq = 0;
            for (i, &op) in spec.ops.iter().enumerate() {
                if skip[i] {
                    continue;
                }
                recs.push(do_op(&w, inst, t, i, op, &mut next_seq));
            }
            recs
        }));
    }
    w.go.store(true, Ordering::Release);
    let mut recs = Vec::new();
    let mut crashed = None;
    for h in handles {
        match h.join() {
            Ok(r) => recs.extend(r),
            Err(p) => crashed = Some(simkit::panic_message(&p)),
        }
    }
    if let Some(msg) = crashed {
        return Err(simkit::panic_violation(&(Box::new(msg) as Box<dyn std::any::Any + Send>)));
    }
    Ok(recs)
}

// ------------------------------------------------------------------------------------------------
// Sequential / gated runner (native)
// ------------------------------------------------------------------------------------------------

type Job = Box<dyn FnOnce() + Send + 'static>;

struct TState {
    inst: Option<Inst>,
    next_seq: u32,
    /// Pinned (if the script says so) and own instance created.
    ready: bool,
}

struct Worker {
    tx: Option<Sender<Job>>,
    resume: Sender<()>,
    handle: Option<std::thread::JoinHandle<()>>,
    state: Arc<Mutex<TState>>,
}

struct SeqRun<'a> {
    sc: &'a RegionScenario,
    w: Arc<World>,
    workers: Vec<Worker>,
    rx: Receiver<Msg>,
    tx: Sender<Msg>,
    cursor: Vec<usize>,
    recs: Vec<Rec>,
    hung: bool,
    // exact model (only meaningful while no pause has run)
    exact: bool,
    count_exact: bool,
    m_latest: V,
    m_region: Vec<Option<V>>,
    m_calls: u32,
    pause_steps: u64,
    /// No worker threads: the calling thread impersonates each simulated thread by re-pinning
    /// itself before the operation (only without pauses; most `seq` scenarios, for throughput).
    inline: bool,
    inline_states: Vec<TState>,
    impersonating: Option<usize>,
}

impl<'a> SeqRun<'a> {
    fn new(sc: &'a RegionScenario, w: Arc<World>) -> Self {
        let (tx, rx) = channel::<Msg>();
        let mut workers = Vec::new();
        let inline = sc.inline && sc.pauses.is_empty();
        for t in 0..if inline { 0 } else { sc.threads.len() } {
            let (jtx, jrx) = channel::<Job>();
            let (rtx, rrx) = channel::<()>();
            let handle = std::thread::Builder::new()
                .name(format!("sim-{t}"))
                .spawn(move || {
                    MY_T.with(|c| c.set(t));
                    RESUME_RX.with(|r| *r.borrow_mut() = Some(rrx));
                    while let Ok(job) = jrx.recv() {
                        job();
                    }
                })
                .expect("spawn worker");
            workers.push(Worker {
                tx: Some(jtx),
                resume: rtx,
                handle: Some(handle),
                state: Arc::new(Mutex::new(TState {
                    inst: None,
                    next_seq: 0,
                    ready: false,
                })),
            });
        }
        let n = sc.region_ids.len();
        Self {
            sc,
            w,
            workers,
            rx,
            tx,
            cursor: vec![0; sc.threads.len()],
            recs: Vec::new(),
            hung: false,
            exact: true,
            count_exact: sc.threads.iter().all(|t| t.pin.is_some()),
            m_latest: INIT,
            m_region: vec![None; n],
            m_calls: 0,
            pause_steps: 0,
            inline,
            inline_states: (0..sc.threads.len())
                .map(|_| TState {
                    inst: None,
                    next_seq: 0,
                    ready: false,
                })
                .collect(),
            impersonating: None,
        }
    }

    fn wait(&mut self) -> Result<Msg, Violation> {
        #[cfg(miri)]
        let got = self.rx.recv().ok();
        #[cfg(not(miri))]
        let got = self.rx.recv_timeout(std::time::Duration::from_secs(20)).ok();
        match got {
            Some(m) => Ok(m),
            None => {
                self.hung = true;
                Err(Violation::new(
                    "hang",
                    "an operation did not complete within 20 s under a one-runner schedule",
                ))
            }
        }
    }

    /// Sends the next operation of thread `t` to its worker. Returns false if there is none.
    fn launch(&mut self, t: usize) -> bool {
        loop {
            let i = self.cursor[t];
            let Some(&op) = self.sc.threads[t].ops.get(i) else {
                return false;
            };
            self.cursor[t] += 1;
            if self.sc.skipped(t, op) {
                continue;
            }
            if self.inline {
                let spec = &self.sc.threads[t];
                if self.impersonating != Some(t) {
                    self.impersonating = Some(t);
                    match self.sc.pin_idx(t) {
                        Some(r) => self.w.pin(r, spec.whole),
                        None => self.w.all.pin_current_thread_to(),
                    }
                }
                let st = &mut self.inline_states[t];
                if !st.ready {
                    st.ready = true;
                    if spec.own {
                        st.inst = Some(self.w.target.fresh());
                    }
                }
                let rec = do_op(&self.w, st.inst.as_ref().unwrap_or(&self.w.target), t, i, op, &mut st.next_seq);
                let _ = self.tx.send(Msg::Done(t, rec));
                return true;
            }
            let w = Arc::clone(&self.w);
            let st = Arc::clone(&self.workers[t].state);
            let tx = self.tx.clone();
            let pin = self.sc.pin_idx(t);
            let whole = self.sc.threads[t].whole;
            let own = self.sc.threads[t].own;
            let job: Job = Box::new(move || {
                let r = catch_unwind(AssertUnwindSafe(|| {
                    let mut st = st.lock().unwrap();
                    if !st.ready {
                        st.ready = true;
                        if let Some(r) = pin {
                            w.pin(r, whole);
                        }
                        if own {
                            st.inst = Some(w.target.fresh());
                        }
                    }
                    let mut seq = st.next_seq;
                    let rec = do_op(&w, st.inst.as_ref().unwrap_or(&w.target), t, i, op, &mut seq);
                    st.next_seq = seq;
                    rec
                }));
                let _ = match r {
                    Ok(rec) => tx.send(Msg::Done(t, rec)),
                    Err(p) => tx.send(Msg::Crashed(simkit::panic_message(&p))),
                };
            });
            self.workers[t]
                .tx
                .as_ref()
                .expect("worker alive")
                .send(job)
                .expect("worker alive");
            return true;
        }
    }

    /// May the next operation of `u` run while `t` is parked inside a regional initialisation?
    fn eligible(&self, u: usize, t: usize) -> bool {
        if u == t {
            return false;
        }
        let Some(&op) = self.sc.threads[u].ops.get(self.cursor[u]) else {
            return false;
        };
        if self.sc.skipped(u, op) {
            return false;
        }
        let (ru, rt) = (self.sc.pin_idx(u), self.sc.pin_idx(t));
        if op.k == OpKind::Write {
            match self.sc.kind {
                Kind::Cached => self.sc.trigger_allowed,
                // `set_local` by a thread pinned elsewhere never touches the parked region.
                Kind::Local => match (ru, rt) {
                    (Some(a), Some(b)) if a != b => true,
                    _ => self.sc.trigger_allowed,
                },
            }
        } else {
            // A read in the parked region would wait for the parked initialiser (one runner: the
            // schedule would block), so only reads known to be elsewhere.
            matches!((ru, rt), (Some(a), Some(b)) if a != b)
        }
    }

    /// Runs one step of thread `t` to completion, servicing a pause if its seam invocation parks.
    fn step(&mut self, t: usize, upcoming: &mut Vec<(usize, bool)>) -> Result<(), Violation> {
        if !self.launch(t) {
            return Ok(());
        }
        loop {
            match self.wait()? {
                Msg::Done(u, rec) => {
                    debug_assert_eq!(u, t);
                    self.recs.push(rec);
                    if self.exact {
                        self.model_check(rec)?;
                    }
                    return Ok(());
                }
                Msg::Crashed(msg) => {
                    return Err(simkit::panic_violation(
                        &(Box::new(msg) as Box<dyn std::any::Any + Send>),
                    ));
                }
                Msg::Paused(u, k) => {
                    debug_assert_eq!(u, t);
                    let budget = self
                        .sc
                        .pauses
                        .iter()
                        .find(|p| p.call == k)
                        .map_or(0, |p| usize::from(p.run));
                    SEAM.pause_active.store(true, R);
                    let mut ran = 0;
                    for slot in upcoming.iter_mut() {
                        if ran >= budget {
                            break;
                        }
                        let (u2, done) = *slot;
                        if done || !self.eligible(u2, t) {
                            continue;
                        }
                        slot.1 = true;
                        self.exact = false;
                        if self.launch(u2) {
                            match self.wait()? {
                                Msg::Done(_, rec) => self.recs.push(rec),
                                Msg::Crashed(msg) => {
                                    return Err(simkit::panic_violation(
                                        &(Box::new(msg) as Box<dyn std::any::Any + Send>),
                                    ));
                                }
                                Msg::Paused(..) => unreachable!("no nested pause"),
                            }
                            ran += 1;
                            self.pause_steps += 1;
                        }
                    }
                    SEAM.pause_active.store(false, R);
                    let _ = self.workers[t].resume.send(());
                }
            }
        }
    }

    /// Exact sequential expectation for one completed operation.
    fn model_check(&mut self, rec: Rec) -> Result<(), Violation> {
        let kind = self.sc.kind;
        let tag = kind.tag();
        let r = self.sc.pin_idx(rec.t);
        let panics = |k: u32| self.sc.panic_calls.contains(&k) && k < 64;
        match rec.out {
            Out::Wrote(v) => match kind {
                Kind::Cached => {
                    self.m_latest = v;
                    self.m_region.fill(None);
                }
                Kind::Local => {
                    if let Some(r) = r {
                        self.m_region[r] = Some(v);
                    }
                }
            },
            Out::Read(_) | Out::Panicked => {
                let Some(r) = r else {
                    // Unpinned: the region is library entropy. Region-cached values agree in every
                    // region of a sequential history; region-local is not predicted.
                    self.count_exact = false;
                    if kind == Kind::Cached {
                        check!(
                            rec.out == Out::Read(self.m_latest) || (rec.out == Out::Panicked && !self.sc.panic_calls.is_empty()),
                            &format!("{tag}:seq-read-mismatch"),
                            "unpinned thread {} op {} returned {:?}, sequential model says {:?}",
                            rec.t, rec.i, rec.out, self.m_latest
                        );
                    }
                    return Ok(());
                };
                let mut expect = Out::Read(match kind {
                    Kind::Cached => self.m_latest,
                    Kind::Local => self.m_region[r].unwrap_or(INIT),
                });
                if self.m_region[r].is_none() {
                    let k = self.m_calls;
                    self.m_calls += 1;
                    if panics(k) {
                        expect = Out::Panicked;
                    } else {
                        self.m_region[r] = Some(match kind {
                            Kind::Cached => self.m_latest,
                            Kind::Local => INIT,
                        });
                    }
                }
                check!(
                    rec.out == expect,
                    &format!("{tag}:seq-read-mismatch"),
                    "thread {} (region index {r}) op {} returned {:?}, sequential model says {:?}",
                    rec.t, rec.i, rec.out, expect
                );
            }
        }
        if self.count_exact {
            let calls = SEAM.calls.load(R);
            check!(
                calls == self.m_calls,
                &format!("{tag}:seam-call-count"),
                "after thread {} op {}: {} seam invocations (clone / initialiser), model expects {} (regional copy not reused, or made without need)",
                rec.t, rec.i, calls, self.m_calls
            );
        }
        Ok(())
    }

    fn run(&mut self) -> Result<(), Violation> {
        let mut upcoming: Vec<(usize, bool)> = self
            .sc
            .order
            .iter()
            .map(|&t| (usize::from(t) % self.sc.threads.len(), false))
            .collect();
        // Whatever the order does not cover runs afterwards, thread by thread.
        for t in 0..self.sc.threads.len() {
            for _ in 0..self.sc.threads[t].ops.len() {
                upcoming.push((t, false));
            }
        }
        let mut pos = 0;
        while pos < upcoming.len() {
            let (t, done) = upcoming[pos];
            pos += 1;
            if done {
                continue;
            }
            let mut rest = upcoming.split_off(pos);
            let r = self.step(t, &mut rest);
            upcoming.append(&mut rest);
            r?;
        }
        Ok(())
    }

    fn finish(&mut self) {
        for wk in &mut self.workers {
            wk.tx = None;
            // Own instances are dropped on the main thread after the workers ended.
        }
        if self.hung {
            // A blocked worker cannot be joined; leak it (the run is already a violation).
            for wk in &mut self.workers {
                wk.handle.take();
            }
            return;
        }
        for wk in &mut self.workers {
            if let Some(h) = wk.handle.take() {
                let _ = h.join();
            }
        }
    }
}

// ------------------------------------------------------------------------------------------------
// Quiescent phase and oracles
// ------------------------------------------------------------------------------------------------

#[derive(Clone, Copy, Debug)]
struct QRead {
    /// Region index, `None` = unpinned.
    region: Option<usize>,
    own: bool,
    phase: u8,
    v: V,
}

/// After every script thread has been joined: reads from every region (pinned, through an own and
/// the shared instance) and unpinned; then one more write and the same reads again.
fn quiescent(sc: &RegionScenario, w: &World) -> (Vec<QRead>, usize) {
    seam_calm();
    let mut q = Vec::new();
    let n = sc.region_ids.len();
    for phase in 0..2_u8 {
        if phase == 0 && sc.unpinned_quiescent {
            // The main thread has not been pinned on this hardware yet.
            for _ in 0..(n + 1).min(4) {
                q.push(QRead {
                    region: None,
                    own: false,
                    phase,
                    v: w.target.read(false),
                });
            }
        }
        for r in 0..n {
            w.pin(r, false);
            // Alternate between an own instance (regional state cached in the instance) and the
            // shared one (region looked up per call); both per region when regions are few.
            let use_own = (r + usize::from(phase)) % 2 == 0;
            if use_own || n <= 2 {
                let own = w.target.fresh();
                q.push(QRead {
                    region: Some(r),
                    own: true,
                    phase,
                    v: own.read(r % 2 == 0),
                });
            }
            if !use_own || n <= 2 {
                q.push(QRead {
                    region: Some(r),
                    own: false,
                    phase,
                    v: w.target.read(r % 2 == 1),
                });
            }
        }
        if phase == 0 {
            // Main thread is pinned to the last region now.
            w.target.fresh().write((FINAL_WRITER, 1));
        }
    }
    (q, n - 1)
}

struct Verdict {
    nontrivial: bool,
}

#[allow(clippy::too_many_lines, reason = "one oracle, read top to bottom")]
fn evaluate(
    sc: &RegionScenario,
    recs: &[Rec],
    q: &[QRead],
    final_region: usize,
    ctx: &mut Ctx,
) -> Result<Verdict, Violation> {
    let tag = sc.kind.tag();
    let cls = |name: &str| format!("{tag}:{name}");
    let writes: Vec<&Rec> = recs.iter().filter(|r| matches!(r.out, Out::Wrote(_))).collect();
    let find = |v: V| writes.iter().copied().find(|r| r.out == Out::Wrote(v));
    let writer_region = |v: V| -> Option<usize> {
        let t = usize::from(v.0).checked_sub(1)?;
        if t < sc.threads.len() { sc.pin_idx(t) } else { None }
    };

    for t in 0..sc.threads.len() {
        let pin = sc.pin_idx(t);
        let mut mine: Vec<&Rec> = recs.iter().filter(|r| r.t == t).collect();
        mine.sort_by_key(|r| r.inv);
        let mut last_own: Option<&Rec> = None;
        let mut seen: Vec<u32> = vec![0; 256];
        let mut seen_write = false;
        let mut panicked = false;
        let mut regions_seen: Vec<usize> = Vec::new();
        for rec in mine {
            match rec.out {
                Out::Wrote(_) => last_own = Some(rec),
                Out::Panicked => panicked = true,
                Out::Read(v) => {
                    if panicked {
                        ctx.probe("read-after-injected-panic-ok");
                    }
                    let src = if v == INIT {
                        None
                    } else {
                        let Some(wr) = find(v) else {
                            return Err(Violation::new(
                                &cls("value-from-nowhere"),
                                format!("thread {t} op {} read {v:?}, which nobody wrote", rec.i),
                            ));
                        };
                        check!(
                            wr.inv < rec.ret,
                            &cls("read-from-the-future"),
                            "thread {t} op {} returned {v:?} at stamp {} but that write was invoked at {}",
                            rec.i, rec.ret, wr.inv
                        );
                        Some(wr)
                    };
                    if sc.kind == Kind::Local && v != INIT {
                        let wr = writer_region(v);
                        if let (Some(a), Some(b)) = (pin, wr) {
                            check!(
                                a == b,
                                &cls("value-crossed-regions"),
                                "thread {t} pinned to region index {a} read {v:?}, written in region index {b}"
                            );
                        }
                        if let (None, Some(b)) = (pin, wr) {
                            if !regions_seen.contains(&b) {
                                regions_seen.push(b);
                            }
                        }
                    }
                    // Own-write visibility (region-pinned threads).
                    if let (Some(_), Some(own)) = (pin, last_own) {
                        let Out::Wrote(ov) = own.out else { unreachable!() };
                        if v == ov {
                            ctx.probe("own-write-read-back");
                        } else {
                            let foreign_ok = match src {
                                Some(wr) if wr.t != t => wr.ret >= own.inv,
                                _ => false,
                            };
                            check!(
                                foreign_ok,
                                &cls("own-write-not-visible"),
                                "thread {t} (pinned) wrote {ov:?} (stamps {}..{}), then op {} (stamps {}..{}) read {v:?}{}",
                                own.inv, own.ret, rec.i, rec.inv, rec.ret,
                                match src {
                                    Some(wr) if wr.t != t => format!(", a foreign write that had returned at {} before the own write was invoked", wr.ret),
                                    Some(_) => ", an older own write".to_owned(),
                                    None => ", the initial value".to_owned(),
                                }
                            );
                            ctx.probe("foreign-write-intervened");
                        }
                    }
                    // Per-writer order.
                    if pin.is_some() {
                        if v == INIT {
                            check!(
                                !seen_write,
                                &cls("init-after-write"),
                                "thread {t} (pinned) op {} read the initial value after it had already read a written value",
                                rec.i
                            );
                        } else {
                            let s = &mut seen[usize::from(v.0)];
                            check!(
                                v.1 >= *s,
                                &cls("writer-seq-decreased"),
                                "thread {t} (pinned) op {} read {v:?} after having read seq {} of the same writer",
                                rec.i, *s
                            );
                            *s = v.1;
                            seen_write = true;
                        }
                    } else if v != INIT {
                        let newer = writes.iter().find(|w2| {
                            matches!(w2.out, Out::Wrote(x) if x.0 == v.0 && x.1 > v.1) && w2.ret < rec.inv
                        });
                        check!(
                            newer.is_none(),
                            &cls("overwritten-value-of-same-writer-read"),
                            "thread {t} (unpinned) op {} (invoked at {}) read {v:?} although {:?} of the same writer had returned at {}",
                            rec.i, rec.inv, newer.map(|w2| w2.out), newer.map_or(0, |w2| w2.ret)
                        );
                    }
                    // Not part of the property (weakly consistent): counted only.
                    if sc.kind == Kind::Cached {
                        let src_ret = src.map_or(0, |wr| wr.ret);
                        if writes.iter().any(|w2| w2.inv > src_ret && w2.ret < rec.inv && Some(w2.inv) != src.map(|s| s.inv)) {
                            ctx.probe("read-of-value-overwritten-before-read-began");
                        }
                    }
                }
            }
        }
        if regions_seen.len() > 1 {
            ctx.probe("unpinned-reader-saw-several-regions");
        }
    }

    // ---- quiescent phase -----------------------------------------------------------------------
    let finals = |ws: &[&Rec]| -> Vec<V> {
        if ws.is_empty() {
            return vec![INIT];
        }
        ws.iter()
            .filter(|w1| !ws.iter().any(|w2| w2.inv > w1.ret))
            .map(|w1| match w1.out {
                Out::Wrote(v) => v,
                _ => unreachable!(),
            })
            .collect()
    };
    let n = sc.region_ids.len();
    match sc.kind {
        Kind::Cached => {
            let f = finals(&writes);
            let mut first: Option<V> = None;
            for r in q.iter().filter(|r| r.phase == 0) {
                check!(
                    f.contains(&r.v),
                    &cls("stale-after-quiescence"),
                    "every thread joined, yet a {} read in region index {:?} returns {:?}; last written value(s) {f:?}",
                    if r.region.is_some() { "pinned" } else { "unpinned" }, r.region, r.v
                );
                check!(
                    first.is_none_or(|x| x == r.v),
                    &cls("quiescent-regions-disagree"),
                    "quiescent reads disagree: {:?} and {:?} (region index {:?})",
                    first, r.v, r.region
                );
                first = Some(r.v);
            }
            for r in q.iter().filter(|r| r.phase == 1) {
                check!(
                    r.v == (FINAL_WRITER, 1),
                    &cls("final-write-not-visible"),
                    "after a further write region index {:?} returns {:?}",
                    r.region, r.v
                );
            }
        }
        Kind::Local => {
            let mut per: Vec<Vec<V>> = Vec::new();
            for r in 0..n {
                let ws: Vec<&Rec> = writes
                    .iter()
                    .copied()
                    .filter(|w1| sc.pin_idx(w1.t) == Some(r))
                    .collect();
                per.push(finals(&ws));
            }
            let mut phase0: Vec<Option<V>> = vec![None; n];
            for qr in q.iter().filter(|r| r.phase == 0) {
                match qr.region {
                    Some(r) => {
                        check!(
                            per[r].contains(&qr.v),
                            &cls("stale-after-quiescence"),
                            "every thread joined, yet region index {r} returns {:?}; last value(s) written in that region {:?}",
                            qr.v, per[r]
                        );
                        check!(
                            phase0[r].is_none_or(|x| x == qr.v),
                            &cls("quiescent-regions-disagree"),
                            "two quiescent reads of region index {r} disagree: {:?} and {:?}",
                            phase0[r], qr.v
                        );
                        phase0[r] = Some(qr.v);
                    }
                    None => check!(
                        per.iter().any(|f| f.contains(&qr.v)),
                        &cls("stale-after-quiescence"),
                        "every thread joined, yet an unpinned read returns {:?}, the final value of no region ({per:?})",
                        qr.v
                    ),
                }
            }
            for qr in q.iter().filter(|r| r.phase == 1) {
                let Some(r) = qr.region else { continue };
                if r == final_region {
                    check!(
                        qr.v == (FINAL_WRITER, 1),
                        &cls("final-write-not-visible"),
                        "after a further write in region index {r} it returns {:?}",
                        qr.v
                    );
                } else {
                    check!(
                        Some(qr.v) == phase0[r],
                        &cls("write-leaked-across-regions"),
                        "a write in region index {final_region} changed region index {r}: {:?} -> {:?}",
                        phase0[r], qr.v
                    );
                }
            }
        }
    }
    ctx.probe_n("quiescent-reads", q.len() as u64);

    // ---- non-triviality and probes -------------------------------------------------------------
    let mut rw = false;
    let mut rr = false;
    let mut ww = false;
    for a in recs {
        for b in recs {
            if a.t < b.t && a.inv < b.ret && b.inv < a.ret {
                match (a.k == OpKind::Write, b.k == OpKind::Write) {
                    (true, true) => ww = true,
                    (false, false) => rr = true,
                    _ => rw = true,
                }
            }
        }
    }
    if rw {
        ctx.probe("read-overlapped-write");
    }
    if rr {
        ctx.probe("reads-overlapped");
    }
    if ww {
        ctx.probe("writes-overlapped");
    }
    if SEAM.raced.load(R) > 0 {
        ctx.probe("initialiser-raced-writer");
    }
    let fired = SEAM.fired.load(R);
    for _ in 0..fired {
        ctx.fault("panic_in_clone");
    }
    let observed_write = recs.iter().any(|r| matches!(r.out, Out::Read(v) if v != INIT));
    let nontrivial = if sc.concurrent {
        if sc.exclusive { rr || ww } else { rw }
    } else if sc.pauses.is_empty() {
        observed_write || fired > 0
    } else {
        rw
    };
    Ok(Verdict { nontrivial })
}

// ------------------------------------------------------------------------------------------------
// Scenario impl
// ------------------------------------------------------------------------------------------------

impl Scenario for RegionScenario {
    fn generate(rng: &mut Rng, mode: &str) -> Self {
        generate(rng, mode)
    }

    fn run(&self, ctx: &mut Ctx) -> Result<bool, Violation> {
        if self.threads.is_empty() || self.region_ids.is_empty() {
            return Ok(false);
        }
        seam_reset(self);
        let w = self.new_world();
        ctx.event(hash_str(&format!("{:?}{:?}{:?}", self.kind, self.region_ids, self.procs)), || {
            format!("cfg: {:?} region ids {:?} procs {:?} exclusive={} threads {:?}", self.kind, self.region_ids, self.procs,
                self.exclusive, self.threads.iter().map(|t| (t.pin, t.own)).collect::<Vec<_>>())
        });
        if self.threads.iter().any(|t| t.pin.is_none()) {
            ctx.fault("unpinned-thread");
        }
        let mut pause_steps = 0;
        let run_result = if self.concurrent {
            run_concurrent(self, &w)
        } else {
            *GATE.lock().unwrap() = None;
            let mut sr = SeqRun::new(self, Arc::clone(&w));
            *GATE.lock().unwrap() = Some((sr.tx.clone(), self.pauses.iter().map(|p| p.call).collect()));
            let r = sr.run();
            *GATE.lock().unwrap() = None;
            sr.finish();
            pause_steps = sr.pause_steps;
            let recs = std::mem::take(&mut sr.recs);
            match r {
                Ok(()) => Ok(recs),
                Err(v) => {
                    log_events(&recs, ctx);
                    Err(v)
                }
            }
        };
        let recs = run_result?;
        log_events(&recs, ctx);
        if pause_steps > 0 {
            ctx.probe_n("steps-run-inside-parked-initialiser", pause_steps);
        }
        let (q, final_region) = quiescent(self, &w);
        for r in &q {
            ctx.event(mix(u64::from(r.v.0), u64::from(r.v.1)), || {
                format!("q{}: region index {:?} {} -> {:?}", r.phase, r.region, if r.own { "own" } else { "shared" }, r.v)
            });
        }
        let verdict = evaluate(self, &recs, &q, final_region, ctx)?;
        Ok(verdict.nontrivial)
    }

    fn shrink(&self) -> Vec<Self> {
        let mut out = Vec::new();
        // Drop a thread.
        if self.threads.len() > 1 {
            for t in 0..self.threads.len() {
                let mut c = self.clone();
                c.threads.remove(t);
                c.order = self
                    .order
                    .iter()
                    .filter(|&&x| usize::from(x) != t)
                    .map(|&x| if usize::from(x) > t { x - 1 } else { x })
                    .collect();
                out.push(c);
            }
        }
        // Drop operations.
        for t in 0..self.threads.len() {
            for ops in simkit::shrink::remove_chunks(&self.threads[t].ops) {
                let mut c = self.clone();
                c.threads[t].ops = ops;
                out.push(c);
            }
        }
        if !self.panic_calls.is_empty() {
            for i in 0..self.panic_calls.len() {
                let mut c = self.clone();
                c.panic_calls.remove(i);
                out.push(c);
            }
        }
        if !self.pauses.is_empty() {
            for i in 0..self.pauses.len() {
                let mut c = self.clone();
                c.pauses.remove(i);
                out.push(c);
            }
        }
        if self.region_ids.len() > 1 {
            let mut c = self.clone();
            c.region_ids.pop();
            c.procs.truncate(c.region_ids.len());
            let n = c.region_ids.len() as u8;
            for t in &mut c.threads {
                t.pin = t.pin.map(|p| p % n);
            }
            out.push(c);
        }
        if self.procs.iter().any(|&p| p > 1) {
            let mut c = self.clone();
            c.procs.iter_mut().for_each(|p| *p = 1);
            out.push(c);
        }
        if self.seam_yields.iter().any(|&y| y > 0) && !self.concurrent {
            let mut c = self.clone();
            c.seam_yields.iter_mut().for_each(|y| *y = 0);
            out.push(c);
        }
        if self.threads.iter().any(|t| t.ops.iter().any(|o| o.pre > 0)) && !self.concurrent {
            let mut c = self.clone();
            for t in &mut c.threads {
                for o in &mut t.ops {
                    o.pre = 0;
                }
            }
            out.push(c);
        }
        if self.order.len() > 1 {
            let mut c = self.clone();
            c.order.truncate(self.order.len() / 2);
            out.push(c);
        }
        out.retain(|c| c.size() < self.size());
        out
    }

    fn size(&self) -> usize {
        self.threads.len() * 4
            + self.threads.iter().map(|t| t.ops.len() * 3).sum::<usize>()
            + self.threads.iter().flat_map(|t| t.ops.iter()).filter(|o| o.pre > 0).count()
            + self.panic_calls.len() * 2
            + self.pauses.len() * 2
            + self.region_ids.len()
            + self.procs.iter().map(|&p| usize::from(p)).sum::<usize>()
            + self.seam_yields.iter().filter(|&&y| y > 0).count()
            + self.order.len()
    }
}

/// Harness-level interleaving: invocation and return of every operation in stamp order.
fn log_events(recs: &[Rec], ctx: &mut Ctx) {
    let mut evs: Vec<(u64, u64, String)> = Vec::new();
    for r in recs {
        let name = match r.k {
            OpKind::Write => "write",
            OpKind::With => "with",
            OpKind::Get => "get",
        };
        evs.push((r.inv, mix(r.t as u64, r.i as u64), format!("@{} t{} op{} {name} invoked", r.inv, r.t, r.i)));
        let oc = match r.out {
            Out::Wrote(v) | Out::Read(v) => mix(u64::from(v.0), u64::from(v.1)),
            Out::Panicked => 0xdead,
        };
        evs.push((r.ret, mix(mix(r.t as u64, r.i as u64), oc), format!("@{} t{} op{} {name} -> {:?}", r.ret, r.t, r.i, r.out)));
    }
    evs.sort_by_key(|e| e.0);
    for (_, code, text) in evs {
        ctx.event(code, || text);
    }
}

// ------------------------------------------------------------------------------------------------
// Generators
// ------------------------------------------------------------------------------------------------

fn gen_topology(rng: &mut Rng, small: bool) -> (Vec<u8>, Vec<u8>) {
    let n = if small {
        [1, 1, 2, 2, 2, 2, 3, 3, 4, 4, 5, 8][rng.below_usize(12)]
    } else {
        [1, 2, 2, 3, 3, 4, 5, 6, 7, 8][rng.below_usize(10)]
    };
    let ids: Vec<u8> = if rng.chance(2, 3) {
        (0..n as u8).collect()
    } else {
        let mut pool: Vec<u8> = (0..12).collect();
        rng.shuffle(&mut pool);
        let mut v: Vec<u8> = pool.into_iter().take(n).collect();
        v.sort_unstable();
        v
    };
    let procs = (0..n).map(|_| if small { [1, 1, 2][rng.below_usize(3)] } else { rng.range(1, 2) as u8 }).collect();
    (ids, procs)
}

fn gen_ops(rng: &mut Rng, n: usize, writer_bias: bool, can_write: bool, max_pre: u64) -> Vec<Op> {
    (0..n)
        .map(|_| {
            let k = if can_write && rng.chance(if writer_bias { 3 } else { 1 }, 5) {
                OpKind::Write
            } else if rng.bool() {
                OpKind::With
            } else {
                OpKind::Get
            };
            Op {
                k,
                pre: rng.range(0, max_pre) as u8,
            }
        })
        .collect()
}

#[allow(clippy::fn_params_excessive_bools, reason = "generator knobs")]
fn gen_general(rng: &mut Rng, concurrent: bool, faulty: bool, gated: bool, respect_avoid: bool) -> RegionScenario {
    let kind = if rng.chance(3, 5) { Kind::Cached } else { Kind::Local };
    let (region_ids, procs) = gen_topology(rng, concurrent);
    let n = region_ids.len() as u64;
    let nthreads = if concurrent { [2, 2, 3, 3, 4][rng.below_usize(5)] } else { rng.range_usize(2, 4) };
    let mut threads: Vec<ThreadSpec> = Vec::new();
    for t in 0..nthreads {
        let pin = if faulty && !gated && (concurrent || kind == Kind::Cached) && rng.chance(1, 3) {
            None
        } else if t > 0 && rng.chance(3, 5) {
            // Share a region with an earlier thread: that is where initialisers and writers meet.
            threads[rng.below_usize(t)].pin.or(Some(rng.below(n) as u8))
        } else {
            Some(rng.below(n) as u8)
        };
        let can_write = !(kind == Kind::Local && pin.is_none());
        let nops = if concurrent { rng.range_usize(1, 4) } else { rng.range_usize(1, 8) };
        let bias = rng.bool();
        let ops = gen_ops(rng, nops, bias, can_write, if concurrent { 6 } else { 0 });
        threads.push(ThreadSpec {
            pin,
            whole: rng.chance(1, if concurrent { 6 } else { 2 }),
            own: rng.chance(2, 3),
            ops,
        });
    }
    // Storm shape (a third of the concurrent scenarios): everybody in one or two regions, writers
    // write back to back, readers read back to back with hardly any stagger — every write
    // invalidates, so every read re-initialises and many initialiser attempts meet many writes at
    // all points of the protocol, also the few instructions outside the Clone seam.
    let storm = concurrent && rng.chance(1, 3);
    if storm {
        let r0 = threads[0].pin.unwrap_or(0);
        for (t, th) in threads.iter_mut().enumerate() {
            if th.pin.is_some() {
                th.pin = Some(if rng.chance(3, 4) { r0 } else { rng.below(n) as u8 });
            }
            let writer = t % 2 == 1 && !(kind == Kind::Local && th.pin.is_none());
            let nops = rng.range_usize(3, 4);
            th.ops = (0..nops)
                .map(|_| Op {
                    k: if writer && rng.chance(4, 5) {
                        OpKind::Write
                    } else if rng.bool() {
                        OpKind::With
                    } else {
                        OpKind::Get
                    },
                    pre: rng.range(0, 1) as u8,
                })
                .collect();
        }
    }
    let total: usize = threads.iter().map(|t| t.ops.len()).sum();
    let mut order: Vec<u8> = Vec::new();
    if !concurrent {
        for (t, th) in threads.iter().enumerate() {
            order.extend(std::iter::repeat_n(t as u8, th.ops.len()));
        }
        rng.shuffle(&mut order);
    }
    // Panics only where the sequential model can place them (all threads pinned) or anywhere
    // when threads run concurrently.
    let all_pinned = threads.iter().all(|t| t.pin.is_some());
    let panic_calls = if faulty && (concurrent || all_pinned) && rng.chance(2, 3) {
        let mut v: Vec<u32> = (0..rng.range(1, 2)).map(|_| rng.below(5) as u32).collect();
        v.sort_unstable();
        v.dedup();
        v
    } else {
        Vec::new()
    };
    let seam_yields = if concurrent {
        let hi = if storm { 2 } else { 7 };
        (0..8).map(|_| rng.range(0, hi) as u8).collect()
    } else {
        vec![0; 8]
    };
    let pauses = if gated {
        let mut calls: Vec<u32> = (0..rng.range(1, 3)).map(|_| rng.below((total as u64).clamp(1, 5)) as u32).collect();
        calls.sort_unstable();
        calls.dedup();
        calls
            .into_iter()
            .map(|call| Pause {
                call,
                run: rng.range(1, 3) as u8,
            })
            .collect()
    } else {
        Vec::new()
    };
    let key = match kind {
        Kind::Cached => K_CACHED,
        Kind::Local => K_LOCAL,
    };
    let avoiding = respect_avoid && avoid(key);
    RegionScenario {
        concurrent,
        kind,
        region_ids,
        procs,
        threads,
        order,
        pauses,
        panic_calls,
        seam_yields,
        exclusive: concurrent && avoiding,
        trigger_allowed: !avoiding,
        inline: !concurrent && !gated && rng.chance(63, 64),
        unpinned_quiescent: concurrent || kind == Kind::Cached,
    }
}

/// Directed: a read that initialises a region parks inside the seam (Clone of the latest value /
/// region-local initialiser), a write hitting that region completes meanwhile, the read resumes.
fn gen_known(rng: &mut Rng, kind: Kind) -> RegionScenario {
    let (region_ids, procs) = gen_topology(rng, true);
    let n = region_ids.len() as u64;
    let a = rng.below(n) as u8;
    let reader = ThreadSpec {
        pin: Some(a),
        whole: rng.bool(),
        own: rng.bool(),
        ops: vec![
            Op { k: if rng.bool() { OpKind::With } else { OpKind::Get }, pre: 0 },
            Op { k: OpKind::With, pre: 0 },
        ],
    };
    let wpin = match kind {
        Kind::Local => Some(a),
        Kind::Cached => match rng.below(3) {
            0 => Some(a),
            1 => Some(rng.below(n) as u8),
            _ => None,
        },
    };
    let mut wops = vec![Op { k: OpKind::Write, pre: 0 }];
    if rng.bool() {
        wops.push(Op { k: OpKind::Get, pre: 0 });
    }
    let writer = ThreadSpec {
        pin: wpin,
        whole: rng.bool(),
        own: rng.bool(),
        ops: wops,
    };
    RegionScenario {
        concurrent: false,
        kind,
        region_ids,
        procs,
        threads: vec![reader, writer],
        order: vec![0, 1, 0, 1],
        pauses: vec![Pause { call: 0, run: 1 }],
        panic_calls: Vec::new(),
        seam_yields: vec![0; 8],
        exclusive: false,
        trigger_allowed: true,
        inline: false,
        unpinned_quiescent: kind == Kind::Cached,
    }
}

fn generate(rng: &mut Rng, mode: &str) -> RegionScenario {
    match mode {
        "mt" => gen_general(rng, true, false, false, true),
        "mt-faulty" => gen_general(rng, true, true, false, true),
        "mt-full" => gen_general(rng, true, false, false, false),
        "mt-full-faulty" => gen_general(rng, true, true, false, false),
        "seq" => gen_general(rng, false, false, false, true),
        "seq-faulty" => gen_general(rng, false, true, false, true),
        "gated" => gen_general(rng, false, false, true, true),
        "gated-faulty" => gen_general(rng, false, true, true, true),
        "gated-full" => {
            let faulty = rng.bool();
            gen_general(rng, false, faulty, true, false)
        }
        "known-c13-stale-region-after-racing-write" => gen_known(rng, Kind::Cached),
        "known-c13-local-write-lost-to-racing-init" => gen_known(rng, Kind::Local),
        other => panic!("unknown mode {other}"),
    }
}

fn main() {
    simkit::cli_main(
        "h_region",
        vec![
            entry::<RegionScenario>("C13", "mt", "2–4 concurrent pinned threads (Miri), no faults; reads serialised against writes while AVOID_KNOWN lists the racing-write defects").isolated(),
            entry::<RegionScenario>("C13", "mt-faulty", "as mt plus panic_in_clone / panicking region-local initialiser and unpinned (migrating) threads").isolated(),
            entry::<RegionScenario>("C13", "mt-full", "mt without the avoid-known restriction (reads overlap writes)").isolated(),
            entry::<RegionScenario>("C13", "mt-full-faulty", "mt-faulty without the avoid-known restriction").isolated(),
            entry::<RegionScenario>("C13", "seq", "native: PRNG-chosen total order of the scripts on per-thread workers, exact sequential model incl. seam-call counts").isolated(),
            entry::<RegionScenario>("C13", "seq-faulty", "seq plus injected seam panics (all threads pinned) or unpinned threads").isolated(),
            entry::<RegionScenario>("C13", "gated", "native: seam invocations park their thread while other threads' operations run (deterministic sub-operation schedules)").isolated(),
            entry::<RegionScenario>("C13", "gated-faulty", "gated plus injected seam panics").isolated(),
            entry::<RegionScenario>("C13", "gated-full", "gated without the avoid-known restriction: writes land inside a parked initialiser").isolated(),
            entry::<RegionScenario>("C13", "known-c13-stale-region-after-racing-write", "directed: set_global completes between an initialiser's load of the latest value and its store of the regional copy").isolated(),
            entry::<RegionScenario>("C13", "known-c13-local-write-lost-to-racing-init", "directed: set_local completes while the first initialisation of that region is in progress").isolated(),
        ],
    )
}
