//! Operation-granular thread coordinator: N real OS threads (the code under test keys state by
//! `ThreadId` / `thread_local!` and has `!Send` types), each parked on its own mailbox. The
//! simulator hands one closure to one thread and waits for its acknowledgement before choosing
//! again, so exactly one simulated thread runs at any instant and the schedule is whatever the
//! PRNG-driven caller decides. Under Miri the same code runs with the interpreter's threads.

use std::panic::{AssertUnwindSafe, catch_unwind};
use std::sync::mpsc::{Receiver, RecvTimeoutError, Sender, channel};
use std::thread::JoinHandle;
use std::time::Duration;

type Job = Box<dyn FnOnce() + Send + 'static>;

pub struct SimThread {
    tx: Option<Sender<Job>>,
    handle: Option<JoinHandle<()>>,
    pub name: String,
    blocked: std::sync::atomic::AtomicBool,
}

/// Why an operation did not complete normally.
#[derive(Debug)]
pub enum ExecError {
    /// The operation panicked; the message is attached. The simulated thread stays usable.
    Panicked(String),
    /// No acknowledgement within the bound while nothing else was running: blocked.
    Blocked,
    /// The thread is gone.
    Dead,
}

pub struct Coordinator {
    threads: Vec<SimThread>,
    /// Wall-clock bound for one operation (native only). With a single runner a hang is a property
    /// of the schedule, not of timing.
    pub op_timeout: Duration,
}

impl Coordinator {
    #[must_use]
    pub fn new(n: usize) -> Self {
        let mut c = Self {
            threads: Vec::new(),
            op_timeout: Duration::from_secs(30),
        };
        for _ in 0..n {
            c.spawn();
        }
        c
    }

    /// Starts one more simulated thread and returns its index.
    pub fn spawn(&mut self) -> usize {
        let idx = self.threads.len();
        let (tx, rx): (Sender<Job>, Receiver<Job>) = channel();
        let name = format!("sim-{idx}");
        let handle = std::thread::Builder::new()
            .name(name.clone())
            .spawn(move || {
                while let Ok(job) = rx.recv() {
                    job();
                }
            })
            .expect("spawn simulated thread");
        self.threads.push(SimThread {
            tx: Some(tx),
            handle: Some(handle),
            name,
            blocked: std::sync::atomic::AtomicBool::new(false),
        });
        idx
    }

    #[must_use]
    pub fn len(&self) -> usize {
        self.threads.len()
    }

    #[must_use]
    pub fn is_empty(&self) -> bool {
        self.threads.is_empty()
    }

    #[must_use]
    pub fn is_alive(&self, t: usize) -> bool {
        self.threads[t].tx.is_some()
    }

    /// Runs `f` on simulated thread `t` and waits for it to finish.
    pub fn exec<R: Send + 'static>(
        &self,
        t: usize,
        f: impl FnOnce() -> R + Send + 'static,
    ) -> Result<R, ExecError> {
        let Some(tx) = self.threads[t].tx.as_ref() else {
            return Err(ExecError::Dead);
        };
        let (rtx, rrx) = channel::<Result<R, String>>();
        let job: Job = Box::new(move || {
            let r = catch_unwind(AssertUnwindSafe(f))
                .map_err(|p| crate::scenario::panic_message(&p));
            let _ = rtx.send(r);
        });
        if tx.send(job).is_err() {
            return Err(ExecError::Dead);
        }
        #[cfg(miri)]
        let got = rrx.recv().map_err(|_| RecvTimeoutError::Disconnected);
        #[cfg(not(miri))]
        let got = rrx.recv_timeout(self.op_timeout);
        match got {
            Ok(Ok(r)) => Ok(r),
            Ok(Err(msg)) => Err(ExecError::Panicked(msg)),
            Err(RecvTimeoutError::Timeout) => {
                self.threads[t]
                    .blocked
                    .store(true, std::sync::atomic::Ordering::Relaxed);
                Err(ExecError::Blocked)
            }
            Err(RecvTimeoutError::Disconnected) => Err(ExecError::Dead),
        }
    }

    /// Lets simulated thread `t` run to its end (thread-local destructors run) and joins it.
    pub fn exit_thread(&mut self, t: usize) -> Result<(), ExecError> {
        let th = &mut self.threads[t];
        th.tx = None;
        if th.blocked.load(std::sync::atomic::Ordering::Relaxed) {
            return Err(ExecError::Blocked);
        }
        if let Some(h) = th.handle.take() {
            h.join().map_err(|p| ExecError::Panicked(crate::scenario::panic_message(&p)))?;
        }
        Ok(())
    }

    /// Joins every remaining thread.
    pub fn shutdown(&mut self) {
        for t in 0..self.threads.len() {
            let _ = self.exit_thread(t);
        }
    }
}

impl Drop for Coordinator {
    fn drop(&mut self) {
        for th in &mut self.threads {
            th.tx = None;
        }
        for th in &mut self.threads {
            if let Some(h) = th.handle.take() {
                // A blocked thread cannot be joined; leak it (the run is already a violation).
                if !th.blocked.load(std::sync::atomic::Ordering::Relaxed) {
                    let _ = h.join();
                }
            }
        }
    }
}
