//! Helpers for `Scenario::shrink`: delta-debugging candidates over a list.

/// Candidates obtained by deleting chunks of `items`: halves first, then quarters, …, then single
/// elements (capped so that very long lists do not produce thousands of single-element candidates
/// before the coarse ones have been tried — the minimiser restarts after every success).
#[must_use]
pub fn remove_chunks<T: Clone>(items: &[T]) -> Vec<Vec<T>> {
    let n = items.len();
    let mut out = Vec::new();
    if n == 0 {
        return out;
    }
    let mut chunk = n.div_ceil(2);
    loop {
        let mut start = 0;
        while start < n {
            let end = (start + chunk).min(n);
            let mut v = Vec::with_capacity(n - (end - start));
            v.extend_from_slice(&items[..start]);
            v.extend_from_slice(&items[end..]);
            out.push(v);
            start = end;
        }
        if chunk == 1 {
            break;
        }
        chunk = chunk.div_ceil(2);
        if chunk == 1 && n > 400 {
            break;
        }
    }
    out
}

/// Candidates obtained by replacing one element by a simpler one.
pub fn simplify_each<T: Clone>(items: &[T], simpler: impl Fn(&T) -> Vec<T>) -> Vec<Vec<T>> {
    let mut out = Vec::new();
    for (i, it) in items.iter().enumerate() {
        for s in simpler(it) {
            let mut v = items.to_vec();
            v[i] = s;
            out.push(v);
        }
    }
    out
}

#[cfg(test)]
mod tests {
    use super::*;

    #[test]
    fn chunks_shrink() {
        let v: Vec<u32> = (0..10).collect();
        let c = remove_chunks(&v);
        assert!(c.iter().all(|x| x.len() < v.len()));
        assert!(c.iter().any(|x| x.len() == 9));
        assert_eq!(c[0], vec![5, 6, 7, 8, 9]);
    }
}
