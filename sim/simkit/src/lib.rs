//! simkit — the shared core of the deterministic-simulation harnesses for folo-rs/folo.
//! See /verif/DESIGN.md §2.1.

pub mod coord;
pub mod ctx;
pub mod lin;
pub mod rng;
pub mod scenario;
pub mod shrink;

pub use ctx::{Ctx, Violation};
pub use rng::{Rng, hash_bytes, hash_str, mix};
pub use scenario::{Entry, Family, ReplayFile, Scenario, cli_main, entry, panic_message, panic_violation};
