//! Per-run context: event log (hashed always, kept as text only when asked), probes, fired-fault
//! counters, step counter. Logging never draws from a PRNG and never reads a clock.

use std::collections::BTreeMap;

use crate::rng::mix;

#[derive(Debug, Default)]
pub struct Ctx {
    pub probes: BTreeMap<String, u64>,
    pub faults: BTreeMap<String, u64>,
    /// Operations executed + scheduler decisions taken ("simulated time": there is no clock).
    pub steps: u64,
    /// Text of the event log; only filled when `keep_log` is set (replay, samples).
    pub log: Vec<String>,
    pub keep_log: bool,
    /// Order-sensitive hash of every event of this run (harness-level interleaving measure).
    pub trace_hash: u64,
}

impl Ctx {
    #[must_use]
    pub fn new(keep_log: bool) -> Self {
        Self {
            keep_log,
            ..Self::default()
        }
    }

    /// Counts a "this branch / rare condition was reached" probe.
    pub fn probe(&mut self, name: &str) {
        self.probe_n(name, 1);
    }

    pub fn probe_n(&mut self, name: &str, n: u64) {
        if let Some(v) = self.probes.get_mut(name) {
            *v += n;
        } else {
            self.probes.insert(name.to_owned(), n);
        }
    }

    /// Counts a fault that actually fired (not merely one that was configured).
    pub fn fault(&mut self, name: &str) {
        if let Some(v) = self.faults.get_mut(name) {
            *v += 1;
        } else {
            self.faults.insert(name.to_owned(), 1);
        }
    }

    /// Records one harness-level event. `code` is mixed into the trace hash; the text is only
    /// rendered when the log is kept.
    #[inline]
    pub fn event(&mut self, code: u64, text: impl FnOnce() -> String) {
        self.steps += 1;
        self.trace_hash = mix(self.trace_hash, code);
        if self.keep_log {
            self.log.push(text());
        }
    }

    /// Convenience: an event whose hash code is derived from its text.
    pub fn event_str(&mut self, text: &str) {
        self.steps += 1;
        self.trace_hash = mix(self.trace_hash, crate::rng::hash_str(text));
        if self.keep_log {
            self.log.push(text.to_owned());
        }
    }

    /// Merges counters of another context (used when a run is made of sub-runs or threads).
    pub fn absorb_counts(&mut self, other: &Ctx) {
        for (k, v) in &other.probes {
            self.probe_n(k, *v);
        }
        for (k, v) in &other.faults {
            *self.faults.entry(k.clone()).or_insert(0) += *v;
        }
        self.steps += other.steps;
    }
}

/// A property violation found by a harness oracle (or a panic / hang attributed by simkit).
#[derive(Debug, Clone, serde::Serialize, serde::Deserialize, PartialEq, Eq)]
pub struct Violation {
    /// Short stable identifier of the kind of violation, e.g. `double-drop`, `address-moved`.
    /// Minimisation accepts a candidate only if the same class recurs.
    pub class: String,
    pub detail: String,
}

impl Violation {
    #[must_use]
    pub fn new(class: &str, detail: impl Into<String>) -> Self {
        Self {
            class: class.to_owned(),
            detail: detail.into(),
        }
    }
}

/// `check!(cond, "class", "fmt", args…)` — returns `Err(Violation)` from the enclosing function.
#[macro_export]
macro_rules! check {
    ($cond:expr, $class:expr, $($arg:tt)+) => {
        if !($cond) {
            return Err($crate::Violation::new($class, format!($($arg)+)));
        }
    };
}
