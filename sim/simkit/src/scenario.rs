//! The `Scenario` trait every harness implements, and the command line shared by all harness
//! binaries (`batch`, `gen`, `replay`, `minimize`, `list`).
//!
//! A scenario is the complete, serialisable description of one simulated run: configuration,
//! operation scripts, fault plan and (where the run itself makes choices, e.g. which thread goes
//! next) an embedded sub-seed. Running it is a pure function of that description and the code under
//! test, so the scenario *is* the replay file; a minimised scenario need not be reachable from any
//! seed and still replays exactly.

use std::io::Write as _;
use std::panic::{AssertUnwindSafe, catch_unwind};
use std::sync::atomic::{AtomicU64, Ordering};
use std::sync::{Arc, Mutex};

use serde::de::DeserializeOwned;
use serde::{Deserialize, Serialize};
use serde_json::{Value, json};

use crate::ctx::{Ctx, Violation};
use crate::rng::{Rng, mix};

pub trait Scenario: Serialize + DeserializeOwned + Clone + 'static {
    /// Draws a scenario. `mode` is the configuration name (e.g. `strict`, `faulty`).
    fn generate(rng: &mut Rng, mode: &str) -> Self;

    /// Executes the scenario against the real code. `Ok(nontrivial)` if every oracle held.
    fn run(&self, ctx: &mut Ctx) -> Result<bool, Violation>;

    /// Smaller / simpler variants of this scenario, most aggressive first. Must terminate: every
    /// candidate must be strictly smaller by `size()`.
    fn shrink(&self) -> Vec<Self> {
        Vec::new()
    }

    /// Size measure used by the minimiser (operations + faults + threads …).
    fn size(&self) -> usize {
        0
    }
}

/// Type-erased scenario family served by a harness binary.
pub trait Family: Send + Sync {
    fn generate_json(&self, rng: &mut Rng, mode: &str) -> Value;
    /// Runs a scenario given as JSON. Panics escaping the run are turned into violations.
    fn run_json(&self, scenario: &Value, ctx: &mut Ctx) -> Result<bool, Violation>;
    fn shrink_json(&self, scenario: &Value) -> Vec<Value>;
    fn size_json(&self, scenario: &Value) -> usize;
    /// Generate + run without the JSON round trip (fast path for batches).
    fn generate_and_run(
        &self,
        rng: &mut Rng,
        mode: &str,
        ctx: &mut Ctx,
    ) -> (Result<bool, Violation>, Box<dyn FnOnce() -> Value>);
}

struct FamilyOf<S: Scenario>(std::marker::PhantomData<fn() -> S>);

fn run_caught<S: Scenario>(s: &S, ctx: &mut Ctx) -> Result<bool, Violation> {
    match catch_unwind(AssertUnwindSafe(|| s.run(ctx))) {
        Ok(r) => r,
        Err(payload) => Err(panic_violation(&payload)),
    }
}

/// Turns a caught panic payload into a violation whose class is stable under shrinking
/// (digits are masked so that indexes and addresses do not split the class).
#[must_use]
pub fn panic_violation(payload: &Box<dyn std::any::Any + Send>) -> Violation {
    let msg = panic_message(payload);
    let mut class = String::from("panic: ");
    let mut last_hash = false;
    for ch in msg.chars().take(100) {
        if ch.is_ascii_digit() {
            if !last_hash {
                class.push('#');
            }
            last_hash = true;
        } else {
            last_hash = false;
            class.push(if ch == '\n' { ' ' } else { ch });
        }
    }
    Violation {
        class,
        detail: msg,
    }
}

#[must_use]
pub fn panic_message(payload: &Box<dyn std::any::Any + Send>) -> String {
    if let Some(s) = payload.downcast_ref::<&'static str>() {
        (*s).to_owned()
    } else if let Some(s) = payload.downcast_ref::<String>() {
        s.clone()
    } else {
        "<non-string panic payload>".to_owned()
    }
}

impl<S: Scenario> Family for FamilyOf<S> {
    fn generate_json(&self, rng: &mut Rng, mode: &str) -> Value {
        serde_json::to_value(S::generate(rng, mode)).expect("scenario serialises")
    }

    fn run_json(&self, scenario: &Value, ctx: &mut Ctx) -> Result<bool, Violation> {
        let s: S = match serde_json::from_value(scenario.clone()) {
            Ok(s) => s,
            Err(e) => {
                eprintln!("simkit: scenario does not deserialise: {e}");
                std::process::exit(2);
            }
        };
        run_caught(&s, ctx)
    }

    fn shrink_json(&self, scenario: &Value) -> Vec<Value> {
        let s: S = serde_json::from_value(scenario.clone()).expect("scenario deserialises");
        s.shrink()
            .into_iter()
            .map(|c| serde_json::to_value(c).expect("scenario serialises"))
            .collect()
    }

    fn size_json(&self, scenario: &Value) -> usize {
        let s: S = serde_json::from_value(scenario.clone()).expect("scenario deserialises");
        s.size()
    }

    fn generate_and_run(
        &self,
        rng: &mut Rng,
        mode: &str,
        ctx: &mut Ctx,
    ) -> (Result<bool, Violation>, Box<dyn FnOnce() -> Value>) {
        let s = S::generate(rng, mode);
        let r = run_caught(&s, ctx);
        (
            r,
            Box::new(move || serde_json::to_value(s).expect("scenario serialises")),
        )
    }
}

/// One `(property, mode)` served by a harness binary.
pub struct Entry {
    pub property: &'static str,
    pub mode: &'static str,
    pub family: Box<dyn Family>,
    /// Run each minimisation candidate / replay in a child process (the code under test may hang,
    /// abort or poison process-global state).
    pub isolated: bool,
    pub about: &'static str,
}

#[must_use]
pub fn entry<S: Scenario>(property: &'static str, mode: &'static str, about: &'static str) -> Entry {
    Entry {
        property,
        mode,
        family: Box::new(FamilyOf::<S>(std::marker::PhantomData)),
        isolated: false,
        about,
    }
}

impl Entry {
    #[must_use]
    pub fn isolated(mut self) -> Self {
        self.isolated = true;
        self
    }
}

/// Contents of a replay file.
#[derive(Debug, Clone, Serialize, Deserialize)]
pub struct ReplayFile {
    pub property: String,
    pub harness: String,
    pub mode: String,
    #[serde(default)]
    pub engine: String,
    #[serde(default)]
    pub profile: String,
    #[serde(default)]
    pub verif_seed: u64,
    #[serde(default)]
    pub run_index: u64,
    #[serde(default)]
    pub miri_seed: Option<u64>,
    #[serde(default)]
    pub miri_flags: Option<String>,
    pub scenario: Value,
    #[serde(default)]
    pub violation_class: String,
    #[serde(default)]
    pub detail: String,
    #[serde(default)]
    pub event_log_hash: u64,
    #[serde(default)]
    pub minimised: bool,
}

thread_local! {
    static QUIET: std::cell::Cell<bool> = const { std::cell::Cell::new(false) };
}

static PANIC_VERBOSE: std::sync::OnceLock<bool> = std::sync::OnceLock::new();

/// Installs a panic hook that prints nothing (panics are expected events in many harnesses and
/// are reported through violations) unless `SIMKIT_PANIC_VERBOSE=1`.
pub fn install_quiet_panic_hook() {
    let verbose = *PANIC_VERBOSE.get_or_init(|| {
        #[cfg(miri)]
        {
            false
        }
        #[cfg(not(miri))]
        {
            std::env::var_os("SIMKIT_PANIC_VERBOSE").is_some()
        }
    });
    if verbose {
        return;
    }
    std::panic::set_hook(Box::new(|_info| {}));
}

fn arg_value<'a>(args: &'a [String], name: &str) -> Option<&'a str> {
    let mut i = 0;
    while i < args.len() {
        if args[i] == name {
            return args.get(i + 1).map(String::as_str);
        }
        i += 1;
    }
    None
}

fn arg_flag(args: &[String], name: &str) -> bool {
    args.iter().any(|a| a == name)
}

fn arg_u64(args: &[String], name: &str, default: u64) -> u64 {
    match arg_value(args, name) {
        Some(v) => v.parse().unwrap_or_else(|_| {
            eprintln!("simkit: bad value for {name}: {v}");
            std::process::exit(2)
        }),
        None => default,
    }
}

fn emit(line: &Value) {
    let out = std::io::stdout();
    let mut out = out.lock();
    let _ = writeln!(out, "SIMKIT {line}");
    let _ = out.flush();
}

fn find<'a>(entries: &'a [Entry], prop: &str, mode: &str) -> &'a Entry {
    entries
        .iter()
        .find(|e| e.property == prop && e.mode == mode)
        .unwrap_or_else(|| {
            eprintln!("simkit: no entry for property={prop} mode={mode}");
            std::process::exit(2)
        })
}

/// Entry point of every harness binary.
pub fn cli_main(harness: &'static str, entries: Vec<Entry>) -> ! {
    let args: Vec<String> = std::env::args().skip(1).collect();
    let cmd = args.first().map_or("help", String::as_str);
    install_quiet_panic_hook();
    let code = match cmd {
        "list" => {
            for e in &entries {
                emit(&json!({"harness": harness, "property": e.property, "mode": e.mode,
                    "isolated": e.isolated, "about": e.about}));
            }
            0
        }
        "batch" => cmd_batch(harness, &entries, &args),
        "gen" => {
            let prop = arg_value(&args, "--prop").unwrap_or("");
            let mode = arg_value(&args, "--mode").unwrap_or("");
            let e = find(&entries, prop, mode);
            let seed = arg_u64(&args, "--seed", 0);
            let index = arg_u64(&args, "--index", 0);
            let mut rng = Rng::for_run(seed, prop, mode, index);
            let scenario = e.family.generate_json(&mut rng, mode);
            let rf = ReplayFile {
                property: prop.to_owned(),
                harness: harness.to_owned(),
                mode: mode.to_owned(),
                engine: String::new(),
                profile: String::new(),
                verif_seed: seed,
                run_index: index,
                miri_seed: None,
                miri_flags: None,
                scenario,
                violation_class: String::new(),
                detail: String::new(),
                event_log_hash: 0,
                minimised: false,
            };
            println!("{}", serde_json::to_string_pretty(&rf).expect("serialises"));
            0
        }
        "replay" => cmd_replay(&entries, &args),
        "minimize" => cmd_minimize(&entries, &args),
        "shrink" => {
            // Prints the shrink candidates of a replay file's scenario (used by the driver to
            // minimise violations that only reproduce under Miri).
            let rf = load_replay(&args);
            let e = find(&entries, &rf.property, &rf.mode);
            let limit = arg_u64(&args, "--limit", 64) as usize;
            let mut candidates = e.family.shrink_json(&rf.scenario);
            candidates.truncate(limit);
            let sizes: Vec<usize> = candidates.iter().map(|c| e.family.size_json(c)).collect();
            emit(&json!({"candidates": candidates, "sizes": sizes,
                "size": e.family.size_json(&rf.scenario)}));
            0
        }
        _ => {
            eprintln!(
                "usage: {harness} list | batch --prop P --mode M --seed S --start I --count N \
                 [--progress] [--samples K] [--audit K] [--timeout-s T] [--max-violations V] | \
                 gen --prop P --mode M --seed S --index I | replay (--file F | --json J) [--quiet] | \
                 minimize --file F --out G [--budget N] | shrink --file F [--limit N]"
            );
            2
        }
    };
    std::process::exit(code)
}

fn cmd_batch(harness: &str, entries: &[Entry], args: &[String]) -> i32 {
    let prop = arg_value(args, "--prop").unwrap_or("").to_owned();
    let mode = arg_value(args, "--mode").unwrap_or("").to_owned();
    let e = find(entries, &prop, &mode);
    let seed = arg_u64(args, "--seed", 0);
    let start = arg_u64(args, "--start", 0);
    let count = arg_u64(args, "--count", 1);
    let progress = arg_flag(args, "--progress");
    let n_samples = arg_u64(args, "--samples", 0);
    let n_audit = arg_u64(args, "--audit", 0);
    let max_violations = arg_u64(args, "--max-violations", 3);
    let timeout_s = arg_u64(args, "--timeout-s", 120);

    // Watchdog: a run that does not finish is a hang under a one-runner schedule (native only;
    // Miri detects deadlock exactly and has no usable clock under isolation).
    let current = Arc::new(AtomicU64::new(u64::MAX));
    let beat = Arc::new(AtomicU64::new(0));
    let hang_info: Arc<Mutex<Option<Value>>> = Arc::new(Mutex::new(None));
    #[cfg(not(miri))]
    if timeout_s > 0 {
        let current = Arc::clone(&current);
        let beat = Arc::clone(&beat);
        let prop = prop.clone();
        let mode = mode.clone();
        let harness = harness.to_owned();
        std::thread::spawn(move || {
            let mut last = (u64::MAX, 0_u64);
            let mut since = std::time::Instant::now();
            loop {
                std::thread::sleep(std::time::Duration::from_millis(250));
                let now = (current.load(Ordering::Relaxed), beat.load(Ordering::Relaxed));
                if now != last {
                    last = now;
                    since = std::time::Instant::now();
                    continue;
                }
                if now.0 != u64::MAX && since.elapsed().as_secs() >= timeout_s {
                    emit(&json!({"hang": {"index": now.0, "harness": harness, "property": prop,
                        "mode": mode, "seed": seed, "timeout_s": timeout_s}}));
                    std::process::exit(3);
                }
            }
        });
    }
    #[cfg(miri)]
    let _ = (timeout_s, &hang_info);

    #[cfg(not(miri))]
    let t0 = std::time::Instant::now();

    let mut evaluations = 0_u64;
    let mut nontrivial = 0_u64;
    let mut hashes: Vec<u64> = Vec::new();
    let mut probes = std::collections::BTreeMap::<String, u64>::new();
    let mut faults = std::collections::BTreeMap::<String, u64>::new();
    let mut steps = 0_u64;
    let mut violations: Vec<Value> = Vec::new();
    let mut samples: Vec<Value> = Vec::new();
    let mut batch_hash = 0_u64;
    let mut audit_pairs = 0_u64;
    let mut audit_mismatches = 0_u64;

    for index in start..start.saturating_add(count) {
        if progress {
            emit(&json!({"begin": index}));
        }
        current.store(index, Ordering::Relaxed);
        beat.fetch_add(1, Ordering::Relaxed);
        let mut rng = Rng::for_run(seed, &prop, &mode, index);
        let mut ctx = Ctx::new(false);
        let (result, to_json) = e.family.generate_and_run(&mut rng, &mode, &mut ctx);
        evaluations += 1;
        steps += ctx.steps + rng.draws;
        for (k, v) in &ctx.probes {
            *probes.entry(k.clone()).or_insert(0) += *v;
        }
        for (k, v) in &ctx.faults {
            *faults.entry(k.clone()).or_insert(0) += *v;
        }
        batch_hash = mix(batch_hash, ctx.trace_hash);
        let want_sample = (samples.len() as u64) < n_samples;
        let want_audit = audit_pairs < n_audit;
        match result {
            Ok(nt) => {
                if nt {
                    nontrivial += 1;
                    hashes.push(ctx.trace_hash);
                }
                if (want_sample && nt) || want_audit {
                    let scenario = to_json();
                    let mut ctx2 = Ctx::new(true);
                    beat.fetch_add(1, Ordering::Relaxed);
                    let r2 = e.family.run_json(&scenario, &mut ctx2);
                    if want_audit {
                        audit_pairs += 1;
                        if ctx2.trace_hash != ctx.trace_hash || r2.is_err() {
                            audit_mismatches += 1;
                            emit(&json!({"audit_mismatch": {"index": index,
                                "first": ctx.trace_hash, "second": ctx2.trace_hash,
                                "second_result": format!("{r2:?}")}}));
                        }
                    }
                    if want_sample && nt {
                        let mut log = ctx2.log;
                        let total = log.len();
                        log.truncate(60);
                        samples.push(json!({"index": index, "scenario": scenario,
                            "event_log_head": log, "events": total,
                            "trace_hash": ctx.trace_hash}));
                    }
                }
            }
            Err(v) => {
                let scenario = to_json();
                violations.push(json!({"index": index, "class": v.class, "detail": v.detail,
                    "scenario": scenario, "trace_hash": ctx.trace_hash}));
                if violations.len() as u64 >= max_violations {
                    break;
                }
            }
        }
    }
    current.store(u64::MAX, Ordering::Relaxed);
    hashes.sort_unstable();
    hashes.dedup();
    #[cfg(not(miri))]
    let wall = t0.elapsed().as_secs_f64();
    #[cfg(miri)]
    let wall = 0.0_f64;
    emit(&json!({"result": {
        "harness": harness, "property": prop, "mode": mode, "seed": seed,
        "start": start, "count": count,
        "evaluations": evaluations, "nontrivial": nontrivial, "hashes": hashes,
        "probes": probes, "faults": faults, "steps": steps,
        "violations": violations, "samples": samples, "batch_hash": batch_hash,
        "audit_pairs": audit_pairs, "audit_mismatches": audit_mismatches,
        "wall_s": wall,
    }}));
    if audit_mismatches > 0 {
        return 2;
    }
    i32::from(!violations.is_empty())
}

fn load_replay(args: &[String]) -> ReplayFile {
    let text = if let Some(path) = arg_value(args, "--file") {
        std::fs::read_to_string(path).unwrap_or_else(|e| {
            eprintln!("simkit: cannot read {path}: {e}");
            std::process::exit(2)
        })
    } else if let Some(j) = arg_value(args, "--json") {
        j.to_owned()
    } else {
        eprintln!("simkit: replay needs --file or --json");
        std::process::exit(2)
    };
    serde_json::from_str(&text).unwrap_or_else(|e| {
        eprintln!("simkit: replay file does not parse: {e}");
        std::process::exit(2)
    })
}

/// Exit code 1 iff a violation occurred (and, when the file records a class, it is that class);
/// 0 if the run was clean; 4 if a *different* class occurred.
fn cmd_replay(entries: &[Entry], args: &[String]) -> i32 {
    let rf = load_replay(args);
    let e = find(entries, &rf.property, &rf.mode);
    let quiet = arg_flag(args, "--quiet");
    let mut ctx = Ctx::new(!quiet);
    let r = e.family.run_json(&rf.scenario, &mut ctx);
    if !quiet {
        for line in &ctx.log {
            println!("  {line}");
        }
    }
    match r {
        Ok(nt) => {
            emit(&json!({"replay": {"violation": false, "nontrivial": nt,
                "trace_hash": ctx.trace_hash, "events": ctx.steps}}));
            0
        }
        Err(v) => {
            let same = rf.violation_class.is_empty() || rf.violation_class == v.class;
            emit(&json!({"replay": {"violation": true, "class": v.class, "detail": v.detail,
                "same_class": same, "trace_hash": ctx.trace_hash, "events": ctx.steps}}));
            if same { 1 } else { 4 }
        }
    }
}

fn run_candidate(e: &Entry, rf: &ReplayFile, scenario: &Value, timeout_s: u64) -> Option<Violation> {
    if !e.isolated {
        let mut ctx = Ctx::new(false);
        return e.family.run_json(scenario, &mut ctx).err();
    }
    #[cfg(miri)]
    {
        let _ = (rf, timeout_s);
        let mut ctx = Ctx::new(false);
        e.family.run_json(scenario, &mut ctx).err()
    }
    #[cfg(not(miri))]
    {
        let mut cand = rf.clone();
        cand.scenario = scenario.clone();
        cand.violation_class = String::new();
        let text = serde_json::to_string(&cand).expect("serialises");
        let exe = std::env::current_exe().expect("current exe");
        let mut child = std::process::Command::new(exe)
            .args(["replay", "--quiet", "--json", &text])
            .stdout(std::process::Stdio::piped())
            .stderr(std::process::Stdio::null())
            .spawn()
            .expect("spawn replay child");
        let t0 = std::time::Instant::now();
        loop {
            match child.try_wait().expect("wait") {
                Some(status) => {
                    let mut out = String::new();
                    if let Some(mut so) = child.stdout.take() {
                        use std::io::Read as _;
                        let _ = so.read_to_string(&mut out);
                    }
                    for line in out.lines() {
                        if let Some(rest) = line.strip_prefix("SIMKIT ") {
                            if let Ok(v) = serde_json::from_str::<Value>(rest) {
                                if let Some(r) = v.get("replay") {
                                    if r["violation"].as_bool() == Some(true) {
                                        return Some(Violation {
                                            class: r["class"].as_str().unwrap_or("").to_owned(),
                                            detail: r["detail"].as_str().unwrap_or("").to_owned(),
                                        });
                                    }
                                    return None;
                                }
                            }
                        }
                    }
                    if !status.success() {
                        return Some(Violation::new(
                            "process-died",
                            format!("replay child ended with {status}"),
                        ));
                    }
                    return None;
                }
                None => {
                    if t0.elapsed().as_secs() >= timeout_s {
                        let _ = child.kill();
                        let _ = child.wait();
                        return Some(Violation::new("hang", format!("no result in {timeout_s} s")));
                    }
                    std::thread::sleep(std::time::Duration::from_millis(5));
                }
            }
        }
    }
}

/// Greedy delta-debugging over `Scenario::shrink()`: accept a candidate only when the same
/// violation class recurs. Writes the minimised replay file and re-verifies it.
fn cmd_minimize(entries: &[Entry], args: &[String]) -> i32 {
    let mut rf = load_replay(args);
    let e = find(entries, &rf.property, &rf.mode);
    let out_path = arg_value(args, "--out").unwrap_or("minimised.json").to_owned();
    let mut budget = arg_u64(args, "--budget", 3000);
    let timeout_s = arg_u64(args, "--timeout-s", 20);

    let first = run_candidate(e, &rf, &rf.scenario, timeout_s);
    let Some(first) = first else {
        emit(&json!({"minimize": {"error": "violation does not reproduce", "class": rf.violation_class}}));
        return 2;
    };
    let class = if rf.violation_class.is_empty() {
        first.class.clone()
    } else {
        rf.violation_class.clone()
    };
    if first.class != class {
        emit(&json!({"minimize": {"error": "different class on replay", "expected": class, "got": first.class}}));
        return 2;
    }
    let mut current = rf.scenario.clone();
    let mut detail = first.detail;
    let size0 = e.family.size_json(&current);
    let mut tried = 0_u64;
    'outer: loop {
        let candidates = e.family.shrink_json(&current);
        for c in candidates {
            if budget == 0 {
                break 'outer;
            }
            budget -= 1;
            tried += 1;
            if let Some(v) = run_candidate(e, &rf, &c, timeout_s) {
                if v.class == class {
                    current = c;
                    detail = v.detail;
                    continue 'outer;
                }
            }
        }
        break;
    }
    let size1 = e.family.size_json(&current);
    rf.scenario = current;
    rf.violation_class = class.clone();
    rf.detail = detail;
    rf.minimised = true;
    // Final confirmation of the minimised scenario, event log hash recorded for exact replay.
    let mut ctx = Ctx::new(false);
    if !e.isolated {
        let _ = e.family.run_json(&rf.scenario, &mut ctx);
        rf.event_log_hash = ctx.trace_hash;
    }
    std::fs::write(&out_path, serde_json::to_string_pretty(&rf).expect("serialises"))
        .unwrap_or_else(|err| {
            eprintln!("simkit: cannot write {out_path}: {err}");
            std::process::exit(2)
        });
    emit(&json!({"minimize": {"class": class, "size_before": size0, "size_after": size1,
        "candidates_tried": tried, "out": out_path}}));
    0
}
