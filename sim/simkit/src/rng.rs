//! Deterministic PRNG: xoshiro256** seeded through SplitMix64. No dependency on `rand`, whose
//! stream is not stable across versions. Every random decision of a simulated run derives from
//! one of these, which in turn derives from `(VERIF_SEED, property, mode, run index)`.

#[derive(Clone, Debug)]
pub struct Rng {
    s: [u64; 4],
    /// Number of draws so far (reported as part of "sim_steps").
    pub draws: u64,
}

#[inline]
fn splitmix(x: &mut u64) -> u64 {
    *x = x.wrapping_add(0x9E37_79B9_7F4A_7C15);
    let mut z = *x;
    z = (z ^ (z >> 30)).wrapping_mul(0xBF58_476D_1CE4_E5B9);
    z = (z ^ (z >> 27)).wrapping_mul(0x94D0_49BB_1331_11EB);
    z ^ (z >> 31)
}

/// Mixes two integers into one well-distributed integer (order-sensitive).
#[must_use]
pub fn mix(a: u64, b: u64) -> u64 {
    let mut x = a ^ b.rotate_left(32) ^ 0xD6E8_FEB8_6659_FD93;
    let r = splitmix(&mut x);
    let mut y = r ^ b;
    splitmix(&mut y)
}

/// FNV-1a over bytes; used to turn labels into seed components and to hash event logs.
#[must_use]
pub fn hash_bytes(bytes: &[u8]) -> u64 {
    let mut h: u64 = 0xCBF2_9CE4_8422_2325;
    for b in bytes {
        h ^= u64::from(*b);
        h = h.wrapping_mul(0x0000_0100_0000_01B3);
    }
    h
}

#[must_use]
pub fn hash_str(s: &str) -> u64 {
    hash_bytes(s.as_bytes())
}

impl Rng {
    #[must_use]
    pub fn new(seed: u64) -> Self {
        let mut x = seed;
        let s = [
            splitmix(&mut x),
            splitmix(&mut x),
            splitmix(&mut x),
            splitmix(&mut x),
        ];
        Self { s, draws: 0 }
    }

    /// The PRNG for run `index` of `(property, mode)` under `verif_seed`.
    #[must_use]
    pub fn for_run(verif_seed: u64, property: &str, mode: &str, index: u64) -> Self {
        let label = mix(hash_str(property), hash_str(mode));
        Self::new(mix(mix(verif_seed, label), index))
    }

    #[inline]
    pub fn next_u64(&mut self) -> u64 {
        self.draws = self.draws.wrapping_add(1);
        let result = self.s[1].wrapping_mul(5).rotate_left(7).wrapping_mul(9);
        let t = self.s[1] << 17;
        self.s[2] ^= self.s[0];
        self.s[3] ^= self.s[1];
        self.s[1] ^= self.s[2];
        self.s[0] ^= self.s[3];
        self.s[2] ^= t;
        self.s[3] = self.s[3].rotate_left(45);
        result
    }

    /// Uniform in `0..n` (n > 0). Uses multiply-shift; the tiny bias is irrelevant here.
    #[inline]
    pub fn below(&mut self, n: u64) -> u64 {
        assert!(n > 0, "below(0)");
        ((u128::from(self.next_u64()) * u128::from(n)) >> 64) as u64
    }

    #[inline]
    pub fn below_usize(&mut self, n: usize) -> usize {
        self.below(n as u64) as usize
    }

    /// Uniform in `lo..=hi`.
    #[inline]
    pub fn range(&mut self, lo: u64, hi: u64) -> u64 {
        assert!(lo <= hi, "range({lo}, {hi})");
        if lo == 0 && hi == u64::MAX {
            return self.next_u64();
        }
        lo + self.below(hi - lo + 1)
    }

    #[inline]
    pub fn range_usize(&mut self, lo: usize, hi: usize) -> usize {
        self.range(lo as u64, hi as u64) as usize
    }

    #[inline]
    pub fn range_i64(&mut self, lo: i64, hi: i64) -> i64 {
        assert!(lo <= hi);
        let span = (hi as i128 - lo as i128) as u128;
        if span >= u128::from(u64::MAX) {
            return self.next_u64() as i64;
        }
        (lo as i128 + i128::from(self.below(span as u64 + 1))) as i64
    }

    /// True with probability `num/den`.
    #[inline]
    pub fn chance(&mut self, num: u64, den: u64) -> bool {
        self.below(den) < num
    }

    #[inline]
    pub fn bool(&mut self) -> bool {
        self.next_u64() & 1 == 1
    }

    pub fn pick<'a, T>(&mut self, items: &'a [T]) -> &'a T {
        assert!(!items.is_empty(), "pick from empty slice");
        &items[self.below_usize(items.len())]
    }

    /// Index drawn proportionally to `weights` (at least one weight must be non-zero).
    pub fn weighted(&mut self, weights: &[u32]) -> usize {
        let total: u64 = weights.iter().map(|w| u64::from(*w)).sum();
        assert!(total > 0, "weighted() with all-zero weights");
        let mut x = self.below(total);
        for (i, w) in weights.iter().enumerate() {
            let w = u64::from(*w);
            if x < w {
                return i;
            }
            x -= w;
        }
        unreachable!()
    }

    pub fn shuffle<T>(&mut self, items: &mut [T]) {
        for i in (1..items.len()).rev() {
            let j = self.below_usize(i + 1);
            items.swap(i, j);
        }
    }

    /// A random subset of `0..n` where each element is included with probability `num/den`.
    pub fn subset(&mut self, n: usize, num: u64, den: u64) -> Vec<usize> {
        (0..n).filter(|_| self.chance(num, den)).collect()
    }

    /// An independent child generator (so that adding draws in one place does not shift another).
    pub fn fork(&mut self) -> Rng {
        Rng::new(self.next_u64())
    }
}

#[cfg(test)]
mod tests {
    use super::*;

    #[test]
    fn deterministic_and_in_range() {
        let mut a = Rng::for_run(1, "C01", "strict", 7);
        let mut b = Rng::for_run(1, "C01", "strict", 7);
        for _ in 0..1000 {
            let x = a.range(3, 9);
            assert_eq!(x, b.range(3, 9));
            assert!((3..=9).contains(&x));
        }
        let mut c = Rng::for_run(1, "C01", "strict", 8);
        assert_ne!(a.next_u64(), c.next_u64());
    }
}
