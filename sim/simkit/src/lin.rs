//! Linearizability checker (Wing–Gong search with memoisation) for short concurrent histories
//! against a *nondeterministic* sequential specification.
//!
//! Invocation and response stamps must come from one global sequence (the simulator's event
//! counter), never from coarse time under which operations tie.

use std::collections::HashSet;
use std::hash::Hash;

/// One operation of a recorded history.
#[derive(Debug, Clone)]
pub struct HistOp<O, R> {
    pub thread: usize,
    pub invoke: u64,
    /// `None` = the operation never returned (pending at the end of the history): it may take
    /// effect at any point after its invocation, or never.
    pub ret: Option<u64>,
    pub op: O,
    /// The observed result (ignored for pending operations).
    pub result: Option<R>,
}

/// Result of a check.
#[derive(Debug, Clone)]
pub struct LinResult {
    /// A witness order (indexes into the history) if linearizable.
    pub order: Option<Vec<usize>>,
    pub states_visited: u64,
}

/// `step(state, op)` returns every `(next state, result)` the sequential specification allows.
/// At most 64 operations per history.
pub fn check_linearizable<S, O, R>(
    init: S,
    history: &[HistOp<O, R>],
    step: impl Fn(&S, &O) -> Vec<(S, R)>,
) -> LinResult
where
    S: Clone + Eq + Hash,
    R: PartialEq,
{
    assert!(history.len() <= 64, "history too long for the checker");
    let n = history.len();
    let complete_mask: u64 = history
        .iter()
        .enumerate()
        .filter(|(_, h)| h.ret.is_some())
        .fold(0, |m, (i, _)| m | (1_u64 << i));
    let mut seen: HashSet<(u64, S)> = HashSet::new();
    let mut order: Vec<usize> = Vec::new();
    let mut visited = 0_u64;

    fn dfs<S, O, R>(
        n: usize,
        history: &[HistOp<O, R>],
        step: &impl Fn(&S, &O) -> Vec<(S, R)>,
        complete_mask: u64,
        done: u64,
        state: &S,
        seen: &mut HashSet<(u64, S)>,
        order: &mut Vec<usize>,
        visited: &mut u64,
    ) -> bool
    where
        S: Clone + Eq + Hash,
        R: PartialEq,
    {
        if done & complete_mask == complete_mask {
            return true;
        }
        if !seen.insert((done, state.clone())) {
            return false;
        }
        *visited += 1;
        // An operation can be linearized next only if no other unlinearized *completed*
        // operation returned before it was invoked.
        let min_ret = (0..n)
            .filter(|i| done & (1 << i) == 0)
            .filter_map(|i| history[i].ret)
            .min()
            .unwrap_or(u64::MAX);
        for i in 0..n {
            if done & (1 << i) != 0 || history[i].invoke > min_ret {
                continue;
            }
            for (next, res) in step(state, &history[i].op) {
                let matches = match (&history[i].ret, &history[i].result) {
                    (Some(_), Some(observed)) => *observed == res,
                    _ => true,
                };
                if !matches {
                    continue;
                }
                order.push(i);
                if dfs(n, history, step, complete_mask, done | (1 << i), &next, seen, order, visited) {
                    return true;
                }
                order.pop();
            }
        }
        false
    }

    let ok = dfs(n, history, &step, complete_mask, 0, &init, &mut seen, &mut order, &mut visited);
    LinResult {
        order: ok.then_some(order),
        states_visited: visited,
    }
}

#[cfg(test)]
mod tests {
    use super::*;

    #[derive(Debug, Clone, PartialEq)]
    enum Op {
        Write(u32),
        Read,
    }

    fn reg(s: &u32, op: &Op) -> Vec<(u32, Option<u32>)> {
        match op {
            Op::Write(v) => vec![(*v, None)],
            Op::Read => vec![(*s, Some(*s))],
        }
    }

    fn h(thread: usize, invoke: u64, ret: u64, op: Op, result: Option<u32>) -> HistOp<Op, Option<u32>> {
        HistOp { thread, invoke, ret: Some(ret), op, result: Some(result) }
    }

    #[test]
    fn register_histories() {
        // write(1) overlaps read -> read may see 0 or 1.
        let ok = vec![h(0, 0, 3, Op::Write(1), None), h(1, 1, 2, Op::Read, Some(0))];
        assert!(check_linearizable(0, &ok, reg).order.is_some());
        let ok2 = vec![h(0, 0, 3, Op::Write(1), None), h(1, 1, 2, Op::Read, Some(1))];
        assert!(check_linearizable(0, &ok2, reg).order.is_some());
        // read strictly after write(1) must not see 0.
        let bad = vec![h(0, 0, 1, Op::Write(1), None), h(1, 2, 3, Op::Read, Some(0))];
        assert!(check_linearizable(0, &bad, reg).order.is_none());
    }
}
