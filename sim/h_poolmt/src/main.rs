//! Harness for property C03 (thread-safe pools of `infinity_pool` on any schedule).
//!
//! Modes: `coord` (native, op-granular coordinator), `mt` (Miri, real threads), `admission`
//! (native, rustc's verdict on the auto-trait probe programs), `autotrait` (in-binary probe
//! programs, executed under Miri when admitted), `known-c03-handle-sync-for-all-payloads`.
mod admission;
mod coord_mode;
mod mt_mode;
mod racers;
mod sut;

use simkit::entry;

/// Known defects on the unchanged tree (DESIGN §6) whose triggers ordinary modes must not
/// generate. Remove a key when the defect is fixed in /repo: the ordinary modes then cover it.
pub const AVOID_KNOWN: &[&str] = &["c03-handle-sync-for-all-payloads"];

fn main() {
    if std::env::args().nth(1).as_deref() == Some("matrix") {
        std::process::exit(admission::print_matrix());
    }
    simkit::cli_main(
        "h_poolmt",
        vec![
            entry::<coord_mode::CoordScenario>(
                "C03",
                "coord",
                "op-granular coordinator, 2-16 simulated threads, handles migrate between threads",
            ),
            entry::<mt_mode::MtScenario>(
                "C03",
                "mt",
                "2-4 real threads run scripts concurrently (Miri: races, UAF, leaks, deadlock)",
            ),
            entry::<admission::AdmissionScenario>(
                "C03",
                "admission",
                "auto-trait clause: rustc's verdict on one probe program vs what the property demands",
            ),
            entry::<admission::AutoTraitScenario>(
                "C03",
                "autotrait",
                "auto-trait clause: in-binary probe programs, executed under Miri when rustc admits them",
            ),
            entry::<admission::KnownScenario>(
                "C03",
                "known-c03-handle-sync-for-all-payloads",
                "finding 4: handles are Sync for every payload (Miri: data race on a Cell payload)",
            ),
        ],
    )
}
